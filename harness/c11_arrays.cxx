// C11 — arrays are index-range maps under any history and stay in bounds.
// Model-based: every operation is applied to the STIR object and to a reference model
// (index range + values, "undefined" marks for elements STIR leaves default-initialised);
// after every step the whole object is compared with the model through several read paths.
#include "verif.h"
#include "stir/VectorWithOffset.h"
#include "stir/NumericVectorWithOffset.h"
#include "stir/Array.h"
#include "stir/IndexRange.h"
#include "stir/BasicCoordinate.h"
#include "stir/shared_ptr.h"
#include "stir/array_index_functions.h"
#include "stir/copy_fill.h"
#include <memory>
#include <optional>
#include <set>
#include <iostream>
#include <cstdlib>

using namespace vf;
using stir::Array;
using stir::IndexRange;
using stir::VectorWithOffset;

namespace {

// ---- element type that counts live objects -------------------------------------------------
struct Counted
{
  static long live;
  static long bad; // destruction of a dead object / use of a dead object
  int v;
  int magic;
  Counted() : v(0), magic(0x5a5a) { ++live; }
  Counted(int x) : v(x), magic(0x5a5a) { ++live; }
  Counted(const Counted& o) : v(o.v), magic(0x5a5a)
  {
    if (o.magic != 0x5a5a)
      ++bad;
    ++live;
  }
  Counted& operator=(const Counted& o)
  {
    if (o.magic != 0x5a5a || magic != 0x5a5a)
      ++bad;
    v = o.v;
    return *this;
  }
  ~Counted()
  {
    if (magic != 0x5a5a)
      ++bad;
    magic = 0;
    --live;
  }
  Counted& operator+=(const Counted& o) { v += o.v; return *this; }
  Counted& operator-=(const Counted& o) { v -= o.v; return *this; }
  Counted& operator*=(const Counted& o) { v *= o.v; return *this; }
  Counted& operator/=(const Counted& o) { v = o.v ? v / o.v : 0; return *this; }
  bool operator==(const Counted& o) const { return v == o.v; }
  bool operator<(const Counted& o) const { return v < o.v; }
  bool operator>(const Counted& o) const { return v > o.v; }
};
long Counted::live = 0;
long Counted::bad = 0;

// ---- known findings: narrow sub-case exclusions (switched off with VERIF_NO_EXCLUDE=1; probes under known/C11/) ------------
//  C11:IndexRange:stale-regularity-flag   IndexRange<n> caches "regular / not regular"; the cache is not invalidated when the
//        range is changed through the (public) VectorWithOffset interface it inherits (the idiom of ML_norm.cxx: default-construct,
//        grow, assign the rows): is_regular(), get_regular_range() and size_all() then answer for the OLD contents, and
//        Array<n>(range) allocates size_all() elements and writes all rows (heap overflow).
//  C11:next:empty-row   next(index, array) / get_min_indices(array) of array_index_functions.inl step INTO zero-length rows:
//        the documented loop visits multi-indices that are not in the array.
// set to false when the corresponding repair is in /repo (the sub-case is then part of the normal search again)
constexpr bool EXCLUDE_INDEXRANGE_STALE_FLAG = true;
constexpr bool EXCLUDE_NEXT_EMPTY_ROW = false; // repaired in /repo (replays/C11/fixed_next_empty_row.json)
std::set<std::string> g_excluded_in_case;
bool
no_exclude()
{
  static const bool v = std::getenv("VERIF_NO_EXCLUDE") != nullptr;
  return v;
}
//! true = this sub-case is a known finding and is left out (counted); false = it is checked
bool
excluded(const char* sig)
{
  if (no_exclude())
    return false;
  if ((!EXCLUDE_INDEXRANGE_STALE_FLAG && std::string(sig) == "C11:IndexRange:stale-regularity-flag")
      || (!EXCLUDE_NEXT_EMPTY_ROW && std::string(sig) == "C11:next:empty-row"))
    return false;
  // development aid: C11_NO_EXCLUDE=<part of a signature> switches a single exclusion off
  static const char* one = std::getenv("C11_NO_EXCLUDE");
  if (one && std::string(sig).find(one) != std::string::npos)
    return false;
  // each signature is counted once per case (the exclusion itself applies to every occurrence)
  if (g_excluded_in_case.insert(sig).second)
    {
      vf::stats().excluded_known++;
      vf::stats().count(std::string("excluded:") + sig);
    }
  return true;
}

// ---- domain audit: sub-domains of the statement reached by a case (one class count per case and sub-domain)
enum CaseFlag
{
  CF_VIEW1 = 0,        // 1-D: a memory view was made
  CF_VIEW1_WITHIN,     // 1-D: a view was resized / grown / reserved inside the viewed block (must still alias)
  CF_VIEW1_BEYOND,     // 1-D: ... beyond the block (independent afterwards)
  CF_VIEW1_REGROWN,    // 1-D: a view was emptied (resize to the empty range) and regrown inside the block (must alias again)
  CF_VIEWN,            // N-D: a memory view was made
  CF_VIEWN_HELD,       // N-D: a view had to survive an operation that is not a resize (own statement)
  CF_VIEWN_MOVED,      // N-D: a view was moved / swapped into another object and had to survive
  CF_ND_IRREGULAR,     // N-D: an array with an irregular range existed
  CF_ND_EMPTY_ROW,     // N-D: ... with a zero-length row
  CF_BIN_ONE_END,      // binary operation, ranges differ at exactly one end
  CF_BIN_BOTH_ENDS,    // ... at both ends
  CF_BIN_EMPTY,        // ... one operand empty
  CF_SELF,             // assignment or binary operation with the object itself
  CF_N
};
static const char* const case_flag_name[CF_N] = { "1-D view made",
                                                  "1-D view resized inside the viewed block (must still alias)",
                                                  "1-D view resized beyond the viewed block",
                                                  "1-D view emptied, then regrown inside the viewed block (must alias again)",
                                                  "N-D view made",
                                                  "N-D view had to survive a non-resizing operation (own statement)",
                                                  "N-D view moved or swapped to another object",
                                                  "N-D array with irregular range",
                                                  "N-D array with a zero-length row",
                                                  "binary op: ranges differ at one end",
                                                  "binary op: ranges differ at both ends",
                                                  "binary op: one operand empty",
                                                  "assignment / binary op with the object itself" };
static bool g_case_flag[CF_N];
inline void flag(CaseFlag f) { g_case_flag[f] = true; }
inline void
flag_ranges(bool e1, int mn1, int mx1, bool e2, int mn2, int mx2)
{
  if (e1 != e2)
    flag(CF_BIN_EMPTY);
  else if (!e1)
    {
      const int nd = (mn1 != mn2) + (mx1 != mx2);
      if (nd == 1)
        flag(CF_BIN_ONE_END);
      else if (nd == 2)
        flag(CF_BIN_BOTH_ENDS);
    }
}

template <class T> T mk(int x) { return T(x); }
template <class T> bool same(const T& a, const T& b) { return a == b; }
template <> bool same<float>(const float& a, const float& b) { return a == b || (std::isnan(a) && std::isnan(b)); }

// =============================================================================================
// 1-D interpreter
template <class T>
struct M1
{ // model: elements min..min+v.size()-1; def[i]=false where STIR leaves the value unspecified
  int min = 0;
  std::vector<T> v;
  std::vector<char> def;
  int max() const { return min + int(v.size()) - 1; }
  bool empty() const { return v.empty(); }
  void resize(int nmin, int nmax, bool zero_new)
  {
    if (nmin > nmax)
      {
        v.clear();
        def.clear();
        min = 0;
        return;
      }
    std::vector<T> nv(std::size_t(nmax - nmin + 1), mk<T>(0));
    std::vector<char> nd(nv.size(), zero_new ? 1 : 0);
    for (int i = nmin; i <= nmax; ++i)
      if (!empty() && i >= min && i <= max())
        {
          nv[std::size_t(i - nmin)] = v[std::size_t(i - min)];
          nd[std::size_t(i - nmin)] = def[std::size_t(i - min)];
        }
    v.swap(nv);
    def.swap(nd);
    min = nmin;
  }
};

struct OpCtx
{
  std::string where;
};

// is_array: Array<1,T> (zero-filling resize, Array-only API); is_numeric: the arithmetic family of NumericVectorWithOffset
// (+= etc. grow to the hull, scalar operands, xapyb/sapyb); plain VectorWithOffset has neither.
template <class Vec, class T, bool is_array, bool zero_new_, bool is_numeric = is_array>
struct Interp1
{
  static constexpr int NS = 3;
  // buffers first: they are destroyed last, after every object that views them
  std::vector<stir::shared_ptr<T[]>> old_bufs; // blocks viewed through the (deprecated) raw-pointer constructors stay alive
  // memory view: slot 0 may view buf
  stir::shared_ptr<T[]> buf;
  int buf_len = 0;
  std::unique_ptr<Vec> o[NS];
  M1<T> m[NS];
  bool view_attached[NS] = { false, false, false }; // model: must still alias
  bool may_alias[NS] = { false, false, false };

  Interp1()
  {
    for (int s = 0; s < NS; ++s)
      o[s].reset(new Vec());
  }

  Result compare(int s, const char* after)
  {
    const Vec& x = *o[s];
    const M1<T>& mm = m[s];
    VF_CHECK(x.size() == mm.v.size(), after, " slot ", s, " size ", x.size(), " model ", mm.v.size());
    VF_CHECK(x.get_length() == int(mm.v.size()), after, " get_length");
    VF_CHECK(x.empty() == mm.empty(), after, " empty()");
    if (!mm.empty())
      {
        VF_CHECK(x.get_min_index() == mm.min, after, " slot ", s, " min_index ", x.get_min_index(), " model ", mm.min);
        VF_CHECK(x.get_max_index() == mm.max(), after, " slot ", s, " max_index ", x.get_max_index(), " model ", mm.max());
      }
    else
      {
        // an empty vector must report an empty index range (which one is not specified by the property)
        VF_CHECK(x.get_max_index() == x.get_min_index() - 1, after, " empty vector must report an empty range, got ", x.get_min_index(), "..",
                 x.get_max_index());
        // ... and equality must reflect the contents: it equals a default-constructed empty vector
        VF_CHECK(x == Vec(), after, " empty vector does not compare equal to an empty vector (reports range ", x.get_min_index(), "..",
                 x.get_max_index(), ")");
      }
    VF_CHECK(x.capacity() >= x.size(), after, " capacity<size");
    // path 1: operator[]
    for (int i = mm.min; i <= mm.max(); ++i)
      if (mm.def[std::size_t(i - mm.min)])
        VF_CHECK(same(x[i], mm.v[std::size_t(i - mm.min)]), after, " slot ", s, " [", i, "] differs from model");
    // path 2: iteration visits exactly the elements in order
    {
      std::size_t k = 0;
      for (auto it = x.begin(); it != x.end(); ++it, ++k)
        {
          VF_CHECK(k < mm.v.size(), after, " iteration too long");
          if (mm.def[k])
            VF_CHECK(same(*it, mm.v[k]), after, " iterator element ", k);
          VF_CHECK(&*it == &x[mm.min + int(k)], after, " iterator address");
        }
      VF_CHECK(k == mm.v.size(), after, " iteration visited ", k, " of ", mm.v.size());
      k = 0;
      for (auto it = x.rbegin(); it != x.rend(); ++it, ++k)
        {
          VF_CHECK(k < mm.v.size(), after, " reverse iteration too long");
          if (mm.def[mm.v.size() - 1 - k])
            VF_CHECK(same(*it, mm.v[mm.v.size() - 1 - k]), after, " reverse iterator element ", k);
        }
      VF_CHECK(k == mm.v.size(), after, " reverse iteration count");
    }
    return Result::pass();
  }

  template <class V = Vec>
  Result compare_array_extras(int s, const char* after)
  {
    if constexpr (is_array)
      {
        const Vec& x = *o[s];
        const M1<T>& mm = m[s];
        VF_CHECK(x.size_all() == mm.v.size(), after, " size_all");
        const IndexRange<1> r = x.get_index_range();
        VF_CHECK(mm.empty() ? (r.get_length() == 0) : (r.get_min_index() == mm.min && r.get_max_index() == mm.max()), after,
                 " get_index_range");
        std::size_t k = 0;
        for (auto it = x.begin_all(); it != x.end_all(); ++it, ++k)
          VF_CHECK(k < mm.v.size() && same(*it, mm.v[k]), after, " begin_all element ", k);
        VF_CHECK(k == mm.v.size(), after, " begin_all count");
        double acc = 0;
        for (auto& e : mm.v)
          acc += e;
        VF_CHECK(same(x.sum(), float(acc)), after, " sum ", x.sum(), " model ", float(acc));
        if (!mm.empty())
          {
            bool anynan = false;
            for (auto& e : mm.v)
              anynan = anynan || std::isnan(e);
            if (!anynan)
              {
                VF_CHECK(x.find_max() == *std::max_element(mm.v.begin(), mm.v.end()), after, " find_max");
                VF_CHECK(x.find_min() == *std::min_element(mm.v.begin(), mm.v.end()), after, " find_min");
              }
          }
        VF_CHECK(x.is_regular(), after, " is_regular");
        VF_CHECK(x.is_contiguous(), after, " is_contiguous");
        // ---- entry points of Array<1> / IndexRange<1> / array_index_functions / copy_fill that only read (audit)
        {
          double accp = 0;
          for (auto& e : mm.v)
            if (e > 0)
              accp += e;
          VF_CHECK(same(x.sum_positive(), float(accp)), after, " sum_positive ", x.sum_positive(), " model ", float(accp));
          stir::BasicCoordinate<1, int> rmn, rmx;
          VF_CHECK(x.get_regular_range(rmn, rmx), after, " Array<1>::get_regular_range must say regular");
          VF_CHECK(mm.empty() ? (rmx[1] == rmn[1] - 1) : (rmn[1] == mm.min && rmx[1] == mm.max()), after, " Array<1>::get_regular_range ",
                   rmn[1], "..", rmx[1]);
          VF_CHECK(r.is_regular() && r.size_all() == mm.v.size() && r.get_length() == int(mm.v.size()), after, " IndexRange<1> size");
          VF_CHECK(r == IndexRange<1>(r.get_min_index(), r.get_max_index()), after, " IndexRange<1>::operator==");
          if (!mm.empty())
            {
              stir::BasicCoordinate<1, int> c1, c2;
              c1[1] = mm.min;
              c2[1] = mm.max();
              VF_CHECK(r == IndexRange<1>(c1, c2), after, " IndexRange<1>(BasicCoordinate,BasicCoordinate)");
              VF_CHECK(!(r == IndexRange<1>(mm.min, mm.max() + 1)) && !(r == IndexRange<1>(mm.min + 1, mm.max() + 1)), after,
                       " IndexRange<1>::operator== true for another range");
              IndexRange<1> r2(int(mm.v.size()));
              c1[1] = int(mm.v.size());
              VF_CHECK(r2 == IndexRange<1>(c1) && r2.get_min_index() == 0 && r2.get_max_index() == int(mm.v.size()) - 1, after,
                       " IndexRange<1>(length)");
              r2.resize(mm.min, mm.max());
              VF_CHECK(r2 == r, after, " IndexRange<1>::resize");
              VF_CHECK(stir::get_min_indices(x)[1] == mm.min, after, " get_min_indices");
              // the documented loop: do {...} while (next(index, array))
              stir::BasicCoordinate<1, int> ci = stir::get_min_indices(x);
              std::size_t k2 = 0;
              do
                {
                  VF_CHECK(k2 < mm.v.size() && ci[1] == mm.min + int(k2), after, " next(): visit ", k2, " is index ", ci[1]);
                  // (stir::get(Array<1>, BasicCoordinate<1>) does not compile: two of its overloads are equally specialised)
                  VF_CHECK(&x[ci] == &x[ci[1]] && &x.at(ci) == &x[ci[1]], after, " access through BasicCoordinate<1>");
                  ++k2;
                }
              while (stir::next(ci, x));
              VF_CHECK(k2 == mm.v.size(), after, " next() loop visited ", k2, " of ", mm.v.size());
              const float* q = x.get_const_full_data_ptr();
              x.release_const_full_data_ptr();
              VF_CHECK(q == &x[mm.min], after, " get_const_full_data_ptr");
            }
          std::vector<float> out(mm.v.size() + 2, -12345.F);
          auto oe = stir::copy_to(x, out.begin());
          VF_CHECK(oe == out.begin() + std::ptrdiff_t(mm.v.size()), after, " copy_to end iterator");
          for (std::size_t i = 0; i < mm.v.size(); ++i)
            VF_CHECK(same(out[i], mm.v[i]), after, " copy_to element ", i);
          VF_CHECK(out[mm.v.size()] == -12345.F, after, " copy_to wrote beyond size_all() elements");
        }
      }
    return Result::pass();
  }

  // aliasing with the viewed buffer (all kinds)
  Result compare_alias(int s, const char* after)
  {
    if (buf && may_alias[s])
      {
        Vec& xx = *o[s];
        const Vec& x = xx;
        const M1<T>& mm = m[s];
        const T* p = mm.empty() ? nullptr : &x[mm.min];
        const bool inside = p && p >= buf.get() && p + mm.v.size() <= buf.get() + buf_len;
        if (view_attached[s] && !mm.empty())
          VF_CHECK(inside, after, " view must still alias the shared buffer (no resize beyond it happened)");
        if (inside)
          {
            // exact aliasing both ways
            const std::size_t off = std::size_t(p - buf.get());
            for (std::size_t i = 0; i < mm.v.size(); ++i)
              if (mm.def[i])
                VF_CHECK(same(buf[std::ptrdiff_t(off + i)], mm.v[i]), after, " buffer does not show the array's value");
            buf[std::ptrdiff_t(off)] = mk<T>(77);
            VF_CHECK(same(xx[mm.min], mk<T>(77)), after, " array does not show a write to the buffer");
            buf[std::ptrdiff_t(off)] = mm.v[0];
          }
        else if (!mm.empty()) // an emptied view has no element to look at; it stays attached (see case 5)
          view_attached[s] = false;
      }
    return Result::pass();
  }

  Result compare_all(const char* after)
  {
    for (int s = 0; s < NS; ++s)
      {
        Result r = compare(s, after);
        if (r.failed())
          return r;
        r = compare_array_extras(s, after);
        if (r.failed())
          return r;
        r = compare_alias(s, after);
        if (r.failed())
          return r;
      }
    return Result::pass();
  }

  // decode a range from two small ints: min in [-4,4], length in [0,6]
  static void decode_range(long a, long b, int& mn, int& mx)
  {
    mn = int(((a % 9) + 9) % 9) - 4;
    const int len = int(((b % 7) + 7) % 7);
    mx = mn + len - 1;
  }

  Result apply(const json& op, int idx)
  {
    const int code = op[0].get<int>();
    const long a = op[1].get<long>(), b = op[2].get<long>(), c = op[3].get<long>(), d = op[4].get<long>();
    const int s = int(((a % NS) + NS) % NS);
    const int t = int(((b % NS) + NS) % NS);
    Vec& x = *o[s];
    M1<T>& mx_ = m[s];
    const std::string tag = cat("op#", idx, " code ", code);
    const char* after = tag.c_str();
    constexpr bool zero_new = zero_new_;
    switch (code)
      {
      case 0: { // construct(range)
        int mn, mxi;
        decode_range(c, d, mn, mxi);
        o[s].reset(new Vec(mn, mxi));
        mx_ = M1<T>();
        mx_.resize(mn, mxi, zero_new);
        view_attached[s] = may_alias[s] = false;
        break;
      }
      case 1: { // copy construct s from t
        if (s == t)
          break;
        o[s].reset(new Vec(*o[t]));
        m[s] = m[t];
        view_attached[s] = may_alias[s] = false;
        break;
      }
      case 2: { // move construct s from t; t must stay valid (state unspecified): resync t's model from what it reports
        if (s == t)
          break;
        std::unique_ptr<Vec> n(new Vec(std::move(*o[t])));
        o[s] = std::move(n);
        m[s] = m[t];
        view_attached[s] = view_attached[t];
        may_alias[s] = may_alias[t];
        view_attached[t] = may_alias[t] = false;
        Result r = resync(t, after);
        if (r.failed())
          return r;
        break;
      }
      case 3: { // copy assign
        if (s == t)
          flag(CF_SELF);
        *o[s] = *o[t];
        m[s] = m[t];
        if (s != t)
          view_attached[s] = false; // may or may not still alias (capacity dependent): only exactness is checked
        break;
      }
      case 4: { // move assign
        if (s == t)
          break;
        *o[s] = std::move(*o[t]);
        m[s] = m[t];
        view_attached[s] = false;
        may_alias[s] = may_alias[s] || may_alias[t];
        Result r = resync(t, after);
        if (r.failed())
          return r;
        break;
      }
      case 5: { // resize
        int mn, mxi;
        decode_range(c, d, mn, mxi);
        // (domain audit) a resize to the EMPTY range is not a resize beyond the block: the view stays attached, and a later
        // resize / grow that fits into the block must alias it again (the harness used to let go of the view here)
        if (view_attached[s] && mn <= mxi && !fits(s, false, mn, mxi))
          view_attached[s] = false;
        x.resize(mn, mxi);
        mx_.resize(mn, mxi, zero_new);
        break;
      }
      case 6: { // grow (must cover the current range unless empty)
        int mn, mxi;
        decode_range(c, d, mn, mxi);
        if (!mx_.empty())
          {
            mn = std::min(mn, mx_.min);
            mxi = std::max(mxi, mx_.max());
          }
        if (mn > mxi)
          break; // grow to an empty range on an empty vector: skip (grow(unsigned 0) wraps)
        if (view_attached[s] && !fits(s, false, mn, mxi))
          view_attached[s] = false;
        x.grow(mn, mxi);
        mx_.resize(mn, mxi, zero_new);
        break;
      }
      case 7: { // reserve: no observable change
        int mn, mxi;
        decode_range(c, d, mn, mxi);
        if (mn > mxi)
          break; // reserving an empty range is not a meaningful request
        if (view_attached[s] && !fits(s, true, mn, mxi))
          view_attached[s] = false;
        x.reserve(mn, mxi);
        break;
      }
      case 8: { // recycle
        x.recycle();
        mx_ = M1<T>();
        view_attached[s] = may_alias[s] = false;
        break;
      }
      case 9: { // set_offset / set_min_index
        const int nm = int(((c % 11) + 11) % 11) - 5;
        if (d & 1)
          x.set_offset(nm);
        else
          x.set_min_index(nm);
        if (!mx_.empty())
          mx_.min = nm;
        break;
      }
      case 10: { // fill
        const T val = mk<T>(int(c % 50));
        x.fill(val);
        for (auto& e : mx_.v)
          e = val;
        std::fill(mx_.def.begin(), mx_.def.end(), 1);
        break;
      }
      case 11: { // element write via []
        if (mx_.empty())
          break;
        const int i = mx_.min + int(((c % long(mx_.v.size())) + long(mx_.v.size())) % long(mx_.v.size()));
        const T val = mk<T>(int(d % 50));
        x[i] = val;
        mx_.v[std::size_t(i - mx_.min)] = val;
        mx_.def[std::size_t(i - mx_.min)] = 1;
        break;
      }
      case 12: { // at(): inside returns the element, outside throws std::out_of_range and changes nothing
        const int i = (mx_.empty() ? 0 : mx_.min) + int(c % 12) - 3;
        const bool inside = !mx_.empty() && i >= mx_.min && i <= mx_.max();
        stir_verif::asserts_on = false; // only the library's own error reporting counts
        bool threw = false;
        try
          {
            T& r = x.at(i);
            if (inside && mx_.def[std::size_t(i - mx_.min)])
              {
                stir_verif::asserts_on = true;
                VF_CHECK(same(r, mx_.v[std::size_t(i - mx_.min)]), after, " at(", i, ") value");
              }
          }
        catch (const std::out_of_range&)
          {
            threw = true;
          }
        stir_verif::asserts_on = true;
        VF_CHECK(threw == !inside, after, " at(", i, ") inside=", inside, " threw=", threw, " range ", mx_.min, "..", mx_.max());
        const Vec& cx = x;
        threw = false;
        try
          {
            (void)cx.at(i);
          }
        catch (const std::out_of_range&)
          {
            threw = true;
          }
        VF_CHECK(threw == !inside, after, " const at(", i, ")");
        break;
      }
      case 13: { // data pointer access
        if (mx_.empty())
          break;
        T* p = x.get_data_ptr();
        const std::size_t k = std::size_t(((c % long(mx_.v.size())) + long(mx_.v.size())) % long(mx_.v.size()));
        const T val = mk<T>(int(d % 50));
        p[k] = val;
        x.release_data_ptr();
        mx_.v[k] = val;
        mx_.def[k] = 1;
        const T* q = x.get_const_data_ptr();
        VF_CHECK(q == &x[mx_.min], after, " get_const_data_ptr address");
        x.release_const_data_ptr();
        break;
      }
      case 14: { // binary arithmetic with slot t
        if (s == t)
          flag(CF_SELF);
        flag_ranges(m[s].empty(), m[s].min, m[s].max(), m[t].empty(), m[t].min, m[t].max());
        Result r = binary(s, t, int(((c % 4) + 4) % 4), after);
        if (r.failed())
          return r;
        break;
      }
      case 15: { // == and !=
        const bool eq_model = m[s].v.size() == m[t].v.size() && (m[s].empty() || m[s].min == m[t].min)
                              && all_defined(m[s]) && all_defined(m[t])
                              && std::equal(m[s].v.begin(), m[s].v.end(), m[t].v.begin(), [](const T& p, const T& q) { return p == q; });
        if (all_defined(m[s]) && all_defined(m[t]))
          {
            VF_CHECK((*o[s] == *o[t]) == eq_model, after, " operator== gives ", (*o[s] == *o[t]), " model ", eq_model);
            VF_CHECK((*o[s] != *o[t]) == !eq_model, after, " operator!=");
          }
        break;
      }
      case 16: { // thresholds
        if (!all_defined(mx_))
          break;
        const T lo = mk<T>(int(c % 20)), hi = mk<T>(int(c % 20) + int(d % 20));
        x.apply_lower_threshold(lo);
        x.apply_upper_threshold(hi);
        for (auto& e : mx_.v)
          {
            if (e < lo)
              e = lo;
            if (hi < e)
              e = hi;
          }
        break;
      }
      case 17: { // scalar arithmetic / xapyb (arrays only)
        Result r = numeric_ops(s, t, c, d, after);
        if (r.failed())
          return r;
        break;
      }
      case 18: { // construct a view on a buffer, slot 0
        Result r = make_view(c, d, after);
        if (r.failed())
          return r;
        break;
      }
      case 19: { // the other constructors: length, copying from a bare pointer, from IndexRange<1>, from the base type
        int mn, mxi;
        decode_range(c, d, mn, mxi);
        const int len = mxi - mn + 1;
        std::vector<T> data;
        for (int i = 0; i < len + 1; ++i)
          data.push_back(mk<T>(i + 1));
        const int variant = int(((c / 9) + (d / 7)) % 5);
        M1<T> nm;
        bool defined = true;
        if (variant == 0)
          { // (length): indices 0..length-1
            if constexpr (is_array)
              o[s].reset(new Vec(IndexRange<1>(len)));
            else
              o[s].reset(new Vec(len));
            nm.resize(0, len - 1, zero_new);
            defined = false;
          }
        else if (variant == 1)
          { // (length, const T*): copies
            if constexpr (is_array)
              o[s].reset(new Vec(IndexRange<1>(len), static_cast<const T*>(data.data())));
            else
              o[s].reset(new Vec(len, static_cast<const T*>(data.data())));
            nm.resize(0, len - 1, true);
          }
        else if (variant == 2)
          { // (min, max, const T*): copies
            if constexpr (is_array)
              o[s].reset(new Vec(IndexRange<1>(mn, mxi), static_cast<const T*>(data.data())));
            else
              o[s].reset(new Vec(mn, mxi, static_cast<const T*>(data.data())));
            nm.resize(mn, mxi, true);
          }
        else if (variant == 3)
          { // from an object of the base type (contents of slot t)
            if (s == t)
              break;
            if constexpr (is_numeric)
              {
                if constexpr (is_array)
                  {
                    const stir::NumericVectorWithOffset<T, T>& base = *o[t];
                    o[s].reset(new Vec(base));
                  }
                else
                  {
                    const VectorWithOffset<T>& base = *o[t];
                    o[s].reset(new Vec(base));
                  }
                m[s] = m[t];
                view_attached[s] = may_alias[s] = false;
              }
            break;
          }
        else
          { // Array<1>(IndexRange<1>) / (min,max) again for the others
            if constexpr (is_array)
              o[s].reset(new Vec(IndexRange<1>(mn, mxi)));
            else
              o[s].reset(new Vec(mn, mxi));
            nm.resize(mn, mxi, zero_new);
            defined = false;
          }
        if (defined)
          for (std::size_t i = 0; i < nm.v.size(); ++i)
            nm.v[i] = data[i];
        mx_ = nm;
        view_attached[s] = may_alias[s] = false;
        data.assign(data.size(), mk<T>(-7)); // the copying constructors must not refer to the source afterwards
        break;
      }
      case 20: { // resize / grow / reserve with the (unsigned new_size) overloads: range 0..new_size-1
        const unsigned n = unsigned(((d % 7) + 7) % 7);
        const int which = int(((c % 3) + 3) % 3);
        if (which == 0)
          {
            if (view_attached[s] && !(n > 0 && fits(s, false, 0, int(n) - 1)))
              view_attached[s] = false;
            x.resize(n);
            mx_.resize(0, int(n) - 1, zero_new);
          }
        else if (which == 1)
          { // documented precondition of grow(): the old range is a sub-interval of the new one (VectorWithOffset.h)
            if (!mx_.empty() && (mx_.min < 0 || mx_.max() > int(n) - 1))
              break;
            if (view_attached[s] && !(n > 0 && fits(s, false, 0, int(n) - 1)))
              view_attached[s] = false;
            x.grow(n);
            mx_.resize(0, int(n) - 1, zero_new);
          }
        else
          {
            if (n == 0)
              break;
            if (view_attached[s] && !fits(s, true, 0, int(n) - 1))
              view_attached[s] = false;
            x.reserve(n);
          }
        break;
      }
      case 21: { // swap (the friend function found by argument-dependent lookup)
        if (s == t)
          break;
        swap(*o[s], *o[t]);
        std::swap(m[s], m[t]);
        std::swap(view_attached[s], view_attached[t]);
        std::swap(may_alias[s], may_alias[t]);
        break;
      }
      case 22: { // writes through the non-const iterators
        const T val = mk<T>(int(d % 50));
        std::size_t k = 0;
        for (auto it = x.begin(); it != x.end(); ++it, ++k)
          if ((long(k) + c) % 2 == 0)
            {
              *it = val;
              mx_.v[k] = val;
              mx_.def[k] = 1;
            }
        VF_CHECK(k == mx_.v.size(), after, " non-const iteration count");
        if (!mx_.empty() && (c & 4))
          {
            *x.rbegin() = mk<T>(int(c % 50));
            mx_.v.back() = mk<T>(int(c % 50));
            mx_.def.back() = 1;
            VF_CHECK(&*(x.rend() - 1) == &x[mx_.min], after, " rend()");
          }
        if constexpr (is_array)
          {
            k = 0;
            for (auto it = x.begin_all(); it != x.end_all(); ++it, ++k)
              if (k % 3 == 0)
                {
                  *it = val + mk<T>(1);
                  mx_.v[k] = val + mk<T>(1);
                }
            if (!mx_.empty())
              { // Array<1>'s own full data pointer
                T* fp = x.get_full_data_ptr();
                VF_CHECK(fp == &x[mx_.min], after, " Array<1>::get_full_data_ptr address");
                fp[mx_.v.size() - 1] = mk<T>(9);
                x.release_full_data_ptr();
                mx_.v.back() = mk<T>(9);
              }
            std::vector<T> src;
            for (std::size_t i = 0; i < mx_.v.size(); ++i)
              src.push_back(mk<T>(int((c + long(i)) % 50)));
            if (d & 8)
              { // fill_from of copy_fill.h: exactly size_all() elements
                stir::fill_from(x, src.begin(), src.end());
                mx_.v = src;
              }
          }
        break;
      }
      case 23: { // operators returning new objects (object and scalar operands)
        Result r = binary_new(s, t, c, d, after);
        if (r.failed())
          return r;
        break;
      }
      case 24: { // xapyb / sapyb with ARRAY coefficients, axpby (numeric family only)
        Result r = xapyb_arrays(s, t, c, d, after);
        if (r.failed())
          return r;
        break;
      }
      default:
        break;
      }
    return compare_all(after);
  }

  static bool all_defined(const M1<T>& mm) { return std::all_of(mm.def.begin(), mm.def.end(), [](char ch) { return ch != 0; }); }

  // Domain audit: whether a resize stays inside the viewed block was decided from get_capacity_min/max_index() and capacity(),
  // i.e. from the code under test.  Own statement: slot s views buf[0 .. buf_len) (make_view) and, while it is attached, its
  // first element sits at buf[off] (its address is public); the block therefore offers the indices min-off .. min-off+buf_len-1,
  // whatever the object reports.  The reported window is still compared (counter; they agree on the unchanged tree).
  bool fits(int s, bool hull, int mn, int mxi)
  {
    const Vec& x = *o[s];
    const M1<T>& mm = m[s];
    bool own;
    if (mm.empty())
      {
        own = (mxi - mn + 1) <= buf_len;
        if (own)
          flag(CF_VIEW1_REGROWN);
      }
    else
      {
        const std::ptrdiff_t off = &x[mm.min] - buf.get();
        const int wmin = mm.min - int(off), wmax = wmin + buf_len - 1;
        own = mn >= wmin && mxi <= wmax;
      }
    const bool code = hull ? fits_capacity_union(x, mn, mxi) : ((mxi - mn + 1) <= int(x.capacity()) && fits_capacity(x, mn, mxi));
    if (own != code)
      stats().count("view: own block window and the reported capacity window disagree");
    flag(own ? CF_VIEW1_WITHIN : CF_VIEW1_BEYOND);
    return own;
  }
  static bool fits_capacity(const Vec& x, int mn, int mxi)
  { // conservative: the new range lies inside the currently allocated index window
    if (x.size() == 0)
      return (mxi - mn + 1) <= int(x.capacity());
    return mn >= x.get_capacity_min_index() && mxi <= x.get_capacity_max_index();
  }
  static bool fits_capacity_union(const Vec& x, int mn, int mxi)
  {
    if (x.size() == 0)
      return (mxi - mn + 1) <= int(x.capacity());
    return std::min(mn, x.get_capacity_min_index()) >= x.get_capacity_min_index()
           && std::max(mxi, x.get_capacity_max_index()) <= x.get_capacity_max_index();
  }

  Result resync(int t, const char* after)
  { // moved-from object: valid but unspecified; adopt what it reports after checking self-consistency
    Vec& y = *o[t];
    VF_CHECK(int(y.size()) == y.get_max_index() - y.get_min_index() + 1, after, " moved-from object inconsistent size/range");
    std::size_t k = 0;
    for (auto it = y.begin(); it != y.end(); ++it)
      ++k;
    VF_CHECK(k == y.size(), after, " moved-from object iteration count");
    M1<T> nm;
    if (y.size() > 0)
      {
        nm.min = y.get_min_index();
        for (int i = y.get_min_index(); i <= y.get_max_index(); ++i)
          {
            nm.v.push_back(y[i]);
            nm.def.push_back(zero_new_ ? 1 : 0); // contents of a moved-from plain vector are unspecified
          }
      }
    m[t] = nm;
    return Result::pass();
  }

  Result binary(int s, int t, int which, const char* after)
  {
    Vec& x = *o[s];
    const Vec& y = *o[t];
    M1<T>& ms = m[s];
    const M1<T> mt = m[t];
    if (!all_defined(ms) || !all_defined(mt))
      return Result::pass();
    auto do_op = [&](T& l, const T& r) {
      switch (which)
        {
        case 0: l += r; break;
        case 1: l -= r; break;
        case 2: l *= r; break;
        default: l /= r; break;
        }
    };
    const bool same_range = ms.v.size() == mt.v.size() && (ms.empty() || ms.min == mt.min);
    if constexpr (std::is_same<T, int>::value)
      { // integer division by zero is the caller's error, not the container's
        if (which == 3 && std::any_of(mt.v.begin(), mt.v.end(), [](const T& e) { return e == 0; }))
          return Result::pass();
        // so is signed overflow of the element type (undefined behaviour of int arithmetic, found by UBSan after ~100
        // operations of a thorough-tier history): the operation is skipped when a result could leave +-2^30
        double as = 0, at = 0;
        for (const T& e : ms.v)
          as = std::max(as, std::fabs(double(e)));
        for (const T& e : mt.v)
          at = std::max(at, std::fabs(double(e)));
        const double bound = which == 2 ? as * at : (which == 3 ? as : as + at);
        if (bound > 1073741824.)
          {
            stats().count("binary op skipped: int result could overflow (caller's error)");
            return Result::pass();
          }
      }
    if constexpr (is_numeric)
      {
        // documented: grows automatically to the hull; new elements are T() (0) before the operation;
        // an empty left operand becomes v (+=), -v (-=), 0*v (*=, /=)
        M1<T> res;
        if (ms.empty())
          {
            res = mt;
            for (auto& e : res.v)
              {
                if (which == 1)
                  e *= T(-1);
                else if (which >= 2)
                  e *= T(0);
              }
          }
        else
          {
            res = ms;
            // documented: "grow the vector automatically if the 2nd argument has smaller min_index and/or larger
            // max_index"; an empty 2nd argument reports the range 0..-1, so the hull can include index 0
            const int tmin = mt.empty() ? 0 : mt.min, tmax = mt.empty() ? -1 : mt.max();
            // (for a NumericVectorWithOffset that is not an Array the newly exposed elements are default-initialised, i.e.
            // unspecified for int: they stay "undefined" in the model, also after the operation)
            res.resize(std::min(ms.min, tmin), std::max(ms.max(), tmax), zero_new_);
            for (int i = tmin; i <= tmax; ++i)
              if (res.def[std::size_t(i - res.min)])
                do_op(res.v[std::size_t(i - res.min)], mt.v[std::size_t(i - mt.min)]);
          }
        if (view_attached[s] && !(res.v.size() == ms.v.size()))
          view_attached[s] = false;
        switch (which)
          {
          case 0: x += y; break;
          case 1: x -= y; break;
          case 2: x *= y; break;
          default: x /= y; break;
          }
        ms = res;
        if (s == t)
          m[t] = res;
      }
    else
      {
        // plain VectorWithOffset: ranges must match, otherwise error() and nothing changes
        const M1<T> before_s = ms;
        stir_verif::asserts_on = false;
        bool threw = false;
        try
          {
            switch (which)
              {
              case 0: x += y; break;
              case 1: x -= y; break;
              case 2: x *= y; break;
              default: x /= y; break;
              }
          }
        catch (const std::exception&)
          {
            threw = true;
          }
        stir_verif::asserts_on = true;
        if (same_range)
          {
            VF_CHECK(!threw, after, " binary op on equal ranges threw");
            if (s == t)
              {
                for (auto& e : ms.v)
                  {
                    const T r = e;
                    do_op(e, r);
                  }
              }
            else
              for (std::size_t i = 0; i < ms.v.size(); ++i)
                do_op(ms.v[i], mt.v[i]);
          }
        else
          {
            VF_CHECK(threw, after, " binary op ", which, " on incompatible ranges [", before_s.min, ",", before_s.max(), "] vs [", mt.min, ",",
                     mt.max(), "] was not reported as an error");
            ms = before_s; // and nothing may have changed (checked by compare_all)
          }
      }
    return Result::pass();
  }

  Result numeric_ops(int s, int t, long c, long d, const char* after)
  {
    if constexpr (is_numeric)
      {
        Vec& x = *o[s];
        M1<T>& ms = m[s];
        for (int k : { s, t, (t + 1) % NS })
          if (!all_defined(m[k]))
            return Result::pass();
        const int which = int(((c % 7) + 7) % 7);
        const T val = T(int(d % 9) - 4);
        if constexpr (std::is_same<T, int>::value)
          { // signed overflow of the element type is the caller's error (see binary()): every result here is at most
            // 4*|x| + 4*|y| + 4, so operands beyond 2^27 are not operated on any further
            double a = 0;
            for (int k : { s, t, (t + 1) % NS })
              for (const T& e : m[k].v)
                a = std::max(a, std::fabs(double(e)));
            if (a > 134217728.)
              {
                stats().count("numeric op skipped: int result could overflow (caller's error)");
                return Result::pass();
              }
          }
        switch (which)
          {
          case 0: x += val; for (auto& e : ms.v) e += val; break;
          case 1: x -= val; for (auto& e : ms.v) e -= val; break;
          case 2: x *= val; for (auto& e : ms.v) e *= val; break;
          case 3:
            if (val != 0)
              {
                x /= val;
                for (auto& e : ms.v)
                  e /= val;
              }
            break;
          case 4:
          case 5: { // xapyb / sapyb with slot t (and u = third slot): mismatching ranges are an error and change nothing
            const int u = (t + 1) % NS;
            const M1<T> mt = m[t], mu = m[u];
            auto same_r = [](const M1<T>& p, const M1<T>& q) { return p.v.size() == q.v.size() && (p.empty() || p.min == q.min); };
            const T aa = T(int(d % 5) - 2), bb = T(int((d / 5) % 5) - 2);
            bool threw = false;
            stir_verif::asserts_on = false;
            try
              {
                if (which == 4)
                  x.xapyb(*o[t], aa, *o[u], bb);
                else
                  x.sapyb(aa, *o[t], bb);
              }
            catch (const std::exception&)
              {
                threw = true;
              }
            stir_verif::asserts_on = true;
            const bool ok = which == 4 ? (same_r(ms, mt) && same_r(ms, mu)) : same_r(ms, mt);
            VF_CHECK(threw == !ok, after, " xapyb/sapyb: ranges compatible=", ok, " threw=", threw);
            if (ok)
              {
                M1<T> res = ms;
                for (std::size_t i = 0; i < ms.v.size(); ++i)
                  res.v[i] = which == 4 ? (mt.v[i] * aa + mu.v[i] * bb) : (ms.v[i] * aa + mt.v[i] * bb);
                ms = res;
                if (s == t)
                  m[t] = res;
                if (which == 4 && s == u)
                  m[u] = res;
              }
            break;
          }
          default: { // operator+ etc. returning new objects
            if (m[t].empty() || ms.empty())
              break;
            Vec r = x + *o[t];
            M1<T> res = ms;
            res.resize(std::min(ms.min, m[t].min), std::max(ms.max(), m[t].max()), zero_new_);
            for (int i = m[t].min; i <= m[t].max(); ++i)
              res.v[std::size_t(i - res.min)] += m[t].v[std::size_t(i - m[t].min)];
            VF_CHECK(r.size() == res.v.size() && r.get_min_index() == res.min, after, " operator+ range");
            for (int i = res.min; i <= res.max(); ++i)
              if (res.def[std::size_t(i - res.min)])
                VF_CHECK(same(r[i], res.v[std::size_t(i - res.min)]), after, " operator+ value at ", i);
            break;
          }
          }
      }
    return Result::pass();
  }

  Result make_view(long c, long d, const char* after)
  {
    int mn, mxi;
    decode_range(c, d, mn, mxi);
    if (mn > mxi)
      return Result::pass();
    // detach every previous viewer first: a fresh buffer per view keeps the model simple
    for (int s = 0; s < NS; ++s)
      if (may_alias[s])
        {
          o[s].reset(new Vec());
          m[s] = M1<T>();
          may_alias[s] = view_attached[s] = false;
        }
    const int len = mxi - mn + 1;
    // variants (not for Array<1>, which has its own constructors): 0 (min,max,shared_ptr), 1 (size,shared_ptr),
    // 2/3 the deprecated (min,max,T*,T* end) / (size,T*,T* end) with up to 2 elements of spare capacity behind the range
    const int variant = is_array ? 0 : int(((c / 9) + (d / 7)) % 4);
    const int spare = variant >= 2 ? int((c / 9) % 3) : 0;
    buf_len = len + spare;
    buf = stir::shared_ptr<T[]>(new T[std::size_t(buf_len)]);
    for (int i = 0; i < buf_len; ++i)
      buf[i] = mk<T>(i + 1);
    if constexpr (is_array)
      o[0].reset(new Vec(IndexRange<1>(mn, mxi), buf));
    else
      {
        if (variant == 1 || variant == 3)
          {
            mxi -= mn;
            mn = 0;
          }
        if (variant == 0)
          o[0].reset(new Vec(mn, mxi, buf));
        else if (variant == 1)
          o[0].reset(new Vec(len, buf));
        else
          {
#if STIR_VERSION < 070000
            old_bufs.push_back(buf);
#  pragma GCC diagnostic push
#  pragma GCC diagnostic ignored "-Wdeprecated-declarations"
            if (variant == 2)
              o[0].reset(new Vec(mn, mxi, buf.get(), buf.get() + buf_len));
            else
              o[0].reset(new Vec(len, buf.get(), buf.get() + buf_len));
#  pragma GCC diagnostic pop
#else
            o[0].reset(new Vec(mn, mxi, buf));
#endif
          }
      }
    m[0] = M1<T>();
    m[0].resize(mn, mxi, true);
    for (int i = 0; i < len; ++i)
      m[0].v[std::size_t(i)] = mk<T>(i + 1);
    may_alias[0] = view_attached[0] = true;
    flag(CF_VIEW1);
    return Result::pass();
  }

  static bool same_r(const M1<T>& p, const M1<T>& q) { return p.v.size() == q.v.size() && (p.empty() || p.min == q.min); }
  static double max_abs(const M1<T>& mm)
  {
    double a = 0;
    if constexpr (std::is_arithmetic<T>::value)
      for (const T& e : mm.v)
        a = std::max(a, std::fabs(double(e)));
    return a;
  }

  // model of "l op r" (op = + - * /); returns 0: defined result in res, 1: must be reported as an error, 2: not decided
  // (undefined operands; integer division by zero / possible signed overflow = the caller's error, as in binary())
  int model_bin(const M1<T>& ml, const M1<T>& mr, int which, M1<T>& res)
  {
    if (!all_defined(ml) || !all_defined(mr))
      return 2;
    auto do_op = [which](T& l, const T& r) {
      switch (which)
        {
        case 0: l += r; break;
        case 1: l -= r; break;
        case 2: l *= r; break;
        default: l /= r; break;
        }
    };
    if constexpr (std::is_same<T, int>::value)
      {
        if (which == 3 && std::any_of(mr.v.begin(), mr.v.end(), [](const T& e) { return e == 0; }))
          return 2;
        const double as = max_abs(ml), at = max_abs(mr);
        if ((which == 2 ? as * at : (which == 3 ? as : as + at)) > 1073741824.)
          return 2;
      }
    if constexpr (is_numeric)
      { // documented hull growth (NumericVectorWithOffset.inl); see binary()
        if (ml.empty())
          {
            res = mr;
            for (auto& e : res.v)
              {
                if (which == 1)
                  e *= T(-1);
                else if (which >= 2)
                  e *= T(0);
              }
            return 0;
          }
        res = ml;
        const int tmin = mr.empty() ? 0 : mr.min, tmax = mr.empty() ? -1 : mr.max();
        res.resize(std::min(ml.min, tmin), std::max(ml.max(), tmax), zero_new_);
        for (int i = tmin; i <= tmax; ++i)
          if (res.def[std::size_t(i - res.min)])
            do_op(res.v[std::size_t(i - res.min)], mr.v[std::size_t(i - mr.min)]);
        return 0;
      }
    else
      { // VectorWithOffset.h: "Arguments must have matching index ranges. Otherwise error() is called."
        if (!same_r(ml, mr))
          return 1;
        res = ml;
        for (std::size_t i = 0; i < res.v.size(); ++i)
          do_op(res.v[i], mr.v[i]);
        return 0;
      }
  }

  Result compare_value(const Vec& r, const M1<T>& res, const char* after, const char* what)
  {
    VF_CHECK(r.size() == res.v.size(), after, " ", what, ": size ", r.size(), " model ", res.v.size());
    if (!res.empty())
      VF_CHECK(r.get_min_index() == res.min, after, " ", what, ": min index ", r.get_min_index(), " model ", res.min);
    for (int i = res.min; i <= res.max(); ++i)
      if (res.def[std::size_t(i - res.min)])
        VF_CHECK(same(r[i], res.v[std::size_t(i - res.min)]), after, " ", what, ": value at ", i);
    return Result::pass();
  }

  // operator+ - * / returning new objects; both operands must stay as they are (compare_all)
  Result binary_new(int s, int t, long c, long d, const char* after)
  {
    const Vec& x = *o[s];
    const Vec& y = *o[t];
    const int which = int(((c % 4) + 4) % 4);
    const bool scalar = is_numeric && ((c / 4) % 2 == 1);
    if (!scalar)
      {
        M1<T> res;
        const int k = model_bin(m[s], m[t], which, res);
        if (k == 2)
          return Result::pass();
        bool threw = false;
        stir_verif::asserts_on = false; // only the library's own error reporting counts
        try
          {
            const Vec r = which == 0 ? Vec(x + y) : which == 1 ? Vec(x - y) : which == 2 ? Vec(x * y) : Vec(x / y);
            stir_verif::asserts_on = true;
            if (k == 0)
              {
                Result rr = compare_value(r, res, after, "operator returning a new object");
                if (rr.failed())
                  return rr;
              }
          }
        catch (const std::exception&)
          {
            threw = true;
          }
        stir_verif::asserts_on = true;
        VF_CHECK(threw == (k == 1), after, " binary operator ", which, " returning a new object: ranges [", m[s].min, ",", m[s].max(), "] and [",
                 m[t].min, ",", m[t].max(), "] threw=", threw);
      }
    else
      {
        if constexpr (is_numeric)
          {
            if (!all_defined(m[s]))
              return Result::pass();
            const T val = T(int(d % 9) - 4);
            if (which == 3 && val == T(0))
              return Result::pass();
            if (std::is_same<T, int>::value && max_abs(m[s]) > 134217728.)
              return Result::pass();
            M1<T> res = m[s];
            for (auto& e : res.v)
              switch (which)
                {
                case 0: e += val; break;
                case 1: e -= val; break;
                case 2: e *= val; break;
                default: e /= val; break;
                }
            const Vec r = which == 0 ? Vec(x + val) : which == 1 ? Vec(x - val) : which == 2 ? Vec(x * val) : Vec(x / val);
            Result rr = compare_value(r, res, after, "operator with a scalar returning a new object");
            if (rr.failed())
              return rr;
          }
      }
    return Result::pass();
  }

  // xapyb(x, a, y, b) / sapyb(a, y, b) with ARRAY coefficients and the deprecated axpby: "index ranges don't match" is an error
  // (NumericVectorWithOffset.inl) and must leave *this unchanged; otherwise every element is x*a + y*b.
  // c % 5 selects the operand whose range is changed (0 none, 1 x, 2 a, 3 y, 4 b), (c / 5) % 6 how; d % 6 the call form.
  Result xapyb_arrays(int s, int t, long c, long d, const char* after)
  {
    if constexpr (is_numeric)
      {
        Vec& x = *o[s];
        M1<T>& ms = m[s];
        const int u = (t + 1) % NS;
        const int victim = int(((c % 5) + 5) % 5), how = int((((c / 5) % 6) + 6) % 6), form = int(((d % 6) + 6) % 6);
        SplitMix g(uint64_t(c) * 1000003ULL + uint64_t(d));
        if (!all_defined(ms) || max_abs(ms) > 134217728.)
          return Result::pass();
        auto make_model = [&](bool change) {
          M1<T> r;
          int mn = ms.empty() ? 0 : ms.min, mxi = ms.empty() ? -1 : ms.max();
          if (change)
            {
              if (mn > mxi)
                mxi = mn; // the only way to differ from an empty range
              else
                switch (how)
                  {
                  case 0: mxi += 1; break;
                  case 1: mxi -= 1; break; // same first index, shorter at the upper end
                  case 2: mn -= 1; break;
                  case 3: mn += 1; break;
                  case 4: mn += 1; mxi += 1; break;
                  default: mxi = mn - 1; break;
                  }
            }
          r.resize(mn, mxi, true);
          for (auto& e : r.v)
            e = T(int(g.range(-3, 3)));
          return r;
        };
        auto make_obj = [](const M1<T>& mm) {
          std::unique_ptr<Vec> v(mm.empty() ? new Vec() : new Vec(mm.min, mm.max()));
          for (int i = mm.min; i <= mm.max(); ++i)
            (*v)[i] = mm.v[std::size_t(i - mm.min)];
          return v;
        };
        // operands: temporaries with the range of *this (one of them possibly changed); form 4 takes x and y from the slots
        M1<T> mX = make_model(victim == 1), mA = make_model(victim == 2), mY = make_model(victim == 3), mB = make_model(victim == 4);
        std::unique_ptr<Vec> X = make_obj(mX), A = make_obj(mA), Y = make_obj(mY), B = make_obj(mB);
        const Vec *px = X.get(), *py = Y.get();
        if (form == 3)
          { // sapyb: x is *this
            mX = ms;
            px = &x;
          }
        else if (form == 4)
          {
            if (!all_defined(m[t]) || !all_defined(m[u]) || max_abs(m[t]) > 134217728. || max_abs(m[u]) > 134217728.)
              return Result::pass();
            mX = m[t];
            mY = m[u];
            px = o[t].get();
            py = o[u].get();
          }
        const T aa = T(int(g.range(-2, 2))), bb = T(int(g.range(-2, 2)));
        const bool ok = form == 5 ? (same_r(ms, mX) && same_r(ms, mY)) : (same_r(ms, mX) && same_r(ms, mA) && same_r(ms, mY) && same_r(ms, mB));
        bool threw = false;
        stir_verif::asserts_on = false; // only the library's own error reporting counts
        try
          {
            if (form == 3)
              x.sapyb(*A, *py, *B);
            else if (form == 5)
              {
#pragma GCC diagnostic push
#pragma GCC diagnostic ignored "-Wdeprecated-declarations"
                x.axpby(aa, *px, bb, *py);
#pragma GCC diagnostic pop
              }
            else
              x.xapyb(*px, *A, *py, *B);
          }
        catch (const std::exception&)
          {
            threw = true;
          }
        stir_verif::asserts_on = true;
        stats().cls(ok ? "xapyb with array coefficients: matching ranges" : "xapyb with array coefficients: one operand differs");
        VF_CHECK(threw == !ok, after, " xapyb/sapyb with array coefficients (form ", form, ", operand ", victim, " changed by rule ", how,
                 "): ranges compatible=", ok, " threw=", threw);
        if (ok)
          {
            M1<T> res = ms;
            for (std::size_t i = 0; i < ms.v.size(); ++i)
              res.v[i] = form == 5 ? (mX.v[i] * aa + mY.v[i] * bb) : (mX.v[i] * mA.v[i] + mY.v[i] * mB.v[i]);
            ms = res;
            if (form == 4 && s == t)
              m[t] = res;
            if (form == 4 && s == u)
              m[u] = res;
          }
      }
    return Result::pass();
  }

  Result run(const json& ops)
  {
    int idx = 0;
    for (const auto& op : ops)
      {
        Result r = apply(op, idx++);
        if (r.failed())
          return r;
      }
    return Result::pass();
  }
};

// =============================================================================================
// multi-dimensional interpreter (Array<2,float>, Array<3,float>): nested model
struct MN
{ // D>=2: sub non-leaf; D==1: leaf values
  int min = 0;
  std::vector<MN> sub;
  std::vector<float> v;
  int dim = 1;
  std::size_t n() const { return dim == 1 ? v.size() : sub.size(); }
  int max() const { return min + int(n()) - 1; }
  std::size_t size_all() const
  {
    if (dim == 1)
      return v.size();
    std::size_t a = 0;
    for (auto& s : sub)
      a += s.size_all();
    return a;
  }
};
struct RN
{ // nested range
  int min = 0, max = -1;
  std::vector<RN> sub;
};

static RN
gen_range(SplitMix& g, int dim, bool regular)
{
  RN r;
  r.min = int(g.range(-2, 2));
  const int len = int(g.range(0, 3));
  r.max = r.min + len - 1;
  if (len == 0)
    r.min = 0, r.max = -1;
  if (dim > 1)
    {
      RN proto;
      if (regular)
        proto = gen_range(g, dim - 1, true);
      for (int i = 0; i < len; ++i)
        r.sub.push_back(regular ? proto : gen_range(g, dim - 1, false));
    }
  return r;
}

static std::string
show_range(const RN& r)
{
  std::string s = "[" + std::to_string(r.min) + ".." + std::to_string(r.max);
  for (auto& k : r.sub)
    s += " " + show_range(k);
  return s + "]";
}
static bool dbg() { static bool d = std::getenv("VERIF_DEBUG") != nullptr; return d; }

template <int D>
static IndexRange<D>
to_index_range(const RN& r)
{
  if constexpr (D == 1)
    return IndexRange<1>(r.min, r.max);
  else
    {
      VectorWithOffset<IndexRange<D - 1>> v(r.min, r.max);
      for (int i = r.min; i <= r.max; ++i)
        v[i] = to_index_range<D - 1>(r.sub[std::size_t(i - r.min)]);
      return IndexRange<D>(v);
    }
}

static void
model_resize(MN& m, const RN& r, int dim)
{
  m.dim = dim;
  if (r.min > r.max)
    {
      m.sub.clear();
      m.v.clear();
      m.min = 0;
      return;
    }
  if (dim == 1)
    {
      std::vector<float> nv(std::size_t(r.max - r.min + 1), 0.F);
      for (int i = r.min; i <= r.max; ++i)
        if (!m.v.empty() && i >= m.min && i <= m.max())
          nv[std::size_t(i - r.min)] = m.v[std::size_t(i - m.min)];
      m.v.swap(nv);
      m.min = r.min;
    }
  else
    {
      std::vector<MN> ns(std::size_t(r.max - r.min + 1));
      for (int i = r.min; i <= r.max; ++i)
        {
          MN& dst = ns[std::size_t(i - r.min)];
          dst.dim = dim - 1;
          if (!m.sub.empty() && i >= m.min && i <= m.max())
            dst = m.sub[std::size_t(i - m.min)];
          model_resize(dst, r.sub[std::size_t(i - r.min)], dim - 1);
        }
      m.sub.swap(ns);
      m.min = r.min;
    }
}

static void
model_flatten(const MN& m, std::vector<float>& out)
{
  if (m.dim == 1)
    out.insert(out.end(), m.v.begin(), m.v.end());
  else
    for (auto& s : m.sub)
      model_flatten(s, out);
}
static void
model_for_each(MN& m, const std::function<void(float&)>& f)
{
  if (m.dim == 1)
    for (auto& e : m.v)
      f(e);
  else
    for (auto& s : m.sub)
      model_for_each(s, f);
}
static bool
model_equal(const MN& a, const MN& b)
{
  if (a.n() != b.n())
    return false;
  if (a.n() == 0)
    return true;
  if (a.min != b.min)
    return false;
  if (a.dim == 1)
    return a.v == b.v;
  for (std::size_t i = 0; i < a.sub.size(); ++i)
    if (!model_equal(a.sub[i], b.sub[i]))
      return false;
  return true;
}
static bool
model_same_range(const MN& a, const MN& b)
{
  if (a.n() != b.n())
    return false;
  if (a.n() == 0)
    return true;
  if (a.min != b.min)
    return false;
  if (a.dim == 1)
    return true;
  for (std::size_t i = 0; i < a.sub.size(); ++i)
    if (!model_same_range(a.sub[i], b.sub[i]))
      return false;
  return true;
}
static float
model_sum(const MN& m)
{ // mirrors the documented accumulation: double accumulator per level, result cast to float
  double acc = 0;
  if (m.dim == 1)
    for (auto e : m.v)
      acc += e;
  else
    for (auto& s : m.sub)
      acc += model_sum(s);
  return float(acc);
}
static bool
model_regular(const MN& m)
{
  if (m.dim == 1)
    return true;
  if (m.sub.empty())
    return true;
  for (auto& s : m.sub)
    {
      if (!model_regular(s))
        return false;
      if (s.n() != m.sub[0].n() || (s.n() > 0 && s.min != m.sub[0].min))
        return false;
      if (s.dim > 1 && s.n() > 0)
        { // deeper levels must agree too
          if (!model_same_range(s, m.sub[0]))
            return false;
        }
    }
  return true;
}
// hull-grow used by += with automatic growing (documented for numeric vectors)
static void
model_binary(MN& a, const MN& b, int which)
{
  auto op = [which](float& l, float r) {
    switch (which)
      {
      case 0: l += r; break;
      case 1: l -= r; break;
      case 2: l *= r; break;
      default: l /= r; break;
      }
  };
  if (a.n() == 0)
    {
      const int dim = a.dim;
      a = b;
      a.dim = dim;
      if (which == 1)
        model_for_each(a, [](float& e) { e *= -1.F; });
      else if (which >= 2)
        model_for_each(a, [](float& e) { e *= 0.F; });
      return;
    }
  // an empty right operand reports the range 0..-1 and still takes part in the documented hull
  const int bmin = b.n() == 0 ? 0 : b.min, bmax = b.n() == 0 ? -1 : b.max();
  const int nmin = std::min(a.min, bmin), nmax = std::max(a.max(), bmax);
  if (a.dim == 1)
    {
      std::vector<float> nv(std::size_t(nmax - nmin + 1), 0.F);
      for (int i = a.min; i <= a.max(); ++i)
        nv[std::size_t(i - nmin)] = a.v[std::size_t(i - a.min)];
      a.v.swap(nv);
      a.min = nmin;
      for (int i = bmin; i <= bmax; ++i)
        op(a.v[std::size_t(i - nmin)], b.v[std::size_t(i - bmin)]);
    }
  else
    {
      std::vector<MN> ns(std::size_t(nmax - nmin + 1));
      for (auto& s : ns)
        s.dim = a.dim - 1;
      for (int i = a.min; i <= a.max(); ++i)
        ns[std::size_t(i - nmin)] = a.sub[std::size_t(i - a.min)];
      a.sub.swap(ns);
      a.min = nmin;
      for (int i = bmin; i <= bmax; ++i)
        model_binary(a.sub[std::size_t(i - nmin)], b.sub[std::size_t(i - bmin)], which);
    }
}

// nested range of a model
static RN
rn_of(const MN& m)
{
  RN r;
  if (m.n() == 0)
    return r;
  r.min = m.min;
  r.max = m.max();
  if (m.dim > 1)
    for (auto& s : m.sub)
      r.sub.push_back(rn_of(s));
  return r;
}
static bool
rn_equal(const RN& a, const RN& b)
{
  if (a.max - a.min != b.max - b.min)
    return false;
  if (a.max < a.min)
    return true;
  if (a.min != b.min || a.sub.size() != b.sub.size())
    return false;
  for (std::size_t i = 0; i < a.sub.size(); ++i)
    if (!rn_equal(a.sub[i], b.sub[i]))
      return false;
  return true;
}
// change a nested range at one node: one index more / fewer at either end, shifted by one, or emptied
static void
perturb_rn(RN& r, int dim, SplitMix& g)
{
  const int len = r.max - r.min + 1;
  if (dim > 1 && len > 0 && g.range(0, 2) != 0)
    {
      perturb_rn(r.sub[std::size_t(g.range(0, len - 1))], dim - 1, g);
      return;
    }
  RN child;
  if (dim > 1)
    child = len > 0 ? r.sub[std::size_t(g.range(0, len - 1))] : gen_range(g, dim - 1, true);
  const int how = len == 0 ? 0 : int(g.range(0, 5));
  switch (how)
    {
    case 0:
      if (len == 0)
        r.min = r.max = 0;
      else
        r.max++;
      if (dim > 1)
        r.sub.push_back(child);
      break;
    case 1:
      r.min--;
      if (dim > 1)
        r.sub.insert(r.sub.begin(), child);
      break;
    case 2:
      r.max--;
      if (dim > 1)
        r.sub.pop_back();
      break;
    case 3:
      r.min++;
      if (dim > 1)
        r.sub.erase(r.sub.begin());
      break;
    case 4:
      r.min++;
      r.max++;
      break;
    default:
      r.max = r.min - 1;
      break;
    }
  if (r.max < r.min)
    {
      r.min = 0;
      r.max = -1;
      r.sub.clear();
    }
}
// all multi-indices of a model in row-major order
static void
model_indices(const MN& m, std::vector<int>& prefix, std::vector<std::vector<int>>& out)
{
  for (int i = m.min; i <= m.max(); ++i)
    {
      prefix.push_back(i);
      if (m.dim == 1)
        out.push_back(prefix);
      else
        model_indices(m.sub[std::size_t(i - m.min)], prefix, out);
      prefix.pop_back();
    }
}
// does the model contain a zero-length row (at any level) although it is not empty at the top?
static bool
model_has_empty_row(const MN& m)
{
  if (m.dim == 1)
    return false;
  for (auto& s : m.sub)
    if (s.n() == 0 || model_has_empty_row(s))
      return true;
  return false;
}
// expected result of get_regular_range() for a regular model: IndexRange.cxx fills (0,-1) for all levels below an empty one
static void
model_regular_coords(const MN& m, std::vector<int>& mn, std::vector<int>& mx)
{
  if (m.n() == 0)
    {
      for (int k = 0; k < m.dim; ++k)
        {
          mn.push_back(0);
          mx.push_back(-1);
        }
      return;
    }
  mn.push_back(m.min);
  mx.push_back(m.max());
  if (m.dim > 1)
    model_regular_coords(m.sub[0], mn, mx);
}

// the idiom of ML_norm.cxx / find_sinogram_rescaling_factors.cxx: default-construct, grow, assign the rows in place
template <int K>
static IndexRange<K>
build_in_place(const RN& r)
{
  if constexpr (K == 1)
    return IndexRange<1>(r.min, r.max);
  else
    {
      IndexRange<K> out;
      if (r.min <= r.max)
        {
          out.grow(r.min, r.max);
          for (int i = r.min; i <= r.max; ++i)
            out[i] = build_in_place<K - 1>(r.sub[std::size_t(i - r.min)]);
        }
      return out;
    }
}

template <int D>
struct InterpN
{
  typedef Array<D, float> Arr;
  static constexpr int NS = 3;
  std::unique_ptr<Arr> o[NS];
  MN m[NS];
  stir::shared_ptr<float[]> buf;
  std::size_t buf_len = 0;
  int viewer = -1;
  // Domain audit (aliasing sentence, multi-dimensional arrays): whether the viewer still had to alias the block was taken from
  // the code (is_contiguous() and where begin_all() pointed), so an array that silently left the shared block was accepted.
  // Own statement: Array(range, shared_ptr) views the block in row-major order; as long as no operation that may re-allocate
  // was applied to the viewing object (resize / grow / growing arithmetic / row operations / assignment TO it / re-construction)
  // element k of the full iteration IS block element k: same address, both directions.  Moves and swaps hand the view on.
  bool view_hold = false;
  InterpN()
  {
    for (int s = 0; s < NS; ++s)
      {
        o[s].reset(new Arr());
        m[s].dim = D;
      }
  }

  template <int K>
  static Result cmp(const Array<K, float>& x, const MN& mm, const std::string& where)
  {
    VF_CHECK(x.size() == mm.n(), where, " size ", x.size(), " model ", mm.n());
    VF_CHECK(x.empty() == (mm.n() == 0), where, " empty()");
    if (mm.n() > 0)
      VF_CHECK(x.get_min_index() == mm.min && x.get_max_index() == mm.max(), where, " range ", x.get_min_index(), "..", x.get_max_index(),
               " model ", mm.min, "..", mm.max());
    else
      VF_CHECK(x.get_max_index() == x.get_min_index() - 1, where, " empty range");
    if constexpr (K == 1)
      {
        for (int i = mm.min; i <= mm.max(); ++i)
          VF_CHECK(same(x[i], mm.v[std::size_t(i - mm.min)]), where, "[", i, "] = ", x[i], " model ", mm.v[std::size_t(i - mm.min)]);
      }
    else
      {
        for (int i = mm.min; i <= mm.max(); ++i)
          {
            Result r = cmp<K - 1>(x[i], mm.sub[std::size_t(i - mm.min)], where + "[" + std::to_string(i) + "]");
            if (r.failed())
              return r;
          }
      }
    return Result::pass();
  }

  Result compare(int s, const std::string& after)
  {
    const Arr& x = *o[s];
    const MN& mm = m[s];
    Result r = cmp<D>(x, mm, after + " slot " + std::to_string(s));
    if (r.failed())
      return r;
    std::vector<float> flat;
    model_flatten(mm, flat);
    VF_CHECK(x.size_all() == flat.size(), after, " size_all ", x.size_all(), " model ", flat.size());
    // full iteration: each element exactly once, row-major
    {
      std::size_t k = 0;
      for (auto it = x.begin_all(); it != x.end_all(); ++it, ++k)
        {
          VF_CHECK(k < flat.size(), after, " begin_all iteration too long");
          VF_CHECK(same(*it, flat[k]), after, " begin_all element ", k, " = ", *it, " model ", flat[k]);
        }
      VF_CHECK(k == flat.size(), after, " begin_all visited ", k, " of ", flat.size());
      k = 0;
      for (auto it = x.begin_all_const(); it != x.end_all_const(); ++it)
        ++k;
      VF_CHECK(k == flat.size(), after, " begin_all_const count");
    }
    // index range object
    {
      const IndexRange<D> ir = x.get_index_range();
      VF_CHECK(ir.size_all() == flat.size(), after, " get_index_range().size_all()");
      VF_CHECK(mm.n() ? (ir.get_min_index() == mm.min && ir.get_max_index() == mm.max()) : (ir.get_max_index() == ir.get_min_index() - 1), after,
               " get_index_range outer");
      Arr y(ir); // an array constructed from the reported range has the same shape, all zero
      MN z = mm;
      model_for_each(z, [](float& e) { e = 0.F; });
      Result r2 = cmp<D>(y, z, after + " Array(get_index_range())");
      if (r2.failed())
        return r2;
      VF_CHECK(x.is_regular() == ir.is_regular(), after, " is_regular differs between array and its range");
    }
    VF_CHECK(same(x.sum(), model_sum(mm)), after, " sum ", x.sum(), " model ", model_sum(mm));
    {
      Result r3 = compare_entry_points(s, after, flat);
      if (r3.failed())
        return r3;
    }
    if (!flat.empty() && std::none_of(flat.begin(), flat.end(), [](float f) { return std::isnan(f); }))
      {
        bool every_row_nonempty = true;
        check_rows_nonempty(mm, every_row_nonempty);
        if (every_row_nonempty)
          {
            VF_CHECK(x.find_max() == *std::max_element(flat.begin(), flat.end()), after, " find_max");
            VF_CHECK(x.find_min() == *std::min_element(flat.begin(), flat.end()), after, " find_min");
          }
      }
    if (viewer == s && buf && view_hold)
      {
        VF_CHECK(flat.size() == buf_len, after, " slot ", s, " views a block of ", buf_len, " elements and was not resized, but has ", flat.size());
        std::size_t k = 0;
        for (auto it = x.begin_all(); it != x.end_all(); ++it, ++k)
          VF_CHECK(&*it == buf.get() + k, after, " slot ", s, ": element ", k, " of the viewing array is no longer element ", k,
                   " of the shared block although the array was not resized beyond it");
        // block -> array (array -> block is the address identity above plus the value comparison with the model)
        const std::size_t kk = flat.size() / 2;
        const float keep = buf[std::ptrdiff_t(kk)];
        buf[std::ptrdiff_t(kk)] = -4321.5F;
        std::size_t j = 0;
        bool seen = false;
        for (auto it = x.begin_all_const(); it != x.end_all_const(); ++it, ++j)
          if (j == kk)
            seen = same(*it, -4321.5F);
        buf[std::ptrdiff_t(kk)] = keep;
        VF_CHECK(seen, after, " slot ", s, ": a write to the shared block is not visible in the viewing array");
        bool rows_nonempty = true;
        check_rows_nonempty(mm, rows_nonempty);
        if (rows_nonempty)
          VF_CHECK(x.is_contiguous(), after, " slot ", s, ": viewing array no longer contiguous although it was not resized");
      }
    if (viewer == s && buf)
      {
        // aliasing: if the array's storage is still the buffer, both show each other's values
        if (flat.size() > 0 && x.is_contiguous())
          {
            const float* p = &*x.begin_all();
            if (p >= buf.get() && p + flat.size() <= buf.get() + buf_len)
              {
                const std::size_t off = std::size_t(p - buf.get());
                for (std::size_t i = 0; i < flat.size(); ++i)
                  VF_CHECK(same(buf[std::ptrdiff_t(off + i)], flat[i]), after, " shared buffer does not show array value ", i);
              }
          }
      }
    return Result::pass();
  }
  static float model_sum_positive(const MN& mm)
  { // Array.inl: double accumulator per level, result cast to float per level
    double acc = 0;
    if (mm.dim == 1)
      {
        for (auto e : mm.v)
          if (e > 0)
            acc += e;
      }
    else
      for (auto& s2 : mm.sub)
        acc += model_sum_positive(s2);
    return float(acc);
  }
  template <int K>
  static const float& elem_c(const Array<K, float>& a, const std::vector<int>& mi, std::size_t lvl = 0)
  {
    if constexpr (K == 1)
      return a[mi[lvl]];
    else
      return elem_c<K - 1>(a[mi[lvl]], mi, lvl + 1);
  }
  template <int K>
  static float& elem(Array<K, float>& a, const std::vector<int>& mi, std::size_t lvl = 0)
  {
    if constexpr (K == 1)
      return a[mi[lvl]];
    else
      return elem<K - 1>(a[mi[lvl]], mi, lvl + 1);
  }

  // Entry points that only read (entry-point audit): sum_positive, const access through BasicCoordinate ([] / at / get()),
  // get_min_indices + next() (array_index_functions), copy_to (copy_fill.h), the const full data pointer, full-iterator
  // post-increment / -> / conversion to the const iterator, equality of the reported IndexRange
  Result compare_entry_points(int s, const std::string& after, const std::vector<float>& flat)
  {
    Arr& xx = *o[s];
    const Arr& x = xx;
    const MN& mm = m[s];
    VF_CHECK(same(x.sum_positive(), model_sum_positive(mm)), after, " sum_positive ", x.sum_positive(), " model ", model_sum_positive(mm));
    std::vector<std::vector<int>> idxs;
    {
      std::vector<int> prefix;
      model_indices(mm, prefix, idxs);
    }
    VF_CHECK(idxs.size() == flat.size(), after, " (model) index list");
    for (std::size_t k = 0; k < idxs.size(); ++k)
      {
        const stir::BasicCoordinate<D, int> cc = coord(idxs[k]);
        const float* p = &elem_c<D>(x, idxs[k]);
        VF_CHECK(&x[cc] == p && &x.at(cc) == p && &stir::get(x, cc) == p && &xx[cc] == p, after, " access through BasicCoordinate, element ", k);
        stir::BasicCoordinate<1, int> c1;
        c1[1] = idxs[k][0];
        VF_CHECK(&stir::get(x, c1) == &x[idxs[k][0]] && &x.at(idxs[k][0]) == &x[idxs[k][0]] && &xx.at(idxs[k][0]) == &x[idxs[k][0]], after,
                 " get(array, BasicCoordinate<1>) / at(int)");
        if constexpr (D >= 3)
          {
            stir::BasicCoordinate<2, int> c2;
            c2[1] = idxs[k][0];
            c2[2] = idxs[k][1];
            VF_CHECK(&stir::get(x, c2) == &x[idxs[k][0]][idxs[k][1]], after, " get(array, BasicCoordinate<2>)");
          }
      }
    // the loop documented in array_index_functions.h: index = get_min_indices(a); do {...} while (next(index, a));
    // "will fail for empty arrays" (documented) => only for arrays with elements
    if (!flat.empty())
      {
        if (model_has_empty_row(mm) && excluded("C11:next:empty-row"))
          ;
        else
          {
            stir::BasicCoordinate<D, int> ci = stir::get_min_indices(x);
            std::size_t k = 0;
            do
              {
                VF_CHECK(k < idxs.size(), after, " next(): more than ", idxs.size(), " visits");
                VF_CHECK(ci == coord(idxs[k]), after, " get_min_indices/next(): visit ", k, " is ", show(ci), " expected ", show(coord(idxs[k])));
                ++k;
              }
            while (stir::next(ci, x));
            VF_CHECK(k == idxs.size(), after, " next() loop visited ", k, " of ", idxs.size());
          }
        // next() with an index of lower dimension iterates over the outer index only
        stir::BasicCoordinate<1, int> c1;
        c1[1] = mm.min;
        int visits = 1;
        while (stir::next(c1, x))
          ++visits;
        VF_CHECK(visits == int(mm.n()) && c1[1] == mm.max() + 1, after, " next(BasicCoordinate<1>, array) visits ", visits);
      }
    // copy_to: exactly size_all() elements in row-major order, returns the advanced iterator
    {
      std::vector<float> out(flat.size() + 2, -12345.F);
      auto oe = stir::copy_to(x, out.begin());
      VF_CHECK(oe == out.begin() + std::ptrdiff_t(flat.size()), after, " copy_to end iterator");
      for (std::size_t i = 0; i < flat.size(); ++i)
        VF_CHECK(same(out[i], flat[i]), after, " copy_to element ", i);
      VF_CHECK(out[flat.size()] == -12345.F, after, " copy_to wrote beyond size_all() elements");
    }
    if (!flat.empty())
      {
        const bool contig = x.is_contiguous();
        bool threw = false;
        try
          {
            const float* p = x.get_const_full_data_ptr();
            for (std::size_t i = 0; i < flat.size(); ++i)
              VF_CHECK(same(p[i], flat[i]), after, " const full data ptr element ", i);
          }
        catch (const std::runtime_error&)
          {
            threw = true;
          }
        x.release_const_full_data_ptr();
        VF_CHECK(threw == !contig, after, " get_const_full_data_ptr: contiguous=", contig, " threw=", threw);
      }
    // full iterators: post-increment, ->, copy, default construction + assignment, conversion to the const iterator
    {
      typename Arr::full_iterator it = xx.begin_all();
      typename Arr::const_full_iterator cit = it; // conversion
      typename Arr::const_full_iterator dflt;
      dflt = x.begin_all_const();
      VF_CHECK(cit == dflt && !(cit != x.begin_all()), after, " full_iterator -> const_full_iterator conversion / comparison");
      std::size_t k = 0;
      while (it != xx.end_all())
        {
          VF_CHECK(k < flat.size(), after, " full iteration (post-increment) too long");
          typename Arr::full_iterator was = it++;
          VF_CHECK(same(*was, flat[k]) && was.operator->() == &*was, after, " full iterator post-increment / -> at ", k);
          ++k;
        }
      VF_CHECK(k == flat.size(), after, " full iteration (post-increment) visited ", k, " of ", flat.size());
    }
    {
      const IndexRange<D> ir = x.get_index_range();
      const IndexRange<D> ir2 = x.get_index_range();
      VF_CHECK(ir == ir2 && !(ir != ir2), after, " IndexRange::operator== of two reports of the same array");
    }
    return Result::pass();
  }
  static std::string show(const stir::BasicCoordinate<D, int>& cc)
  {
    std::string r = "(";
    for (int k = 1; k <= D; ++k)
      r += (k > 1 ? "," : "") + std::to_string(cc[k]);
    return r + ")";
  }

  static void check_rows_nonempty(const MN& mm, bool& ok)
  {
    if (mm.n() == 0)
      ok = false;
    if (mm.dim > 1)
      for (auto& s : mm.sub)
        check_rows_nonempty(s, ok);
  }

  Result compare_all(const std::string& after)
  {
    for (int s = 0; s < NS; ++s)
      {
        Result r = compare(s, after);
        if (r.failed())
          return r;
      }
    return Result::pass();
  }

  // pick the k-th element (row-major) of the model and return its multi-index
  static bool kth_index(const MN& mm, std::size_t k, std::vector<int>& idx)
  {
    if (mm.dim == 1)
      {
        if (k >= mm.v.size())
          return false;
        idx.push_back(mm.min + int(k));
        return true;
      }
    for (std::size_t i = 0; i < mm.sub.size(); ++i)
      {
        const std::size_t sz = mm.sub[i].size_all();
        if (k < sz)
          {
            idx.push_back(mm.min + int(i));
            return kth_index(mm.sub[i], k, idx);
          }
        k -= sz;
      }
    return false;
  }
  static float& model_at(MN& mm, const std::vector<int>& idx, std::size_t level = 0)
  {
    if (mm.dim == 1)
      return mm.v[std::size_t(idx[level] - mm.min)];
    return model_at(mm.sub[std::size_t(idx[level] - mm.min)], idx, level + 1);
  }
  static bool model_has(const MN& mm, const std::vector<int>& idx, std::size_t level = 0)
  {
    if (mm.n() == 0 || idx[level] < mm.min || idx[level] > mm.max())
      return false;
    if (mm.dim == 1)
      return true;
    return model_has(mm.sub[std::size_t(idx[level] - mm.min)], idx, level + 1);
  }
  static stir::BasicCoordinate<D, int> coord(const std::vector<int>& idx)
  {
    stir::BasicCoordinate<D, int> cc;
    for (int k = 1; k <= D; ++k)
      cc[k] = idx[std::size_t(k - 1)];
    return cc;
  }

  Result apply(const json& op, int idx)
  {
    const int code = op[0].get<int>();
    const long a = op[1].get<long>(), b = op[2].get<long>(), c = op[3].get<long>(), d = op[4].get<long>();
    const int s = int(((a % NS) + NS) % NS);
    const int t = int(((b % NS) + NS) % NS);
    Arr& x = *o[s];
    MN& ms = m[s];
    const std::string after = cat("op#", idx, " code ", code);
    SplitMix g(uint64_t(c) * 1000003ULL + uint64_t(d));
    // does the view (if any) have to survive this operation?  (own statement, see view_hold)
    if (viewer >= 0 && view_hold)
      {
        bool keeps = true;
        switch (code)
          {
          case 3: // assignment to the viewer (also x = x: copy-and-swap) may re-allocate
            keeps = viewer != s;
            break;
          case 5:
          case 6:
          case 22:
            keeps = viewer != s;
            break;
          case 14: // grows to the hull when the ranges differ
            keeps = viewer != s || model_same_range(ms, m[t]);
            break;
          case 2:
          case 4:
          case 21:
            if (s != t && (viewer == s || viewer == t))
              flag(CF_VIEWN_MOVED);
            break;
          default:
            break;
          }
        if (!keeps)
          view_hold = false;
      }
    if (code == 14)
      {
        if (s == t)
          flag(CF_SELF);
        flag_ranges(ms.n() == 0, ms.min, ms.max(), m[t].n() == 0, m[t].min, m[t].max());
      }
    if (code == 3 && s == t)
      flag(CF_SELF);
    switch (code)
      {
      case 0: { // construct from range (regular or irregular)
        const RN r = gen_range(g, D, (d & 1) != 0);
        o[s].reset(new Arr(to_index_range<D>(r)));
        m[s] = MN();
        m[s].dim = D;
        model_resize(m[s], r, D);
        if (viewer == s)
          viewer = -1;
        break;
      }
      case 1: // copy construct
        if (s != t)
          {
            o[s].reset(new Arr(*o[t]));
            m[s] = m[t];
            if (viewer == s)
              viewer = -1;
          }
        break;
      case 2: // move construct
        if (s != t)
          {
            std::unique_ptr<Arr> n(new Arr(std::move(*o[t])));
            o[s] = std::move(n);
            m[s] = m[t];
            if (viewer == s)
              viewer = -1;
            if (viewer == t)
              viewer = s;
            // moved-from must be valid; we require it to be self-consistent and adopt its state
            Result r = resync(t, after);
            if (r.failed())
              return r;
          }
        break;
      case 3: // copy assign
        *o[s] = *o[t];
        m[s] = m[t];
        if (viewer == s && s != t)
          viewer = -1;
        break;
      case 4: // move assign
        if (s != t)
          {
            *o[s] = std::move(*o[t]);
            m[s] = m[t];
            if (viewer == s)
              viewer = -1;
            if (viewer == t)
              viewer = s;
            Result r = resync(t, after);
            if (r.failed())
              return r;
          }
        break;
      case 5:
      case 6: { // resize / grow to a new (regular or irregular) range; survivors keep values, new elements are 0
        RN r = gen_range(g, D, (d & 1) != 0);
        if (dbg())
          std::cerr << after << " resize to " << show_range(r) << "\n";
        if (code == 5)
          x.resize(to_index_range<D>(r));
        else
          x.grow(to_index_range<D>(r));
        model_resize(ms, r, D);
        break;
      }
      case 10: {
        const float val = float(int(c % 50));
        x.fill(val);
        model_for_each(ms, [val](float& e) { e = val; });
        break;
      }
      case 11: { // element write through nested [] and through BasicCoordinate
        const std::size_t n = ms.size_all();
        if (n == 0)
          break;
        std::vector<int> mi;
        kth_index(ms, std::size_t(((c % long(n)) + long(n)) % long(n)), mi);
        const float val = float(int(d % 50)) + 0.5F;
        if (d & 1)
          x[coord(mi)] = val;
        else if (d & 2)
          x.at(coord(mi)) = val;
        else
          elem<D>(x, mi) = val; // nested operator[]
        model_at(ms, mi) = val;
        break;
      }
      case 12: { // at(BasicCoordinate): inside ok, outside std::out_of_range
        std::vector<int> mi;
        for (int k = 0; k < D; ++k)
          mi.push_back(int(g.range(-3, 3)));
        const bool inside = model_has(ms, mi);
        bool threw = false;
        stir_verif::asserts_on = false;
        try
          {
            const float val = x.at(coord(mi));
            if (inside)
              {
                stir_verif::asserts_on = true;
                VF_CHECK(same(val, model_at(ms, mi)), after, " at() value");
              }
          }
        catch (const std::out_of_range&)
          {
            threw = true;
          }
        stir_verif::asserts_on = true;
        VF_CHECK(threw == !inside, after, " at(", mi[0], ",", mi[1], D > 2 ? cat(",", mi[2]) : std::string(), ") inside=", inside,
                 " threw=", threw);
        {
          const Arr& cx = x;
          threw = false;
          stir_verif::asserts_on = false;
          try
            {
              (void)cx.at(coord(mi));
            }
          catch (const std::out_of_range&)
            {
              threw = true;
            }
          stir_verif::asserts_on = true;
          VF_CHECK(threw == !inside, after, " const at(BasicCoordinate) inside=", inside, " threw=", threw);
          const bool inside1 = ms.n() > 0 && mi[0] >= ms.min && mi[0] <= ms.max();
          bool threw1 = false, threw2 = false;
          stir_verif::asserts_on = false;
          try
            {
              (void)cx.at(mi[0]);
            }
          catch (const std::out_of_range&)
            {
              threw1 = true;
            }
          try
            {
              (void)x.at(mi[0]);
            }
          catch (const std::out_of_range&)
            {
              threw2 = true;
            }
          stir_verif::asserts_on = true;
          VF_CHECK(threw1 == !inside1 && threw2 == !inside1, after, " at(", mi[0], ") inside=", inside1, " threw=", threw1, "/", threw2);
        }
        break;
      }
      case 14: { // binary arithmetic with automatic growing to the hull
        const int which = int(((c % 4) + 4) % 4);
        MN res = ms;
        model_binary(res, m[t], which);
        switch (which)
          {
          case 0: x += *o[t]; break;
          case 1: x -= *o[t]; break;
          case 2: x *= *o[t]; break;
          default: x /= *o[t]; break;
          }
        ms = res;
        if (s == t)
          m[t] = res;
        break;
      }
      case 15: {
        const bool eq = model_equal(m[s], m[t]);
        VF_CHECK((*o[s] == *o[t]) == eq, after, " operator== ", (*o[s] == *o[t]), " model ", eq);
        break;
      }
      case 16: {
        const float lo = float(int(c % 20)), hi = lo + float(int(d % 20));
        x.apply_lower_threshold(lo);
        x.apply_upper_threshold(hi);
        model_for_each(ms, [lo, hi](float& e) {
          if (e < lo)
            e = lo;
          if (e > hi)
            e = hi;
        });
        break;
      }
      case 17: {
        const int which = int(((c % 6) + 6) % 6);
        const float val = float(int(d % 9) - 4);
        if (which == 0)
          {
            x += val;
            model_for_each(ms, [val](float& e) { e += val; });
          }
        else if (which == 1)
          {
            x -= val;
            model_for_each(ms, [val](float& e) { e -= val; });
          }
        else if (which == 2)
          {
            x *= val;
            model_for_each(ms, [val](float& e) { e *= val; });
          }
        else if (which == 3 && val != 0)
          {
            x /= val;
            model_for_each(ms, [val](float& e) { e /= val; });
          }
        else if (which >= 4)
          {
            const int u = (t + 1) % NS;
            const bool ok = which == 4 ? (model_same_range(ms, m[t]) && model_same_range(ms, m[u])) : model_same_range(ms, m[t]);
            const float aa = float(int(d % 5) - 2), bb = float(int((d / 5) % 5) - 2);
            bool threw = false;
            stir_verif::asserts_on = false;
            try
              {
                if (which == 4)
                  x.xapyb(*o[t], aa, *o[u], bb);
                else
                  x.sapyb(aa, *o[t], bb);
              }
            catch (const std::exception&)
              {
                threw = true;
              }
            stir_verif::asserts_on = true;
            VF_CHECK(threw == !ok, after, " xapyb/sapyb compatible=", ok, " threw=", threw);
            if (ok)
              {
                std::vector<float> fs, ft, fu;
                model_flatten(ms, fs);
                model_flatten(m[t], ft);
                model_flatten(m[u], fu);
                std::size_t k = 0;
                MN res = ms;
                model_for_each(res, [&](float& e) {
                  e = which == 4 ? (ft[k] * aa + fu[k] * bb) : (fs[k] * aa + ft[k] * bb);
                  ++k;
                });
                ms = res;
                if (s == t)
                  m[t] = res;
                if (which == 4 && s == u)
                  m[u] = res;
              }
          }
        break;
      }
      case 18: { // view on shared memory (regular or irregular range)
        const RN r = gen_range(g, D, (d & 1) != 0);
        MN tmp;
        tmp.dim = D;
        model_resize(tmp, r, D);
        const std::size_t n = tmp.size_all();
        if (n == 0)
          break;
        if (viewer >= 0)
          {
            o[viewer].reset(new Arr());
            m[viewer] = MN();
            m[viewer].dim = D;
          }
        buf_len = n;
        buf = stir::shared_ptr<float[]>(new float[n]);
        for (std::size_t i = 0; i < n; ++i)
          buf[std::ptrdiff_t(i)] = float(i + 1);
        o[s].reset(new Arr(to_index_range<D>(r), buf));
        std::size_t k = 0;
        model_for_each(tmp, [&k](float& e) { e = float(++k); });
        m[s] = tmp;
        viewer = s;
        view_hold = true;
        flag(CF_VIEWN);
        // writes to the buffer are visible in the array at once
        buf[0] = 99.F;
        {
          std::vector<int> mi;
          kth_index(m[s], 0, mi);
          model_at(m[s], mi) = 99.F;
        }
        {
          bool rows_nonempty = true;
          check_rows_nonempty(m[s], rows_nonempty);
          if (rows_nonempty) // with empty rows is_contiguous() may conservatively say no
            VF_CHECK(o[s]->is_contiguous(), after, " viewing array must be contiguous");
        }
        break;
      }
      case 19: { // full data pointer: only for contiguous arrays, otherwise error()
        std::vector<float> flat;
        model_flatten(ms, flat);
        if (flat.empty())
          break;
        const bool contig = x.is_contiguous();
        bool threw = false;
        try
          {
            float* p = x.get_full_data_ptr();
            for (std::size_t i = 0; i < flat.size(); ++i)
              VF_CHECK(same(p[i], flat[i]), after, " full data ptr element ", i);
            p[flat.size() - 1] = 7.25F;
            x.release_full_data_ptr();
            std::vector<int> mi;
            kth_index(ms, flat.size() - 1, mi);
            model_at(ms, mi) = 7.25F;
          }
        catch (const std::runtime_error&)
          {
            threw = true;
            x.release_full_data_ptr();
          }
        VF_CHECK(threw == !contig, after, " get_full_data_ptr: contiguous=", contig, " threw=", threw);
        break;
      }
      case 20: { // regular range query
        stir::BasicCoordinate<D, int> mn, mx;
        const bool reg = x.get_regular_range(mn, mx);
        const bool mreg = model_regular(ms);
        VF_CHECK(reg == mreg, after, " get_regular_range ", reg, " model ", mreg);
        VF_CHECK(x.is_regular() == mreg, after, " is_regular");
        if (reg && ms.size_all() > 0)
          {
            std::size_t prod = 1;
            for (int k = 1; k <= D; ++k)
              prod *= std::size_t(mx[k] - mn[k] + 1);
            VF_CHECK(prod == ms.size_all(), after, " regular range volume");
            VF_CHECK(mn[1] == ms.min && mx[1] == ms.max(), after, " regular range outer");
          }
        break;
      }
      case 21: // swap (the friend function found by argument-dependent lookup)
        if (s != t)
          {
            swap(*o[s], *o[t]);
            std::swap(m[s], m[t]);
            if (viewer == s)
              viewer = t;
            else if (viewer == t)
              viewer = s;
          }
        break;
      case 22: { // operations on a ROW (sub-array) of the array, and the outer-level resize inherited from VectorWithOffset
        Result r = row_op<D>(x, ms, g, after);
        if (r.failed())
          return r;
        break;
      }
      case 23: { // operators returning new objects (inherited from NumericVectorWithOffset; Array(const base_type&))
        const int which = int(((c % 4) + 4) % 4);
        if ((c / 4) % 2 == 0)
          {
            MN res = ms;
            model_binary(res, m[t], which);
            const Arr r(which == 0 ? (x + *o[t]) : which == 1 ? (x - *o[t]) : which == 2 ? (x * *o[t]) : (x / *o[t]));
            Result rr = cmp<D>(r, res, after + " result of binary operator " + std::to_string(which));
            if (rr.failed())
              return rr;
          }
        else
          {
            const float val = float(int(d % 9) - 4);
            if (which == 3 && val == 0.F)
              break;
            MN res = ms;
            model_for_each(res, [which, val](float& e) {
              switch (which)
                {
                case 0: e += val; break;
                case 1: e -= val; break;
                case 2: e *= val; break;
                default: e /= val; break;
                }
            });
            const Arr r(which == 0 ? (x + val) : which == 1 ? (x - val) : which == 2 ? (x * val) : (x / val));
            Result rr = cmp<D>(r, res, after + " result of scalar operator " + std::to_string(which));
            if (rr.failed())
              return rr;
          }
        break;
      }
      case 24: { // xapyb / sapyb with ARRAY coefficients and the deprecated axpby
        Result r = xapyb_arrays(s, t, c, d, g, after);
        if (r.failed())
          return r;
        break;
      }
      case 25: { // fill_from (copy_fill.h) and writes through the non-const full iterator
        std::vector<float> flat;
        model_flatten(ms, flat);
        if (d & 1)
          {
            std::vector<float> src;
            for (std::size_t i = 0; i < flat.size(); ++i)
              src.push_back(float(int((c + long(i)) % 50)) + 0.25F);
            stir::fill_from(x, src.begin(), src.end()); // exactly size_all() elements ("no size/range-check on iter")
            std::size_t k = 0;
            model_for_each(ms, [&](float& e) { e = src[k++]; });
          }
        else
          {
            std::size_t k = 0;
            for (auto it = x.begin_all(); it != x.end_all(); ++it, ++k)
              {
                VF_CHECK(k < flat.size(), after, " non-const full iteration too long");
                if ((long(k) + c) % 2 == 0)
                  *it = float(k) - 3.F;
              }
            VF_CHECK(k == flat.size(), after, " non-const full iteration visited ", k, " of ", flat.size());
            k = 0;
            model_for_each(ms, [&](float& e) {
              if ((long(k) + c) % 2 == 0)
                e = float(k) - 3.F;
              ++k;
            });
          }
        break;
      }
      case 26: { // IndexRange<D> objects built in every public way answer for their CURRENT contents
        Result r = index_range_op(c, d, g, after);
        if (r.failed())
          return r;
        break;
      }
      default:
        break;
      }
    if (viewer < 0)
      view_hold = false;
    if (view_hold && code != 18)
      flag(CF_VIEWN_HELD);
    for (int q = 0; q < NS && !(g_case_flag[CF_ND_IRREGULAR] && g_case_flag[CF_ND_EMPTY_ROW]); ++q)
      if (m[q].n() > 0 && !model_regular(m[q]))
        {
          flag(CF_ND_IRREGULAR);
          if (model_has_empty_row(m[q]))
            flag(CF_ND_EMPTY_ROW);
        }
    return compare_all(after);
  }

  template <int K>
  Result row_op(Array<K, float>& a, MN& mm, SplitMix& g, const std::string& after)
  {
    if constexpr (K >= 2)
      {
        const int what = int(g.range(0, 6));
        if (what == 6 || mm.n() == 0)
          { // VectorWithOffset<Array<K-1>>::resize(min,max) (what NumericVectorWithOffset::operator+= calls to grow): rows that
            // survive keep their contents, new rows are empty arrays
            VectorWithOffset<Array<K - 1, float>>& base = a;
            const int mn = int(g.range(-2, 2)), len = int(g.range(0, 3));
            base.resize(mn, mn + len - 1);
            RN r = rn_of(mm);
            std::vector<RN> subs;
            for (int i = mn; i <= mn + len - 1; ++i)
              subs.push_back((r.max >= r.min && i >= r.min && i <= r.max) ? r.sub[std::size_t(i - r.min)] : RN());
            r.sub = subs;
            r.min = len ? mn : 0;
            r.max = len ? mn + len - 1 : -1;
            model_resize(mm, r, K);
            return Result::pass();
          }
        const int i = mm.min + int(g.range(0, long(mm.n()) - 1));
        Array<K - 1, float>& row = a[i];
        MN& rm = mm.sub[std::size_t(i - mm.min)];
        if (K >= 3 && (g.range(0, 1) == 1))
          return row_op<K - 1>(row, rm, g, after);
        const RN r = gen_range(g, K - 1, (g.range(0, 1) == 1));
        switch (what)
          {
          case 0:
            row.resize(to_index_range<K - 1>(r));
            model_resize(rm, r, K - 1);
            break;
          case 1:
            row.grow(to_index_range<K - 1>(r)); // Array.h: "alias for resize()"
            model_resize(rm, r, K - 1);
            break;
          case 2: { // assignment of a fresh array to the row
            Array<K - 1, float> fresh(to_index_range<K - 1>(r));
            fresh.fill(2.5F);
            row = fresh;
            rm = MN();
            rm.dim = K - 1;
            model_resize(rm, r, K - 1);
            model_for_each(rm, [](float& e) { e = 2.5F; });
            break;
          }
          case 3:
            row.fill(-1.5F);
            model_for_each(rm, [](float& e) { e = -1.5F; });
            break;
          case 4:
            row *= 2.F;
            model_for_each(rm, [](float& e) { e *= 2.F; });
            break;
          default: { // row += fresh array (grows the row to the hull)
            Array<K - 1, float> fresh(to_index_range<K - 1>(r));
            fresh.fill(1.F);
            MN fm;
            fm.dim = K - 1;
            model_resize(fm, r, K - 1);
            model_for_each(fm, [](float& e) { e = 1.F; });
            row += fresh;
            model_binary(rm, fm, 0);
            break;
          }
          }
      }
    return Result::pass();
  }

  // an array with the given nested range and small integer values; its model
  static std::unique_ptr<Arr> make_array(const RN& r, SplitMix& g, MN& mm)
  {
    std::unique_ptr<Arr> v(new Arr(to_index_range<D>(r)));
    for (auto it = v->begin_all(); it != v->end_all(); ++it)
      *it = float(g.range(-3, 3));
    read_back<D>(*v, mm);
    return v;
  }

  // Array.inl: "Array::xapyb: index ranges don't match" is an error() whenever get_index_range() of an operand differs from
  // that of *this (at any level); *this must then be unchanged; otherwise every element is x*a + y*b.
  // c % 5: operand whose range is changed (0 none, 1 x, 2 a, 3 y, 4 b; where and how from the seed); d % 6: call form.
  Result xapyb_arrays(int s, int t, long c, long d, SplitMix& g, const std::string& after)
  {
    Arr& x = *o[s];
    MN& ms = m[s];
    const int u = (t + 1) % NS;
    const int victim = int(((c % 5) + 5) % 5), form = int(((d % 6) + 6) % 6);
    const RN r0 = rn_of(ms);
    RN rr[4] = { r0, r0, r0, r0 }; // x a y b
    if (victim > 0)
      perturb_rn(rr[victim - 1], D, g);
    MN mo[4];
    std::unique_ptr<Arr> ob[4];
    for (int k = 0; k < 4; ++k)
      ob[k] = make_array(rr[k], g, mo[k]);
    const Arr *px = ob[0].get(), *py = ob[2].get();
    if (form == 3)
      {
        mo[0] = ms;
        rr[0] = r0;
        px = &x;
      }
    else if (form == 4)
      {
        mo[0] = m[t];
        mo[2] = m[u];
        rr[0] = rn_of(m[t]);
        rr[2] = rn_of(m[u]);
        px = o[t].get();
        py = o[u].get();
      }
    const float aa = float(g.range(-2, 2)), bb = float(g.range(-2, 2));
    const bool ok = form == 5 ? (rn_equal(r0, rr[0]) && rn_equal(r0, rr[2]))
                              : (rn_equal(r0, rr[0]) && rn_equal(r0, rr[1]) && rn_equal(r0, rr[2]) && rn_equal(r0, rr[3]));
    bool threw = false;
    stir_verif::asserts_on = false; // only the library's own error reporting counts
    try
      {
        if (form == 3)
          x.sapyb(*ob[1], *py, *ob[3]);
        else if (form == 5)
          {
#pragma GCC diagnostic push
#pragma GCC diagnostic ignored "-Wdeprecated-declarations"
            x.axpby(aa, *px, bb, *py);
#pragma GCC diagnostic pop
          }
        else
          x.xapyb(*px, *ob[1], *py, *ob[3]);
      }
    catch (const std::exception&)
      {
        threw = true;
      }
    stir_verif::asserts_on = true;
    stats().cls(ok ? "xapyb with array coefficients: matching ranges" : "xapyb with array coefficients: one operand differs");
    VF_CHECK(threw == !ok, after, " xapyb/sapyb with array coefficients (form ", form, ", operand ", victim, " changed): this ", show_range(r0),
             " x ", show_range(rr[0]), " a ", show_range(rr[1]), " y ", show_range(rr[2]), " b ", show_range(rr[3]), " compatible=", ok,
             " threw=", threw);
    if (ok)
      {
        std::vector<float> f[4];
        for (int k = 0; k < 4; ++k)
          model_flatten(mo[k], f[k]);
        std::size_t k = 0;
        MN res = ms;
        model_for_each(res, [&](float& e) {
          e = form == 5 ? (f[0][k] * aa + f[2][k] * bb) : (f[0][k] * f[1][k] + f[2][k] * f[3][k]);
          ++k;
        });
        ms = res;
        if (form == 4 && s == t)
          m[t] = res;
        if (form == 4 && s == u)
          m[u] = res;
      }
    return Result::pass();
  }

  // IndexRange<D>: constructed from a VectorWithOffset of sub-ranges, from BasicCoordinates (min,max) / (sizes), copied, or
  // built / changed in place through the inherited VectorWithOffset interface; size_all(), is_regular(), get_regular_range(),
  // ==, != and an Array constructed from it must describe the CURRENT contents.
  Result index_range_op(long c, long d, SplitMix& g, const std::string& after)
  {
    const int path = int(((c % 6) + 6) % 6);
    RN r2 = gen_range(g, D, (d & 1) != 0); // the final range
    MN m2;
    m2.dim = D;
    model_resize(m2, r2, D);
    const bool reg2 = model_regular(m2);
    std::vector<int> emn, emx;
    model_regular_coords(m2, emn, emx);
    bool all_levels_nonempty = true;
    for (int k = 0; k < D; ++k)
      all_levels_nonempty = all_levels_nonempty && emx[std::size_t(k)] >= emn[std::size_t(k)];
    std::unique_ptr<IndexRange<D>> A;
    int flag = -1; // what the cached regularity knowledge of A says before an in-place change: -1 none, 0 irregular, 1 regular
    bool changed_in_place = false;
    const char* how = "";
    if (path == 1)
      { // copy of a range that was already asked
        IndexRange<D> tmp = to_index_range<D>(r2);
        (void)tmp.is_regular();
        A.reset(new IndexRange<D>(tmp));
        how = "copy after is_regular()";
      }
    else if (path == 2 && reg2 && all_levels_nonempty)
      { // regular constructors
        stir::BasicCoordinate<D, int> mn, mx, sz;
        bool zero_based = true;
        for (int k = 1; k <= D; ++k)
          {
            mn[k] = emn[std::size_t(k - 1)];
            mx[k] = emx[std::size_t(k - 1)];
            sz[k] = mx[k] - mn[k] + 1;
            zero_based = zero_based && mn[k] == 0;
          }
        if (zero_based && (g.range(0, 1) == 1))
          A.reset(new IndexRange<D>(sz));
        else
          A.reset(new IndexRange<D>(mn, mx));
        how = "BasicCoordinate constructor";
      }
    else if (path == 3)
      { // default-construct, grow, assign the rows (ML_norm.cxx, find_sinogram_rescaling_factors.cxx)
        A.reset(new IndexRange<D>(build_in_place<D>(r2)));
        flag = 1; // IndexRange(): "regular"
        changed_in_place = true;
        how = "default-constructed, grown, rows assigned";
      }
    else if (path == 4 || path == 5)
      { // an existing range (regular constructor, or any range after is_regular()) is changed in place to r2
        const RN r1 = gen_range(g, D, path == 4 ? true : (g.range(0, 1) == 1));
        MN m1;
        m1.dim = D;
        model_resize(m1, r1, D);
        A.reset(new IndexRange<D>(to_index_range<D>(r1)));
        flag = A->is_regular() ? 1 : 0;
        VF_CHECK((flag == 1) == model_regular(m1), after, " IndexRange::is_regular ", flag, " model ", model_regular(m1), " for ", show_range(r1));
        A->resize(r2.min, r2.max);
        for (int i = r2.min; i <= r2.max; ++i)
          (*A)[i] = to_index_range<D - 1>(r2.sub[std::size_t(i - r2.min)]);
        changed_in_place = true;
        how = "asked, then changed in place";
      }
    else
      {
        A.reset(new IndexRange<D>(to_index_range<D>(r2)));
        how = "from VectorWithOffset";
      }
    // known finding: the cached knowledge is not invalidated by changes through the inherited interface
    if (changed_in_place && flag != (reg2 ? 1 : 0) && excluded("C11:IndexRange:stale-regularity-flag"))
      return Result::pass();
    stats().cls(std::string("IndexRange ") + how);
    const std::string w = after + " IndexRange (" + how + ") " + show_range(r2);
    VF_CHECK(A->size_all() == m2.size_all(), w, " size_all ", A->size_all(), " model ", m2.size_all());
    VF_CHECK(A->is_regular() == reg2, w, " is_regular ", A->is_regular(), " model ", reg2);
    stir::BasicCoordinate<D, int> gmn, gmx;
    VF_CHECK(A->get_regular_range(gmn, gmx) == reg2, w, " get_regular_range model ", reg2);
    if (reg2)
      for (int k = 1; k <= D; ++k)
        VF_CHECK(gmn[k] == emn[std::size_t(k - 1)] && gmx[k] == emx[std::size_t(k - 1)], w, " get_regular_range dimension ", k, ": ", gmn[k], "..",
                 gmx[k], " expected ", emn[std::size_t(k - 1)], "..", emx[std::size_t(k - 1)]);
    VF_CHECK(A->size_all() == m2.size_all() && A->is_regular() == reg2, w, " second query differs");
    if (m2.n() > 0)
      VF_CHECK(A->get_min_index() == m2.min && A->get_max_index() == m2.max(), w, " outer range");
    else
      VF_CHECK(A->get_length() == 0, w, " outer length");
    {
      const IndexRange<D> C(*A);
      VF_CHECK(C == *A && !(C != *A) && C.size_all() == m2.size_all() && C.is_regular() == reg2, w, " copy differs");
      RN r3 = r2;
      if ((g.range(0, 1) == 1))
        perturb_rn(r3, D, g);
      const IndexRange<D> B = to_index_range<D>(r3);
      const bool eq = rn_equal(r2, r3);
      VF_CHECK((*A == B) == eq && (*A != B) == !eq && (B == *A) == eq, w, " operator== with ", show_range(r3), " model ", eq);
    }
    {
      const Arr y(*A); // allocates size_all() elements and lays out every row in them
      MN z = m2;
      Result r = cmp<D>(y, z, w + " Array(range)");
      if (r.failed())
        return r;
      VF_CHECK(y.size_all() == m2.size_all(), w, " Array(range).size_all()");
    }
    return Result::pass();
  }

  template <int K>
  static void read_back(const Array<K, float>& x, MN& mm)
  {
    mm = MN();
    mm.dim = K;
    if (x.size() == 0)
      return;
    mm.min = x.get_min_index();
    if constexpr (K == 1)
      for (int i = x.get_min_index(); i <= x.get_max_index(); ++i)
        mm.v.push_back(x[i]);
    else
      for (int i = x.get_min_index(); i <= x.get_max_index(); ++i)
        {
          MN sub;
          read_back<K - 1>(x[i], sub);
          mm.sub.push_back(sub);
        }
  }
  Result resync(int t, const std::string& after)
  {
    const Arr& y = *o[t];
    VF_CHECK(int(y.size()) == y.get_max_index() - y.get_min_index() + 1, after, " moved-from object inconsistent");
    read_back<D>(y, m[t]);
    return Result::pass();
  }

  Result run(const json& ops)
  {
    int idx = 0;
    for (const auto& op : ops)
      {
        Result r = apply(op, idx++);
        if (r.failed())
          return r;
      }
    return Result::pass();
  }
};

// =============================================================================================
Result
check(const json& c)
{
  const int kind = c["kind"].get<int>();
  const json& ops = c["ops"];
  Result r;
  g_excluded_in_case.clear();
  std::fill(g_case_flag, g_case_flag + CF_N, false);
  struct FlagReport
  {
    ~FlagReport()
    {
      for (int f = 0; f < CF_N; ++f)
        if (g_case_flag[f])
          stats().cls(case_flag_name[f]);
    }
  } flag_report;
  {
    static const char* kind_name[7] = { "kind 0 VectorWithOffset<int>", "kind 1 Array<1,float>", "kind 2 Array<2,float>", "kind 3 Array<3,float>",
                                        "kind 4 VectorWithOffset<counting type>", "kind 5 Array<4,float>", "kind 6 NumericVectorWithOffset<float,float>" };
    stats().cls(kind_name[kind >= 0 && kind <= 6 ? kind : 4]);
    long n[32] = {};
    for (const auto& op : ops)
      {
        const int code = op[0].get<int>();
        if (code >= 0 && code < 32)
          ++n[code];
      }
    for (int k = 19; k <= 26; ++k) // the operations added by the entry-point audit
      if (n[k])
        stats().count(cat("ops executed: code ", k), n[k]);
  }
  switch (kind)
    {
    case 0: {
      Interp1<VectorWithOffset<int>, int, false, false> I;
      r = I.run(ops);
      break;
    }
    case 1: {
      Interp1<Array<1, float>, float, true, true> I;
      r = I.run(ops);
      break;
    }
    case 2: {
      InterpN<2> I;
      r = I.run(ops);
      break;
    }
    case 3: {
      InterpN<3> I;
      r = I.run(ops);
      break;
    }
    case 5: {
      InterpN<4> I;
      r = I.run(ops);
      break;
    }
    case 6: { // the numeric family directly (not through Array<1>): elements exposed by growing are default-initialised, i.e.
      // unspecified for an arithmetic element type, and += etc. then operate on them.  float, not int: with int the library's own
      // arithmetic on the indeterminate new elements is a signed overflow for UBSan (seen, outside the statement: the
      // statement speaks of numeric ARRAYS, which zero-fill)
      Interp1<stir::NumericVectorWithOffset<float, float>, float, false, false, true> I;
      r = I.run(ops);
      break;
    }
    default: {
      Counted::live = 0;
      Counted::bad = 0;
      {
        Interp1<VectorWithOffset<Counted>, Counted, false, true> I; // Counted() zero-initialises, so new elements are defined (0)
        r = I.run(ops);
      }
      if (!r.failed())
        {
          VF_CHECK(Counted::live == 0, "live element objects after destroying everything: ", Counted::live);
          VF_CHECK(Counted::bad == 0, "dead element objects were used or destroyed twice: ", Counted::bad);
        }
      break;
    }
    }
  return r;
}

// op codes available per kind
const std::vector<int> ops1_plain = { 0, 1, 2, 3, 4, 5, 6, 7, 8, 9, 10, 11, 12, 13, 14, 15, 16, 18, 19, 20, 21, 22, 23 };
const std::vector<int> ops1_array = { 0, 1, 2, 3, 4, 5, 6, 7, 8, 9, 10, 11, 12, 13, 14, 15, 16, 17, 18, 19, 20, 21, 22, 23, 24, 24 };
const std::vector<int> opsN = { 0, 1, 2, 3, 4, 5, 6, 10, 11, 12, 14, 15, 16, 17, 18, 19, 20, 21, 22, 23, 24, 24, 25, 26 };

json
gen(Src& s, int size)
{
  json c;
  // kinds: 0 VectorWithOffset<int>, 1 Array<1,float>, 2/3/5 Array<2/3/4,float>, 4 VectorWithOffset<counting type>,
  // 6 NumericVectorWithOffset<float,float>
  const int kind = int(s.range(0, 6));
  c["kind"] = kind;
  const std::vector<int>& al = (kind == 0 || kind == 4) ? ops1_plain : (kind == 1 || kind == 6) ? ops1_array : opsN;
  const long n = s.range(1, 5 + long(size) * 3);
  json ops = json::array();
  for (long i = 0; i < n; ++i)
    {
      int code = s.pick(al);
      // bias: binary ops and resizes are where the interesting behaviour is
      if (s.chance(1, 4))
        code = s.coin() ? 14 : 5;
      ops.push_back({ code, s.range(0, 2), s.range(0, 2), s.range(0, 62), s.range(0, 62) });
    }
  c["ops"] = ops;
  return c;
}

// bounded-exhaustive: every sequence of length <= L over a concretised alphabet, for kinds 0,1,4
struct Conc
{
  int code;
  long a, b, c, d;
};
const std::vector<Conc> conc = {
  { 0, 0, 0, 4, 3 },  // construct slot0 range [0,2]
  { 0, 1, 0, 3, 3 },  // construct slot1 range [-1,1]
  { 0, 1, 0, 4, 2 },  // construct slot1 range [0,1]
  { 0, 1, 0, 5, 2 },  // construct slot1 range [1,2]
  { 10, 0, 0, 7, 0 }, // fill slot0
  { 10, 1, 0, 3, 0 }, // fill slot1
  { 5, 0, 0, 5, 1 },  // resize slot0 -> [1,1]
  { 5, 0, 0, 2, 5 },  // resize slot0 -> [-2,2]
  { 5, 0, 0, 0, 0 },  // resize slot0 -> empty
  { 6, 0, 0, 3, 5 },  // grow slot0
  { 7, 0, 0, 0, 6 },  // reserve slot0
  { 9, 0, 0, 7, 1 },  // set_offset slot0 -> 2
  { 3, 0, 1, 0, 0 },  // slot0 = slot1
  { 3, 1, 0, 0, 0 },  // slot1 = slot0
  { 2, 1, 0, 0, 0 },  // move construct slot1 from slot0
  { 14, 0, 1, 0, 0 }, // slot0 += slot1
  { 14, 0, 1, 2, 0 }, // slot0 *= slot1
  { 14, 1, 0, 1, 0 }, // slot1 -= slot0
  { 12, 0, 0, 0, 0 }, // at() slot0 below
  { 12, 0, 0, 7, 0 }, // at() slot0 above/inside
  { 8, 0, 0, 0, 0 },  // recycle slot0
  { 13, 0, 0, 1, 9 }, // data ptr write
  { 18, 0, 0, 4, 3 }, // slot0 = view on a buffer, range [0,2]
  { 21, 0, 1, 0, 0 }, // swap(slot0, slot1)
  { 20, 0, 0, 0, 5 }, // slot0.resize(5u)
  { 24, 0, 0, 9, 0 }, // slot0.xapyb(x, a, y, b): b one shorter at the upper end (numeric kinds)
  { 24, 0, 0, 0, 3 }, // slot0.sapyb(a, y, b), matching ranges
  { 23, 0, 1, 0, 0 }, // slot0 + slot1
  { 15, 0, 1, 0, 0 }, // slot0 == slot1 (domain audit: equality between two live objects was in no enumerated history)
};

// Domain audit: the bounded-exhaustive part covered the 1-D kinds only, although the quantifier asks for all short histories on
// 1-4 dimensional arrays.  Second alphabet for Array<2,float>: the multi-dimensional interpreter draws its ranges from a generator
// seeded with (c,d), so the concrete ranges are found by scanning the (c,d) values the random generator can produce (0..62) for the
// first one of each wanted shape (deterministic; the shapes are listed once in the run's log when VERIF_DEBUG is set).
static bool
rn_regular(const RN& r)
{
  for (auto& k : r.sub)
    if (k.max - k.min != r.sub[0].max - r.sub[0].min || (k.max >= k.min && k.min != r.sub[0].min))
      return false;
  return true;
}
static std::size_t
rn_size(const RN& r)
{
  std::size_t n = 0;
  for (auto& k : r.sub)
    n += k.max >= k.min ? std::size_t(k.max - k.min + 1) : 0;
  return n;
}
static bool
rn_has_empty_row(const RN& r)
{
  for (auto& k : r.sub)
    if (k.max < k.min)
      return true;
  return false;
}
static const std::vector<Conc>&
conc2()
{
  static const std::vector<Conc> v = [] {
    auto range_of = [](long c, long d) {
      SplitMix g(uint64_t(c) * 1000003ULL + uint64_t(d));
      return gen_range(g, 2, (d & 1) != 0);
    };
    auto find = [&](const std::function<bool(const RN&)>& pred, long& c, long& d) {
      for (c = 0; c <= 62; ++c)
        for (d = 0; d <= 62; ++d)
          if (pred(range_of(c, d)))
            return true;
      c = d = 0;
      return false;
    };
    long ca, da, cb, db, cc, dc, ce, de, cz, dz, cs, ds;
    // A: regular, at least 2 rows of at least 2 elements
    find([](const RN& r) { return r.max - r.min >= 1 && rn_regular(r) && r.sub[0].max - r.sub[0].min >= 1; }, ca, da);
    const RN A = range_of(ca, da);
    // B: regular, not empty, shares exactly ONE outer index with A and has another inner range
    find([&](const RN& r) {
      const int lo = std::max(r.min, A.min), hi = std::min(r.max, A.max);
      return r.max >= r.min && rn_regular(r) && rn_size(r) > 0 && lo == hi && r.max - r.min >= 1 && !rn_equal(r.sub[0], A.sub[0]);
    }, cb, db);
    // C: irregular, no zero-length row;  E: irregular with a zero-length row, not empty;  Z: empty;  S: one element
    find([](const RN& r) { return r.max - r.min >= 1 && !rn_regular(r) && !rn_has_empty_row(r); }, cc, dc);
    find([](const RN& r) { return r.max - r.min >= 1 && !rn_regular(r) && rn_has_empty_row(r) && rn_size(r) > 0; }, ce, de);
    find([](const RN& r) { return r.max < r.min; }, cz, dz);
    find([](const RN& r) { return r.max == r.min && rn_size(r) == 1; }, cs, ds);
    if (dbg())
      std::cerr << "C11 2-D alphabet: A " << show_range(A) << " B " << show_range(range_of(cb, db)) << " C " << show_range(range_of(cc, dc)) << " E "
                << show_range(range_of(ce, de)) << " Z " << show_range(range_of(cz, dz)) << " S " << show_range(range_of(cs, ds)) << "\n";
    return std::vector<Conc>{
      { 0, 0, 0, ca, da },  // construct slot0 with A
      { 0, 1, 0, ca, da },  // construct slot1 with A
      { 0, 1, 0, cb, db },  // construct slot1 with B
      { 0, 1, 0, cc, dc },  // construct slot1 with C (irregular)
      { 0, 0, 0, ce, de },  // construct slot0 with E (irregular, a zero-length row)
      { 5, 0, 0, cb, db },  // resize slot0 to B (one shared row when it was A)
      { 5, 0, 0, cc, dc },  // resize slot0 to C
      { 5, 0, 0, cz, dz },  // resize slot0 to empty
      { 5, 0, 0, cs, ds },  // resize slot0 to one element
      { 6, 0, 0, ca, da },  // grow slot0 to A
      { 10, 0, 0, 7, 0 },   // fill slot0
      { 10, 1, 0, 3, 0 },   // fill slot1
      { 11, 0, 0, 1, 3 },   // write one element of slot0
      { 3, 0, 1, 0, 0 },    // slot0 = slot1
      { 3, 1, 0, 0, 0 },    // slot1 = slot0
      { 2, 1, 0, 0, 0 },    // move construct slot1 from slot0
      { 4, 0, 1, 0, 0 },    // slot0 = move(slot1)
      { 21, 0, 1, 0, 0 },   // swap
      { 14, 0, 1, 0, 0 },   // slot0 += slot1
      { 14, 1, 0, 2, 0 },   // slot1 *= slot0
      { 14, 0, 0, 1, 0 },   // slot0 -= slot0
      { 12, 0, 0, 3, 4 },   // at()
      { 18, 0, 0, ca, da }, // slot0 = view on a shared block, range A
      { 18, 1, 0, cc, dc }, // slot1 = view on a shared block, range C
      { 19, 0, 0, 0, 0 },   // full data pointer of slot0
      { 22, 0, 0, 1, 1 },   // row operation on slot0
      { 22, 0, 0, 2, 5 },   // another row operation on slot0
      { 25, 0, 0, 1, 1 },   // fill_from
      { 25, 0, 0, 0, 2 },   // write through the full iterator
      { 23, 0, 1, 0, 0 },   // slot0 + slot1
      { 24, 0, 1, 1, 0 },   // xapyb with array coefficients
      { 15, 0, 1, 0, 0 },   // slot0 == slot1
    };
  }();
  return v;
}

static bool
enumerate2(uint64_t idx, int tier, json& c)
{
  const std::vector<Conc>& al = conc2();
  const uint64_t K = al.size();
  // 32 + 32^2 + 32^3 = 33 824 histories; the sanitizer flavour (about 10x slower) enumerates length <= 2 in the quick tier
  int L = 3;
#if defined(__has_feature)
#  if __has_feature(address_sanitizer)
  if (tier == 0)
    L = 2;
#  endif
#endif
  uint64_t total = 0, pw = 1;
  for (int l = 1; l <= L; ++l)
    {
      pw *= K;
      total += pw;
    }
  if (idx >= total)
    return false;
  uint64_t r = idx;
  int len = 1;
  pw = K;
  while (r >= pw)
    {
      r -= pw;
      pw *= K;
      ++len;
    }
  json ops = json::array();
  for (int i = 0; i < len; ++i)
    {
      const Conc& o = al[r % K];
      r /= K;
      ops.push_back({ o.code, o.a, o.b, o.c, o.d });
    }
  c = json::object();
  c["kind"] = 2;
  c["ops"] = ops;
  return true;
}

bool
enumerate(uint64_t idx, int tier, json& c)
{
  const uint64_t K = conc.size();
  const int L = tier == 1 ? 4 : 3;
  const int kinds[3] = { 0, 1, 4 };
  // idx -> (kind, length, digits)
  uint64_t per_kind = 0;
  uint64_t pw = 1;
  for (int l = 1; l <= L; ++l)
    {
      pw *= K;
      per_kind += pw;
    }
  if (idx >= per_kind * 3)
    return enumerate2(idx - per_kind * 3, tier, c);
  const int kind = kinds[idx / per_kind];
  uint64_t r = idx % per_kind;
  int len = 1;
  pw = K;
  while (r >= pw)
    {
      r -= pw;
      pw *= K;
      ++len;
    }
  json ops = json::array();
  for (int i = 0; i < len; ++i)
    {
      const Conc& o = conc[r % K];
      r /= K;
      ops.push_back({ o.code, o.a, o.b, o.c, o.d });
    }
  c = json::object();
  c["kind"] = kind;
  c["ops"] = ops;
  return true;
}

bool
nontrivial(const json& c)
{
  // a shrinking resize followed by a growing one, an assignment, or a binary op
  bool shrink = false, regrow = false, assign = false, bin = false;
  for (auto& op : c["ops"])
    {
      const int code = op[0].get<int>();
      if (code == 5)
        {
          if (shrink)
            regrow = true;
          shrink = true;
        }
      if (code == 6 && shrink)
        regrow = true;
      if (code == 3 || code == 4 || code == 2)
        assign = true;
      if (code == 14 || code == 17 || code == 23 || code == 24)
        bin = true;
    }
  return regrow || assign || bin;
}

} // namespace

const Property&
the_property()
{
  static Property p;
  p.id = "C11";
  p.gen = gen;
  p.check = check;
  p.nontrivial = nontrivial;
  p.enumerate = enumerate;
  p.rule = "";
  p.shrink_lists = { "ops" };
  return p;
}

// C11 — arrays are index-range maps under any history and stay in bounds.
// Model-based: every operation is applied to the STIR object and to a reference model
// (index range + values, "undefined" marks for elements STIR leaves default-initialised);
// after every step the whole object is compared with the model through several read paths.
#include "verif.h"
#include "stir/VectorWithOffset.h"
#include "stir/NumericVectorWithOffset.h"
#include "stir/Array.h"
#include "stir/IndexRange.h"
#include "stir/BasicCoordinate.h"
#include "stir/shared_ptr.h"
#include <memory>
#include <optional>
#include <iostream>
#include <cstdlib>

using namespace vf;
using stir::Array;
using stir::IndexRange;
using stir::VectorWithOffset;

namespace {

// ---- element type that counts live objects -------------------------------------------------
struct Counted
{
  static long live;
  static long bad; // destruction of a dead object / use of a dead object
  int v;
  int magic;
  Counted() : v(0), magic(0x5a5a) { ++live; }
  Counted(int x) : v(x), magic(0x5a5a) { ++live; }
  Counted(const Counted& o) : v(o.v), magic(0x5a5a)
  {
    if (o.magic != 0x5a5a)
      ++bad;
    ++live;
  }
  Counted& operator=(const Counted& o)
  {
    if (o.magic != 0x5a5a || magic != 0x5a5a)
      ++bad;
    v = o.v;
    return *this;
  }
  ~Counted()
  {
    if (magic != 0x5a5a)
      ++bad;
    magic = 0;
    --live;
  }
  Counted& operator+=(const Counted& o) { v += o.v; return *this; }
  Counted& operator-=(const Counted& o) { v -= o.v; return *this; }
  Counted& operator*=(const Counted& o) { v *= o.v; return *this; }
  Counted& operator/=(const Counted& o) { v = o.v ? v / o.v : 0; return *this; }
  bool operator==(const Counted& o) const { return v == o.v; }
  bool operator<(const Counted& o) const { return v < o.v; }
  bool operator>(const Counted& o) const { return v > o.v; }
};
long Counted::live = 0;
long Counted::bad = 0;

template <class T> T mk(int x) { return T(x); }
template <class T> bool same(const T& a, const T& b) { return a == b; }
template <> bool same<float>(const float& a, const float& b) { return a == b || (std::isnan(a) && std::isnan(b)); }

// =============================================================================================
// 1-D interpreter
template <class T>
struct M1
{ // model: elements min..min+v.size()-1; def[i]=false where STIR leaves the value unspecified
  int min = 0;
  std::vector<T> v;
  std::vector<char> def;
  int max() const { return min + int(v.size()) - 1; }
  bool empty() const { return v.empty(); }
  void resize(int nmin, int nmax, bool zero_new)
  {
    if (nmin > nmax)
      {
        v.clear();
        def.clear();
        min = 0;
        return;
      }
    std::vector<T> nv(std::size_t(nmax - nmin + 1), mk<T>(0));
    std::vector<char> nd(nv.size(), zero_new ? 1 : 0);
    for (int i = nmin; i <= nmax; ++i)
      if (!empty() && i >= min && i <= max())
        {
          nv[std::size_t(i - nmin)] = v[std::size_t(i - min)];
          nd[std::size_t(i - nmin)] = def[std::size_t(i - min)];
        }
    v.swap(nv);
    def.swap(nd);
    min = nmin;
  }
};

struct OpCtx
{
  std::string where;
};

template <class Vec, class T, bool is_array, bool zero_new_>
struct Interp1
{
  static constexpr int NS = 3;
  std::unique_ptr<Vec> o[NS];
  M1<T> m[NS];
  // memory view (only for Array<1,float>): slot 0 may view buf
  stir::shared_ptr<T[]> buf;
  int buf_len = 0;
  bool view_attached[NS] = { false, false, false }; // model: must still alias
  bool may_alias[NS] = { false, false, false };

  Interp1()
  {
    for (int s = 0; s < NS; ++s)
      o[s].reset(new Vec());
  }

  Result compare(int s, const char* after)
  {
    const Vec& x = *o[s];
    const M1<T>& mm = m[s];
    VF_CHECK(x.size() == mm.v.size(), after, " slot ", s, " size ", x.size(), " model ", mm.v.size());
    VF_CHECK(x.get_length() == int(mm.v.size()), after, " get_length");
    VF_CHECK(x.empty() == mm.empty(), after, " empty()");
    if (!mm.empty())
      {
        VF_CHECK(x.get_min_index() == mm.min, after, " slot ", s, " min_index ", x.get_min_index(), " model ", mm.min);
        VF_CHECK(x.get_max_index() == mm.max(), after, " slot ", s, " max_index ", x.get_max_index(), " model ", mm.max());
      }
    else
      {
        // an empty vector must report an empty index range (which one is not specified by the property)
        VF_CHECK(x.get_max_index() == x.get_min_index() - 1, after, " empty vector must report an empty range, got ", x.get_min_index(), "..",
                 x.get_max_index());
        // ... and equality must reflect the contents: it equals a default-constructed empty vector
        VF_CHECK(x == Vec(), after, " empty vector does not compare equal to an empty vector (reports range ", x.get_min_index(), "..",
                 x.get_max_index(), ")");
      }
    VF_CHECK(x.capacity() >= x.size(), after, " capacity<size");
    // path 1: operator[]
    for (int i = mm.min; i <= mm.max(); ++i)
      if (mm.def[std::size_t(i - mm.min)])
        VF_CHECK(same(x[i], mm.v[std::size_t(i - mm.min)]), after, " slot ", s, " [", i, "] differs from model");
    // path 2: iteration visits exactly the elements in order
    {
      std::size_t k = 0;
      for (auto it = x.begin(); it != x.end(); ++it, ++k)
        {
          VF_CHECK(k < mm.v.size(), after, " iteration too long");
          if (mm.def[k])
            VF_CHECK(same(*it, mm.v[k]), after, " iterator element ", k);
          VF_CHECK(&*it == &x[mm.min + int(k)], after, " iterator address");
        }
      VF_CHECK(k == mm.v.size(), after, " iteration visited ", k, " of ", mm.v.size());
      k = 0;
      for (auto it = x.rbegin(); it != x.rend(); ++it, ++k)
        {
          VF_CHECK(k < mm.v.size(), after, " reverse iteration too long");
          if (mm.def[mm.v.size() - 1 - k])
            VF_CHECK(same(*it, mm.v[mm.v.size() - 1 - k]), after, " reverse iterator element ", k);
        }
      VF_CHECK(k == mm.v.size(), after, " reverse iteration count");
    }
    return Result::pass();
  }

  template <class V = Vec>
  Result compare_array_extras(int s, const char* after)
  {
    if constexpr (is_array)
      {
        const Vec& x = *o[s];
        const M1<T>& mm = m[s];
        VF_CHECK(x.size_all() == mm.v.size(), after, " size_all");
        const IndexRange<1> r = x.get_index_range();
        VF_CHECK(mm.empty() ? (r.get_length() == 0) : (r.get_min_index() == mm.min && r.get_max_index() == mm.max()), after,
                 " get_index_range");
        std::size_t k = 0;
        for (auto it = x.begin_all(); it != x.end_all(); ++it, ++k)
          VF_CHECK(k < mm.v.size() && same(*it, mm.v[k]), after, " begin_all element ", k);
        VF_CHECK(k == mm.v.size(), after, " begin_all count");
        double acc = 0;
        for (auto& e : mm.v)
          acc += e;
        VF_CHECK(same(x.sum(), float(acc)), after, " sum ", x.sum(), " model ", float(acc));
        if (!mm.empty())
          {
            bool anynan = false;
            for (auto& e : mm.v)
              anynan = anynan || std::isnan(e);
            if (!anynan)
              {
                VF_CHECK(x.find_max() == *std::max_element(mm.v.begin(), mm.v.end()), after, " find_max");
                VF_CHECK(x.find_min() == *std::min_element(mm.v.begin(), mm.v.end()), after, " find_min");
              }
          }
        VF_CHECK(x.is_regular(), after, " is_regular");
        VF_CHECK(x.is_contiguous(), after, " is_contiguous");
        // aliasing with the shared buffer
        if (buf && may_alias[s])
          {
            Vec& xx = *o[s];
            const T* p = mm.empty() ? nullptr : &x[mm.min];
            const bool inside = p && p >= buf.get() && p + mm.v.size() <= buf.get() + buf_len;
            if (view_attached[s] && !mm.empty())
              VF_CHECK(inside, after, " view must still alias the shared buffer (no resize beyond it happened)");
            if (inside)
              {
                // exact aliasing both ways
                const std::size_t off = std::size_t(p - buf.get());
                for (std::size_t i = 0; i < mm.v.size(); ++i)
                  VF_CHECK(same(buf[std::ptrdiff_t(off + i)], mm.v[i]), after, " buffer does not show the array's value");
                buf[std::ptrdiff_t(off)] = mk<T>(77);
                VF_CHECK(same(xx[mm.min], mk<T>(77)), after, " array does not show a write to the buffer");
                buf[std::ptrdiff_t(off)] = mm.v[0];
              }
            else
              view_attached[s] = false;
          }
      }
    return Result::pass();
  }

  Result compare_all(const char* after)
  {
    for (int s = 0; s < NS; ++s)
      {
        Result r = compare(s, after);
        if (r.failed())
          return r;
        r = compare_array_extras(s, after);
        if (r.failed())
          return r;
      }
    return Result::pass();
  }

  // decode a range from two small ints: min in [-4,4], length in [0,6]
  static void decode_range(long a, long b, int& mn, int& mx)
  {
    mn = int(((a % 9) + 9) % 9) - 4;
    const int len = int(((b % 7) + 7) % 7);
    mx = mn + len - 1;
  }

  Result apply(const json& op, int idx)
  {
    const int code = op[0].get<int>();
    const long a = op[1].get<long>(), b = op[2].get<long>(), c = op[3].get<long>(), d = op[4].get<long>();
    const int s = int(((a % NS) + NS) % NS);
    const int t = int(((b % NS) + NS) % NS);
    Vec& x = *o[s];
    M1<T>& mx_ = m[s];
    const std::string tag = cat("op#", idx, " code ", code);
    const char* after = tag.c_str();
    constexpr bool zero_new = zero_new_;
    switch (code)
      {
      case 0: { // construct(range)
        int mn, mxi;
        decode_range(c, d, mn, mxi);
        o[s].reset(new Vec(mn, mxi));
        mx_ = M1<T>();
        mx_.resize(mn, mxi, zero_new);
        view_attached[s] = may_alias[s] = false;
        break;
      }
      case 1: { // copy construct s from t
        if (s == t)
          break;
        o[s].reset(new Vec(*o[t]));
        m[s] = m[t];
        view_attached[s] = may_alias[s] = false;
        break;
      }
      case 2: { // move construct s from t; t must stay valid (state unspecified): resync t's model from what it reports
        if (s == t)
          break;
        std::unique_ptr<Vec> n(new Vec(std::move(*o[t])));
        o[s] = std::move(n);
        m[s] = m[t];
        view_attached[s] = view_attached[t];
        may_alias[s] = may_alias[t];
        view_attached[t] = may_alias[t] = false;
        Result r = resync(t, after);
        if (r.failed())
          return r;
        break;
      }
      case 3: { // copy assign
        *o[s] = *o[t];
        m[s] = m[t];
        if (s != t)
          view_attached[s] = false; // may or may not still alias (capacity dependent): only exactness is checked
        break;
      }
      case 4: { // move assign
        if (s == t)
          break;
        *o[s] = std::move(*o[t]);
        m[s] = m[t];
        view_attached[s] = false;
        may_alias[s] = may_alias[s] || may_alias[t];
        Result r = resync(t, after);
        if (r.failed())
          return r;
        break;
      }
      case 5: { // resize
        int mn, mxi;
        decode_range(c, d, mn, mxi);
        if (view_attached[s] && !(mn <= mxi && (mxi - mn + 1) <= int(x.capacity()) && fits_capacity(x, mn, mxi)))
          view_attached[s] = false;
        x.resize(mn, mxi);
        mx_.resize(mn, mxi, zero_new);
        break;
      }
      case 6: { // grow (must cover the current range unless empty)
        int mn, mxi;
        decode_range(c, d, mn, mxi);
        if (!mx_.empty())
          {
            mn = std::min(mn, mx_.min);
            mxi = std::max(mxi, mx_.max());
          }
        if (mn > mxi)
          break; // grow to an empty range on an empty vector: skip (grow(unsigned 0) wraps)
        if (view_attached[s] && !fits_capacity(x, mn, mxi))
          view_attached[s] = false;
        x.grow(mn, mxi);
        mx_.resize(mn, mxi, zero_new);
        break;
      }
      case 7: { // reserve: no observable change
        int mn, mxi;
        decode_range(c, d, mn, mxi);
        if (mn > mxi)
          break; // reserving an empty range is not a meaningful request
        if (view_attached[s] && !fits_capacity_union(x, mn, mxi))
          view_attached[s] = false;
        x.reserve(mn, mxi);
        break;
      }
      case 8: { // recycle
        x.recycle();
        mx_ = M1<T>();
        view_attached[s] = may_alias[s] = false;
        break;
      }
      case 9: { // set_offset / set_min_index
        const int nm = int(((c % 11) + 11) % 11) - 5;
        if (d & 1)
          x.set_offset(nm);
        else
          x.set_min_index(nm);
        if (!mx_.empty())
          mx_.min = nm;
        break;
      }
      case 10: { // fill
        const T val = mk<T>(int(c % 50));
        x.fill(val);
        for (auto& e : mx_.v)
          e = val;
        std::fill(mx_.def.begin(), mx_.def.end(), 1);
        break;
      }
      case 11: { // element write via []
        if (mx_.empty())
          break;
        const int i = mx_.min + int(((c % long(mx_.v.size())) + long(mx_.v.size())) % long(mx_.v.size()));
        const T val = mk<T>(int(d % 50));
        x[i] = val;
        mx_.v[std::size_t(i - mx_.min)] = val;
        mx_.def[std::size_t(i - mx_.min)] = 1;
        break;
      }
      case 12: { // at(): inside returns the element, outside throws std::out_of_range and changes nothing
        const int i = (mx_.empty() ? 0 : mx_.min) + int(c % 12) - 3;
        const bool inside = !mx_.empty() && i >= mx_.min && i <= mx_.max();
        stir_verif::asserts_on = false; // only the library's own error reporting counts
        bool threw = false;
        try
          {
            T& r = x.at(i);
            if (inside && mx_.def[std::size_t(i - mx_.min)])
              {
                stir_verif::asserts_on = true;
                VF_CHECK(same(r, mx_.v[std::size_t(i - mx_.min)]), after, " at(", i, ") value");
              }
          }
        catch (const std::out_of_range&)
          {
            threw = true;
          }
        stir_verif::asserts_on = true;
        VF_CHECK(threw == !inside, after, " at(", i, ") inside=", inside, " threw=", threw, " range ", mx_.min, "..", mx_.max());
        const Vec& cx = x;
        threw = false;
        try
          {
            (void)cx.at(i);
          }
        catch (const std::out_of_range&)
          {
            threw = true;
          }
        VF_CHECK(threw == !inside, after, " const at(", i, ")");
        break;
      }
      case 13: { // data pointer access
        if (mx_.empty())
          break;
        T* p = x.get_data_ptr();
        const std::size_t k = std::size_t(((c % long(mx_.v.size())) + long(mx_.v.size())) % long(mx_.v.size()));
        const T val = mk<T>(int(d % 50));
        p[k] = val;
        x.release_data_ptr();
        mx_.v[k] = val;
        mx_.def[k] = 1;
        const T* q = x.get_const_data_ptr();
        VF_CHECK(q == &x[mx_.min], after, " get_const_data_ptr address");
        x.release_const_data_ptr();
        break;
      }
      case 14: { // binary arithmetic with slot t
        Result r = binary(s, t, int(((c % 4) + 4) % 4), after);
        if (r.failed())
          return r;
        break;
      }
      case 15: { // == and !=
        const bool eq_model = m[s].v.size() == m[t].v.size() && (m[s].empty() || m[s].min == m[t].min)
                              && all_defined(m[s]) && all_defined(m[t])
                              && std::equal(m[s].v.begin(), m[s].v.end(), m[t].v.begin(), [](const T& p, const T& q) { return p == q; });
        if (all_defined(m[s]) && all_defined(m[t]))
          {
            VF_CHECK((*o[s] == *o[t]) == eq_model, after, " operator== gives ", (*o[s] == *o[t]), " model ", eq_model);
            VF_CHECK((*o[s] != *o[t]) == !eq_model, after, " operator!=");
          }
        break;
      }
      case 16: { // thresholds
        if (!all_defined(mx_))
          break;
        const T lo = mk<T>(int(c % 20)), hi = mk<T>(int(c % 20) + int(d % 20));
        x.apply_lower_threshold(lo);
        x.apply_upper_threshold(hi);
        for (auto& e : mx_.v)
          {
            if (e < lo)
              e = lo;
            if (hi < e)
              e = hi;
          }
        break;
      }
      case 17: { // scalar arithmetic / xapyb (arrays only)
        Result r = numeric_ops(s, t, c, d, after);
        if (r.failed())
          return r;
        break;
      }
      case 18: { // construct a view on the shared buffer (arrays only), slot 0
        Result r = make_view(c, d, after);
        if (r.failed())
          return r;
        break;
      }
      default:
        break;
      }
    return compare_all(after);
  }

  static bool all_defined(const M1<T>& mm) { return std::all_of(mm.def.begin(), mm.def.end(), [](char ch) { return ch != 0; }); }

  static bool fits_capacity(const Vec& x, int mn, int mxi)
  { // conservative: the new range lies inside the currently allocated index window
    if (x.size() == 0)
      return (mxi - mn + 1) <= int(x.capacity());
    return mn >= x.get_capacity_min_index() && mxi <= x.get_capacity_max_index();
  }
  static bool fits_capacity_union(const Vec& x, int mn, int mxi)
  {
    if (x.size() == 0)
      return (mxi - mn + 1) <= int(x.capacity());
    return std::min(mn, x.get_capacity_min_index()) >= x.get_capacity_min_index()
           && std::max(mxi, x.get_capacity_max_index()) <= x.get_capacity_max_index();
  }

  Result resync(int t, const char* after)
  { // moved-from object: valid but unspecified; adopt what it reports after checking self-consistency
    Vec& y = *o[t];
    VF_CHECK(int(y.size()) == y.get_max_index() - y.get_min_index() + 1, after, " moved-from object inconsistent size/range");
    std::size_t k = 0;
    for (auto it = y.begin(); it != y.end(); ++it)
      ++k;
    VF_CHECK(k == y.size(), after, " moved-from object iteration count");
    M1<T> nm;
    if (y.size() > 0)
      {
        nm.min = y.get_min_index();
        for (int i = y.get_min_index(); i <= y.get_max_index(); ++i)
          {
            nm.v.push_back(y[i]);
            nm.def.push_back(zero_new_ ? 1 : 0); // contents of a moved-from plain vector are unspecified
          }
      }
    m[t] = nm;
    return Result::pass();
  }

  Result binary(int s, int t, int which, const char* after)
  {
    Vec& x = *o[s];
    const Vec& y = *o[t];
    M1<T>& ms = m[s];
    const M1<T> mt = m[t];
    if (!all_defined(ms) || !all_defined(mt))
      return Result::pass();
    auto do_op = [&](T& l, const T& r) {
      switch (which)
        {
        case 0: l += r; break;
        case 1: l -= r; break;
        case 2: l *= r; break;
        default: l /= r; break;
        }
    };
    const bool same_range = ms.v.size() == mt.v.size() && (ms.empty() || ms.min == mt.min);
    if constexpr (std::is_same<T, int>::value)
      { // integer division by zero is the caller's error, not the container's
        if (which == 3 && std::any_of(mt.v.begin(), mt.v.end(), [](const T& e) { return e == 0; }))
          return Result::pass();
        // so is signed overflow of the element type (undefined behaviour of int arithmetic, found by UBSan after ~100
        // operations of a thorough-tier history): the operation is skipped when a result could leave +-2^30
        double as = 0, at = 0;
        for (const T& e : ms.v)
          as = std::max(as, std::fabs(double(e)));
        for (const T& e : mt.v)
          at = std::max(at, std::fabs(double(e)));
        const double bound = which == 2 ? as * at : (which == 3 ? as : as + at);
        if (bound > 1073741824.)
          {
            stats().count("binary op skipped: int result could overflow (caller's error)");
            return Result::pass();
          }
      }
    if constexpr (is_array)
      {
        if (which == 3)
          { // avoid integer-valued zero divisors only to keep NaN/Inf out of min/max; still legal floats
          }
        // documented: grows automatically to the hull; new elements are T() (0) before the operation;
        // an empty left operand becomes v (+=), -v (-=), 0*v (*=, /=)
        M1<T> res;
        if (ms.empty())
          {
            res = mt;
            for (auto& e : res.v)
              {
                if (which == 1)
                  e *= T(-1);
                else if (which >= 2)
                  e *= T(0);
              }
          }
        else
          {
            res = ms;
            // documented: "grow the vector automatically if the 2nd argument has smaller min_index and/or larger
            // max_index"; an empty 2nd argument reports the range 0..-1, so the hull can include index 0
            const int tmin = mt.empty() ? 0 : mt.min, tmax = mt.empty() ? -1 : mt.max();
            res.resize(std::min(ms.min, tmin), std::max(ms.max(), tmax), true);
            for (int i = tmin; i <= tmax; ++i)
              do_op(res.v[std::size_t(i - res.min)], mt.v[std::size_t(i - mt.min)]);
          }
        if (view_attached[s] && !(res.v.size() == ms.v.size()))
          view_attached[s] = false;
        switch (which)
          {
          case 0: x += y; break;
          case 1: x -= y; break;
          case 2: x *= y; break;
          default: x /= y; break;
          }
        ms = res;
        if (s == t)
          m[t] = res;
      }
    else
      {
        // plain VectorWithOffset: ranges must match, otherwise error() and nothing changes
        const M1<T> before_s = ms;
        stir_verif::asserts_on = false;
        bool threw = false;
        try
          {
            switch (which)
              {
              case 0: x += y; break;
              case 1: x -= y; break;
              case 2: x *= y; break;
              default: x /= y; break;
              }
          }
        catch (const std::exception&)
          {
            threw = true;
          }
        stir_verif::asserts_on = true;
        if (same_range)
          {
            VF_CHECK(!threw, after, " binary op on equal ranges threw");
            if (s == t)
              {
                for (auto& e : ms.v)
                  {
                    const T r = e;
                    do_op(e, r);
                  }
              }
            else
              for (std::size_t i = 0; i < ms.v.size(); ++i)
                do_op(ms.v[i], mt.v[i]);
          }
        else
          {
            VF_CHECK(threw, after, " binary op ", which, " on incompatible ranges [", before_s.min, ",", before_s.max(), "] vs [", mt.min, ",",
                     mt.max(), "] was not reported as an error");
            ms = before_s; // and nothing may have changed (checked by compare_all)
          }
      }
    return Result::pass();
  }

  Result numeric_ops(int s, int t, long c, long d, const char* after)
  {
    if constexpr (is_array)
      {
        Vec& x = *o[s];
        M1<T>& ms = m[s];
        const int which = int(((c % 7) + 7) % 7);
        const T val = T(int(d % 9) - 4);
        if constexpr (std::is_same<T, int>::value)
          { // signed overflow of the element type is the caller's error (see binary()): every result here is at most
            // 4*|x| + 4*|y| + 4, so operands beyond 2^27 are not operated on any further
            double a = 0;
            for (int k : { s, t, (t + 1) % NS })
              for (const T& e : m[k].v)
                a = std::max(a, std::fabs(double(e)));
            if (a > 134217728.)
              {
                stats().count("numeric op skipped: int result could overflow (caller's error)");
                return Result::pass();
              }
          }
        switch (which)
          {
          case 0: x += val; for (auto& e : ms.v) e += val; break;
          case 1: x -= val; for (auto& e : ms.v) e -= val; break;
          case 2: x *= val; for (auto& e : ms.v) e *= val; break;
          case 3:
            if (val != 0)
              {
                x /= val;
                for (auto& e : ms.v)
                  e /= val;
              }
            break;
          case 4:
          case 5: { // xapyb / sapyb with slot t (and u = third slot): mismatching ranges are an error and change nothing
            const int u = (t + 1) % NS;
            const M1<T> mt = m[t], mu = m[u];
            auto same_r = [](const M1<T>& p, const M1<T>& q) { return p.v.size() == q.v.size() && (p.empty() || p.min == q.min); };
            const T aa = T(int(d % 5) - 2), bb = T(int((d / 5) % 5) - 2);
            bool threw = false;
            stir_verif::asserts_on = false;
            try
              {
                if (which == 4)
                  x.xapyb(*o[t], aa, *o[u], bb);
                else
                  x.sapyb(aa, *o[t], bb);
              }
            catch (const std::exception&)
              {
                threw = true;
              }
            stir_verif::asserts_on = true;
            const bool ok = which == 4 ? (same_r(ms, mt) && same_r(ms, mu)) : same_r(ms, mt);
            VF_CHECK(threw == !ok, after, " xapyb/sapyb: ranges compatible=", ok, " threw=", threw);
            if (ok)
              {
                M1<T> res = ms;
                for (std::size_t i = 0; i < ms.v.size(); ++i)
                  res.v[i] = which == 4 ? (mt.v[i] * aa + mu.v[i] * bb) : (ms.v[i] * aa + mt.v[i] * bb);
                ms = res;
                if (s == t)
                  m[t] = res;
                if (which == 4 && s == u)
                  m[u] = res;
              }
            break;
          }
          default: { // operator+ etc. returning new objects
            if (m[t].empty() || ms.empty())
              break;
            Vec r = x + *o[t];
            M1<T> res = ms;
            res.resize(std::min(ms.min, m[t].min), std::max(ms.max(), m[t].max()), true);
            for (int i = m[t].min; i <= m[t].max(); ++i)
              res.v[std::size_t(i - res.min)] += m[t].v[std::size_t(i - m[t].min)];
            VF_CHECK(r.size() == res.v.size() && r.get_min_index() == res.min, after, " operator+ range");
            for (int i = res.min; i <= res.max(); ++i)
              VF_CHECK(same(r[i], res.v[std::size_t(i - res.min)]), after, " operator+ value at ", i);
            break;
          }
          }
      }
    return Result::pass();
  }

  Result make_view(long c, long d, const char* after)
  {
    if constexpr (is_array)
      {
        int mn, mxi;
        decode_range(c, d, mn, mxi);
        if (mn > mxi)
          return Result::pass();
        // detach every previous viewer first: a fresh buffer per view keeps the model simple
        for (int s = 0; s < NS; ++s)
          if (may_alias[s])
            {
              o[s].reset(new Vec());
              m[s] = M1<T>();
              may_alias[s] = view_attached[s] = false;
            }
        buf_len = mxi - mn + 1;
        buf = stir::shared_ptr<T[]>(new T[std::size_t(buf_len)]);
        for (int i = 0; i < buf_len; ++i)
          buf[i] = T(i + 1);
        o[0].reset(new Vec(IndexRange<1>(mn, mxi), buf));
        m[0] = M1<T>();
        m[0].resize(mn, mxi, true);
        for (int i = 0; i < buf_len; ++i)
          m[0].v[std::size_t(i)] = T(i + 1);
        may_alias[0] = view_attached[0] = true;
      }
    return Result::pass();
  }

  Result run(const json& ops)
  {
    int idx = 0;
    for (const auto& op : ops)
      {
        Result r = apply(op, idx++);
        if (r.failed())
          return r;
      }
    return Result::pass();
  }
};

// =============================================================================================
// multi-dimensional interpreter (Array<2,float>, Array<3,float>): nested model
struct MN
{ // D>=2: sub non-leaf; D==1: leaf values
  int min = 0;
  std::vector<MN> sub;
  std::vector<float> v;
  int dim = 1;
  std::size_t n() const { return dim == 1 ? v.size() : sub.size(); }
  int max() const { return min + int(n()) - 1; }
  std::size_t size_all() const
  {
    if (dim == 1)
      return v.size();
    std::size_t a = 0;
    for (auto& s : sub)
      a += s.size_all();
    return a;
  }
};
struct RN
{ // nested range
  int min = 0, max = -1;
  std::vector<RN> sub;
};

static RN
gen_range(SplitMix& g, int dim, bool regular)
{
  RN r;
  r.min = int(g.range(-2, 2));
  const int len = int(g.range(0, 3));
  r.max = r.min + len - 1;
  if (len == 0)
    r.min = 0, r.max = -1;
  if (dim > 1)
    {
      RN proto;
      if (regular)
        proto = gen_range(g, dim - 1, true);
      for (int i = 0; i < len; ++i)
        r.sub.push_back(regular ? proto : gen_range(g, dim - 1, false));
    }
  return r;
}

static std::string
show_range(const RN& r)
{
  std::string s = "[" + std::to_string(r.min) + ".." + std::to_string(r.max);
  for (auto& k : r.sub)
    s += " " + show_range(k);
  return s + "]";
}
static bool dbg() { static bool d = std::getenv("VERIF_DEBUG") != nullptr; return d; }

template <int D>
static IndexRange<D>
to_index_range(const RN& r)
{
  if constexpr (D == 1)
    return IndexRange<1>(r.min, r.max);
  else
    {
      VectorWithOffset<IndexRange<D - 1>> v(r.min, r.max);
      for (int i = r.min; i <= r.max; ++i)
        v[i] = to_index_range<D - 1>(r.sub[std::size_t(i - r.min)]);
      return IndexRange<D>(v);
    }
}

static void
model_resize(MN& m, const RN& r, int dim)
{
  m.dim = dim;
  if (r.min > r.max)
    {
      m.sub.clear();
      m.v.clear();
      m.min = 0;
      return;
    }
  if (dim == 1)
    {
      std::vector<float> nv(std::size_t(r.max - r.min + 1), 0.F);
      for (int i = r.min; i <= r.max; ++i)
        if (!m.v.empty() && i >= m.min && i <= m.max())
          nv[std::size_t(i - r.min)] = m.v[std::size_t(i - m.min)];
      m.v.swap(nv);
      m.min = r.min;
    }
  else
    {
      std::vector<MN> ns(std::size_t(r.max - r.min + 1));
      for (int i = r.min; i <= r.max; ++i)
        {
          MN& dst = ns[std::size_t(i - r.min)];
          dst.dim = dim - 1;
          if (!m.sub.empty() && i >= m.min && i <= m.max())
            dst = m.sub[std::size_t(i - m.min)];
          model_resize(dst, r.sub[std::size_t(i - r.min)], dim - 1);
        }
      m.sub.swap(ns);
      m.min = r.min;
    }
}

static void
model_flatten(const MN& m, std::vector<float>& out)
{
  if (m.dim == 1)
    out.insert(out.end(), m.v.begin(), m.v.end());
  else
    for (auto& s : m.sub)
      model_flatten(s, out);
}
static void
model_for_each(MN& m, const std::function<void(float&)>& f)
{
  if (m.dim == 1)
    for (auto& e : m.v)
      f(e);
  else
    for (auto& s : m.sub)
      model_for_each(s, f);
}
static bool
model_equal(const MN& a, const MN& b)
{
  if (a.n() != b.n())
    return false;
  if (a.n() == 0)
    return true;
  if (a.min != b.min)
    return false;
  if (a.dim == 1)
    return a.v == b.v;
  for (std::size_t i = 0; i < a.sub.size(); ++i)
    if (!model_equal(a.sub[i], b.sub[i]))
      return false;
  return true;
}
static bool
model_same_range(const MN& a, const MN& b)
{
  if (a.n() != b.n())
    return false;
  if (a.n() == 0)
    return true;
  if (a.min != b.min)
    return false;
  if (a.dim == 1)
    return true;
  for (std::size_t i = 0; i < a.sub.size(); ++i)
    if (!model_same_range(a.sub[i], b.sub[i]))
      return false;
  return true;
}
static float
model_sum(const MN& m)
{ // mirrors the documented accumulation: double accumulator per level, result cast to float
  double acc = 0;
  if (m.dim == 1)
    for (auto e : m.v)
      acc += e;
  else
    for (auto& s : m.sub)
      acc += model_sum(s);
  return float(acc);
}
static bool
model_regular(const MN& m)
{
  if (m.dim == 1)
    return true;
  if (m.sub.empty())
    return true;
  for (auto& s : m.sub)
    {
      if (!model_regular(s))
        return false;
      if (s.n() != m.sub[0].n() || (s.n() > 0 && s.min != m.sub[0].min))
        return false;
      if (s.dim > 1 && s.n() > 0)
        { // deeper levels must agree too
          if (!model_same_range(s, m.sub[0]))
            return false;
        }
    }
  return true;
}
// hull-grow used by += with automatic growing (documented for numeric vectors)
static void
model_binary(MN& a, const MN& b, int which)
{
  auto op = [which](float& l, float r) {
    switch (which)
      {
      case 0: l += r; break;
      case 1: l -= r; break;
      case 2: l *= r; break;
      default: l /= r; break;
      }
  };
  if (a.n() == 0)
    {
      const int dim = a.dim;
      a = b;
      a.dim = dim;
      if (which == 1)
        model_for_each(a, [](float& e) { e *= -1.F; });
      else if (which >= 2)
        model_for_each(a, [](float& e) { e *= 0.F; });
      return;
    }
  // an empty right operand reports the range 0..-1 and still takes part in the documented hull
  const int bmin = b.n() == 0 ? 0 : b.min, bmax = b.n() == 0 ? -1 : b.max();
  const int nmin = std::min(a.min, bmin), nmax = std::max(a.max(), bmax);
  if (a.dim == 1)
    {
      std::vector<float> nv(std::size_t(nmax - nmin + 1), 0.F);
      for (int i = a.min; i <= a.max(); ++i)
        nv[std::size_t(i - nmin)] = a.v[std::size_t(i - a.min)];
      a.v.swap(nv);
      a.min = nmin;
      for (int i = bmin; i <= bmax; ++i)
        op(a.v[std::size_t(i - nmin)], b.v[std::size_t(i - bmin)]);
    }
  else
    {
      std::vector<MN> ns(std::size_t(nmax - nmin + 1));
      for (auto& s : ns)
        s.dim = a.dim - 1;
      for (int i = a.min; i <= a.max(); ++i)
        ns[std::size_t(i - nmin)] = a.sub[std::size_t(i - a.min)];
      a.sub.swap(ns);
      a.min = nmin;
      for (int i = bmin; i <= bmax; ++i)
        model_binary(a.sub[std::size_t(i - nmin)], b.sub[std::size_t(i - bmin)], which);
    }
}

template <int D>
struct InterpN
{
  typedef Array<D, float> Arr;
  static constexpr int NS = 3;
  std::unique_ptr<Arr> o[NS];
  MN m[NS];
  stir::shared_ptr<float[]> buf;
  std::size_t buf_len = 0;
  int viewer = -1;
  InterpN()
  {
    for (int s = 0; s < NS; ++s)
      {
        o[s].reset(new Arr());
        m[s].dim = D;
      }
  }

  template <int K>
  static Result cmp(const Array<K, float>& x, const MN& mm, const std::string& where)
  {
    VF_CHECK(x.size() == mm.n(), where, " size ", x.size(), " model ", mm.n());
    VF_CHECK(x.empty() == (mm.n() == 0), where, " empty()");
    if (mm.n() > 0)
      VF_CHECK(x.get_min_index() == mm.min && x.get_max_index() == mm.max(), where, " range ", x.get_min_index(), "..", x.get_max_index(),
               " model ", mm.min, "..", mm.max());
    else
      VF_CHECK(x.get_max_index() == x.get_min_index() - 1, where, " empty range");
    if constexpr (K == 1)
      {
        for (int i = mm.min; i <= mm.max(); ++i)
          VF_CHECK(same(x[i], mm.v[std::size_t(i - mm.min)]), where, "[", i, "] = ", x[i], " model ", mm.v[std::size_t(i - mm.min)]);
      }
    else
      {
        for (int i = mm.min; i <= mm.max(); ++i)
          {
            Result r = cmp<K - 1>(x[i], mm.sub[std::size_t(i - mm.min)], where + "[" + std::to_string(i) + "]");
            if (r.failed())
              return r;
          }
      }
    return Result::pass();
  }

  Result compare(int s, const std::string& after)
  {
    const Arr& x = *o[s];
    const MN& mm = m[s];
    Result r = cmp<D>(x, mm, after + " slot " + std::to_string(s));
    if (r.failed())
      return r;
    std::vector<float> flat;
    model_flatten(mm, flat);
    VF_CHECK(x.size_all() == flat.size(), after, " size_all ", x.size_all(), " model ", flat.size());
    // full iteration: each element exactly once, row-major
    {
      std::size_t k = 0;
      for (auto it = x.begin_all(); it != x.end_all(); ++it, ++k)
        {
          VF_CHECK(k < flat.size(), after, " begin_all iteration too long");
          VF_CHECK(same(*it, flat[k]), after, " begin_all element ", k, " = ", *it, " model ", flat[k]);
        }
      VF_CHECK(k == flat.size(), after, " begin_all visited ", k, " of ", flat.size());
      k = 0;
      for (auto it = x.begin_all_const(); it != x.end_all_const(); ++it)
        ++k;
      VF_CHECK(k == flat.size(), after, " begin_all_const count");
    }
    // index range object
    {
      const IndexRange<D> ir = x.get_index_range();
      VF_CHECK(ir.size_all() == flat.size(), after, " get_index_range().size_all()");
      VF_CHECK(mm.n() ? (ir.get_min_index() == mm.min && ir.get_max_index() == mm.max()) : (ir.get_max_index() == ir.get_min_index() - 1), after,
               " get_index_range outer");
      Arr y(ir); // an array constructed from the reported range has the same shape, all zero
      MN z = mm;
      model_for_each(z, [](float& e) { e = 0.F; });
      Result r2 = cmp<D>(y, z, after + " Array(get_index_range())");
      if (r2.failed())
        return r2;
      VF_CHECK(x.is_regular() == ir.is_regular(), after, " is_regular differs between array and its range");
    }
    VF_CHECK(same(x.sum(), model_sum(mm)), after, " sum ", x.sum(), " model ", model_sum(mm));
    if (!flat.empty() && std::none_of(flat.begin(), flat.end(), [](float f) { return std::isnan(f); }))
      {
        bool every_row_nonempty = true;
        check_rows_nonempty(mm, every_row_nonempty);
        if (every_row_nonempty)
          {
            VF_CHECK(x.find_max() == *std::max_element(flat.begin(), flat.end()), after, " find_max");
            VF_CHECK(x.find_min() == *std::min_element(flat.begin(), flat.end()), after, " find_min");
          }
      }
    if (viewer == s && buf)
      {
        // aliasing: if the array's storage is still the buffer, both show each other's values
        if (flat.size() > 0 && x.is_contiguous())
          {
            const float* p = &*x.begin_all();
            if (p >= buf.get() && p + flat.size() <= buf.get() + buf_len)
              {
                const std::size_t off = std::size_t(p - buf.get());
                for (std::size_t i = 0; i < flat.size(); ++i)
                  VF_CHECK(same(buf[std::ptrdiff_t(off + i)], flat[i]), after, " shared buffer does not show array value ", i);
              }
          }
      }
    return Result::pass();
  }
  static void check_rows_nonempty(const MN& mm, bool& ok)
  {
    if (mm.n() == 0)
      ok = false;
    if (mm.dim > 1)
      for (auto& s : mm.sub)
        check_rows_nonempty(s, ok);
  }

  Result compare_all(const std::string& after)
  {
    for (int s = 0; s < NS; ++s)
      {
        Result r = compare(s, after);
        if (r.failed())
          return r;
      }
    return Result::pass();
  }

  // pick the k-th element (row-major) of the model and return its multi-index
  static bool kth_index(const MN& mm, std::size_t k, std::vector<int>& idx)
  {
    if (mm.dim == 1)
      {
        if (k >= mm.v.size())
          return false;
        idx.push_back(mm.min + int(k));
        return true;
      }
    for (std::size_t i = 0; i < mm.sub.size(); ++i)
      {
        const std::size_t sz = mm.sub[i].size_all();
        if (k < sz)
          {
            idx.push_back(mm.min + int(i));
            return kth_index(mm.sub[i], k, idx);
          }
        k -= sz;
      }
    return false;
  }
  static float& model_at(MN& mm, const std::vector<int>& idx, std::size_t level = 0)
  {
    if (mm.dim == 1)
      return mm.v[std::size_t(idx[level] - mm.min)];
    return model_at(mm.sub[std::size_t(idx[level] - mm.min)], idx, level + 1);
  }
  static bool model_has(const MN& mm, const std::vector<int>& idx, std::size_t level = 0)
  {
    if (mm.n() == 0 || idx[level] < mm.min || idx[level] > mm.max())
      return false;
    if (mm.dim == 1)
      return true;
    return model_has(mm.sub[std::size_t(idx[level] - mm.min)], idx, level + 1);
  }
  static stir::BasicCoordinate<D, int> coord(const std::vector<int>& idx)
  {
    stir::BasicCoordinate<D, int> cc;
    for (int k = 1; k <= D; ++k)
      cc[k] = idx[std::size_t(k - 1)];
    return cc;
  }

  Result apply(const json& op, int idx)
  {
    const int code = op[0].get<int>();
    const long a = op[1].get<long>(), b = op[2].get<long>(), c = op[3].get<long>(), d = op[4].get<long>();
    const int s = int(((a % NS) + NS) % NS);
    const int t = int(((b % NS) + NS) % NS);
    Arr& x = *o[s];
    MN& ms = m[s];
    const std::string after = cat("op#", idx, " code ", code);
    SplitMix g(uint64_t(c) * 1000003ULL + uint64_t(d));
    switch (code)
      {
      case 0: { // construct from range (regular or irregular)
        const RN r = gen_range(g, D, (d & 1) != 0);
        o[s].reset(new Arr(to_index_range<D>(r)));
        m[s] = MN();
        m[s].dim = D;
        model_resize(m[s], r, D);
        if (viewer == s)
          viewer = -1;
        break;
      }
      case 1: // copy construct
        if (s != t)
          {
            o[s].reset(new Arr(*o[t]));
            m[s] = m[t];
            if (viewer == s)
              viewer = -1;
          }
        break;
      case 2: // move construct
        if (s != t)
          {
            std::unique_ptr<Arr> n(new Arr(std::move(*o[t])));
            o[s] = std::move(n);
            m[s] = m[t];
            if (viewer == s)
              viewer = -1;
            if (viewer == t)
              viewer = s;
            // moved-from must be valid; we require it to be self-consistent and adopt its state
            Result r = resync(t, after);
            if (r.failed())
              return r;
          }
        break;
      case 3: // copy assign
        *o[s] = *o[t];
        m[s] = m[t];
        if (viewer == s && s != t)
          viewer = -1;
        break;
      case 4: // move assign
        if (s != t)
          {
            *o[s] = std::move(*o[t]);
            m[s] = m[t];
            if (viewer == s)
              viewer = -1;
            if (viewer == t)
              viewer = s;
            Result r = resync(t, after);
            if (r.failed())
              return r;
          }
        break;
      case 5:
      case 6: { // resize / grow to a new (regular or irregular) range; survivors keep values, new elements are 0
        RN r = gen_range(g, D, (d & 1) != 0);
        if (dbg())
          std::cerr << after << " resize to " << show_range(r) << "\n";
        if (code == 5)
          x.resize(to_index_range<D>(r));
        else
          x.grow(to_index_range<D>(r));
        model_resize(ms, r, D);
        break;
      }
      case 10: {
        const float val = float(int(c % 50));
        x.fill(val);
        model_for_each(ms, [val](float& e) { e = val; });
        break;
      }
      case 11: { // element write through nested [] and through BasicCoordinate
        const std::size_t n = ms.size_all();
        if (n == 0)
          break;
        std::vector<int> mi;
        kth_index(ms, std::size_t(((c % long(n)) + long(n)) % long(n)), mi);
        const float val = float(int(d % 50)) + 0.5F;
        if (d & 1)
          x[coord(mi)] = val;
        else
          {
            if constexpr (D == 2)
              x[mi[0]][mi[1]] = val;
            else
              x[mi[0]][mi[1]][mi[2]] = val;
          }
        model_at(ms, mi) = val;
        break;
      }
      case 12: { // at(BasicCoordinate): inside ok, outside std::out_of_range
        std::vector<int> mi;
        for (int k = 0; k < D; ++k)
          mi.push_back(int(g.range(-3, 3)));
        const bool inside = model_has(ms, mi);
        bool threw = false;
        stir_verif::asserts_on = false;
        try
          {
            const float val = x.at(coord(mi));
            if (inside)
              {
                stir_verif::asserts_on = true;
                VF_CHECK(same(val, model_at(ms, mi)), after, " at() value");
              }
          }
        catch (const std::out_of_range&)
          {
            threw = true;
          }
        stir_verif::asserts_on = true;
        VF_CHECK(threw == !inside, after, " at(", mi[0], ",", mi[1], D > 2 ? cat(",", mi[2]) : std::string(), ") inside=", inside,
                 " threw=", threw);
        break;
      }
      case 14: { // binary arithmetic with automatic growing to the hull
        const int which = int(((c % 4) + 4) % 4);
        MN res = ms;
        model_binary(res, m[t], which);
        switch (which)
          {
          case 0: x += *o[t]; break;
          case 1: x -= *o[t]; break;
          case 2: x *= *o[t]; break;
          default: x /= *o[t]; break;
          }
        ms = res;
        if (s == t)
          m[t] = res;
        break;
      }
      case 15: {
        const bool eq = model_equal(m[s], m[t]);
        VF_CHECK((*o[s] == *o[t]) == eq, after, " operator== ", (*o[s] == *o[t]), " model ", eq);
        break;
      }
      case 16: {
        const float lo = float(int(c % 20)), hi = lo + float(int(d % 20));
        x.apply_lower_threshold(lo);
        x.apply_upper_threshold(hi);
        model_for_each(ms, [lo, hi](float& e) {
          if (e < lo)
            e = lo;
          if (e > hi)
            e = hi;
        });
        break;
      }
      case 17: {
        const int which = int(((c % 6) + 6) % 6);
        const float val = float(int(d % 9) - 4);
        if (which == 0)
          {
            x += val;
            model_for_each(ms, [val](float& e) { e += val; });
          }
        else if (which == 1)
          {
            x -= val;
            model_for_each(ms, [val](float& e) { e -= val; });
          }
        else if (which == 2)
          {
            x *= val;
            model_for_each(ms, [val](float& e) { e *= val; });
          }
        else if (which == 3 && val != 0)
          {
            x /= val;
            model_for_each(ms, [val](float& e) { e /= val; });
          }
        else if (which >= 4)
          {
            const int u = (t + 1) % NS;
            const bool ok = which == 4 ? (model_same_range(ms, m[t]) && model_same_range(ms, m[u])) : model_same_range(ms, m[t]);
            const float aa = float(int(d % 5) - 2), bb = float(int((d / 5) % 5) - 2);
            bool threw = false;
            stir_verif::asserts_on = false;
            try
              {
                if (which == 4)
                  x.xapyb(*o[t], aa, *o[u], bb);
                else
                  x.sapyb(aa, *o[t], bb);
              }
            catch (const std::exception&)
              {
                threw = true;
              }
            stir_verif::asserts_on = true;
            VF_CHECK(threw == !ok, after, " xapyb/sapyb compatible=", ok, " threw=", threw);
            if (ok)
              {
                std::vector<float> fs, ft, fu;
                model_flatten(ms, fs);
                model_flatten(m[t], ft);
                model_flatten(m[u], fu);
                std::size_t k = 0;
                MN res = ms;
                model_for_each(res, [&](float& e) {
                  e = which == 4 ? (ft[k] * aa + fu[k] * bb) : (fs[k] * aa + ft[k] * bb);
                  ++k;
                });
                ms = res;
                if (s == t)
                  m[t] = res;
                if (which == 4 && s == u)
                  m[u] = res;
              }
          }
        break;
      }
      case 18: { // view on shared memory (regular or irregular range)
        const RN r = gen_range(g, D, (d & 1) != 0);
        MN tmp;
        tmp.dim = D;
        model_resize(tmp, r, D);
        const std::size_t n = tmp.size_all();
        if (n == 0)
          break;
        if (viewer >= 0)
          {
            o[viewer].reset(new Arr());
            m[viewer] = MN();
            m[viewer].dim = D;
          }
        buf_len = n;
        buf = stir::shared_ptr<float[]>(new float[n]);
        for (std::size_t i = 0; i < n; ++i)
          buf[std::ptrdiff_t(i)] = float(i + 1);
        o[s].reset(new Arr(to_index_range<D>(r), buf));
        std::size_t k = 0;
        model_for_each(tmp, [&k](float& e) { e = float(++k); });
        m[s] = tmp;
        viewer = s;
        // writes to the buffer are visible in the array at once
        buf[0] = 99.F;
        {
          std::vector<int> mi;
          kth_index(m[s], 0, mi);
          model_at(m[s], mi) = 99.F;
        }
        {
          bool rows_nonempty = true;
          check_rows_nonempty(m[s], rows_nonempty);
          if (rows_nonempty) // with empty rows is_contiguous() may conservatively say no
            VF_CHECK(o[s]->is_contiguous(), after, " viewing array must be contiguous");
        }
        break;
      }
      case 19: { // full data pointer: only for contiguous arrays, otherwise error()
        std::vector<float> flat;
        model_flatten(ms, flat);
        if (flat.empty())
          break;
        const bool contig = x.is_contiguous();
        bool threw = false;
        try
          {
            float* p = x.get_full_data_ptr();
            for (std::size_t i = 0; i < flat.size(); ++i)
              VF_CHECK(same(p[i], flat[i]), after, " full data ptr element ", i);
            p[flat.size() - 1] = 7.25F;
            x.release_full_data_ptr();
            std::vector<int> mi;
            kth_index(ms, flat.size() - 1, mi);
            model_at(ms, mi) = 7.25F;
          }
        catch (const std::runtime_error&)
          {
            threw = true;
            x.release_full_data_ptr();
          }
        VF_CHECK(threw == !contig, after, " get_full_data_ptr: contiguous=", contig, " threw=", threw);
        break;
      }
      case 20: { // regular range query
        stir::BasicCoordinate<D, int> mn, mx;
        const bool reg = x.get_regular_range(mn, mx);
        const bool mreg = model_regular(ms);
        VF_CHECK(reg == mreg, after, " get_regular_range ", reg, " model ", mreg);
        VF_CHECK(x.is_regular() == mreg, after, " is_regular");
        if (reg && ms.size_all() > 0)
          {
            std::size_t prod = 1;
            for (int k = 1; k <= D; ++k)
              prod *= std::size_t(mx[k] - mn[k] + 1);
            VF_CHECK(prod == ms.size_all(), after, " regular range volume");
            VF_CHECK(mn[1] == ms.min && mx[1] == ms.max(), after, " regular range outer");
          }
        break;
      }
      default:
        break;
      }
    return compare_all(after);
  }

  template <int K>
  static void read_back(const Array<K, float>& x, MN& mm)
  {
    mm = MN();
    mm.dim = K;
    if (x.size() == 0)
      return;
    mm.min = x.get_min_index();
    if constexpr (K == 1)
      for (int i = x.get_min_index(); i <= x.get_max_index(); ++i)
        mm.v.push_back(x[i]);
    else
      for (int i = x.get_min_index(); i <= x.get_max_index(); ++i)
        {
          MN sub;
          read_back<K - 1>(x[i], sub);
          mm.sub.push_back(sub);
        }
  }
  Result resync(int t, const std::string& after)
  {
    const Arr& y = *o[t];
    VF_CHECK(int(y.size()) == y.get_max_index() - y.get_min_index() + 1, after, " moved-from object inconsistent");
    read_back<D>(y, m[t]);
    return Result::pass();
  }

  Result run(const json& ops)
  {
    int idx = 0;
    for (const auto& op : ops)
      {
        Result r = apply(op, idx++);
        if (r.failed())
          return r;
      }
    return Result::pass();
  }
};

// =============================================================================================
Result
check(const json& c)
{
  const int kind = c["kind"].get<int>();
  const json& ops = c["ops"];
  Result r;
  switch (kind)
    {
    case 0: {
      Interp1<VectorWithOffset<int>, int, false, false> I;
      r = I.run(ops);
      break;
    }
    case 1: {
      Interp1<Array<1, float>, float, true, true> I;
      r = I.run(ops);
      break;
    }
    case 2: {
      InterpN<2> I;
      r = I.run(ops);
      break;
    }
    case 3: {
      InterpN<3> I;
      r = I.run(ops);
      break;
    }
    default: {
      Counted::live = 0;
      Counted::bad = 0;
      {
        Interp1<VectorWithOffset<Counted>, Counted, false, true> I; // Counted() zero-initialises, so new elements are defined (0)
        r = I.run(ops);
      }
      if (!r.failed())
        {
          VF_CHECK(Counted::live == 0, "live element objects after destroying everything: ", Counted::live);
          VF_CHECK(Counted::bad == 0, "dead element objects were used or destroyed twice: ", Counted::bad);
        }
      break;
    }
    }
  return r;
}

// op codes available per kind
const std::vector<int> ops1_plain = { 0, 1, 2, 3, 4, 5, 6, 7, 8, 9, 10, 11, 12, 13, 14, 15, 16 };
const std::vector<int> ops1_array = { 0, 1, 2, 3, 4, 5, 6, 7, 8, 9, 10, 11, 12, 13, 14, 15, 16, 17, 18 };
const std::vector<int> opsN = { 0, 1, 2, 3, 4, 5, 6, 10, 11, 12, 14, 15, 16, 17, 18, 19, 20 };

json
gen(Src& s, int size)
{
  json c;
  const int kind = int(s.range(0, 4));
  c["kind"] = kind;
  const std::vector<int>& al = (kind == 0 || kind == 4) ? ops1_plain : kind == 1 ? ops1_array : opsN;
  const long n = s.range(1, 5 + long(size) * 3);
  json ops = json::array();
  for (long i = 0; i < n; ++i)
    {
      int code = s.pick(al);
      // bias: binary ops and resizes are where the interesting behaviour is
      if (s.chance(1, 4))
        code = s.coin() ? 14 : 5;
      ops.push_back({ code, s.range(0, 2), s.range(0, 2), s.range(0, 62), s.range(0, 62) });
    }
  c["ops"] = ops;
  return c;
}

// bounded-exhaustive: every sequence of length <= L over a concretised alphabet, for kinds 0,1,4
struct Conc
{
  int code;
  long a, b, c, d;
};
const std::vector<Conc> conc = {
  { 0, 0, 0, 4, 3 },  // construct slot0 range [0,2]
  { 0, 1, 0, 3, 3 },  // construct slot1 range [-1,1]
  { 0, 1, 0, 4, 2 },  // construct slot1 range [0,1]
  { 0, 1, 0, 5, 2 },  // construct slot1 range [1,2]
  { 10, 0, 0, 7, 0 }, // fill slot0
  { 10, 1, 0, 3, 0 }, // fill slot1
  { 5, 0, 0, 5, 1 },  // resize slot0 -> [1,1]
  { 5, 0, 0, 2, 5 },  // resize slot0 -> [-2,2]
  { 5, 0, 0, 0, 0 },  // resize slot0 -> empty
  { 6, 0, 0, 3, 5 },  // grow slot0
  { 7, 0, 0, 0, 6 },  // reserve slot0
  { 9, 0, 0, 7, 1 },  // set_offset slot0 -> 2
  { 3, 0, 1, 0, 0 },  // slot0 = slot1
  { 3, 1, 0, 0, 0 },  // slot1 = slot0
  { 2, 1, 0, 0, 0 },  // move construct slot1 from slot0
  { 14, 0, 1, 0, 0 }, // slot0 += slot1
  { 14, 0, 1, 2, 0 }, // slot0 *= slot1
  { 14, 1, 0, 1, 0 }, // slot1 -= slot0
  { 12, 0, 0, 0, 0 }, // at() slot0 below
  { 12, 0, 0, 7, 0 }, // at() slot0 above/inside
  { 8, 0, 0, 0, 0 },  // recycle slot0
  { 13, 0, 0, 1, 9 }, // data ptr write
};

bool
enumerate(uint64_t idx, int tier, json& c)
{
  const uint64_t K = conc.size();
  const int L = tier == 1 ? 4 : 3;
  const int kinds[3] = { 0, 1, 4 };
  // idx -> (kind, length, digits)
  uint64_t per_kind = 0;
  uint64_t pw = 1;
  for (int l = 1; l <= L; ++l)
    {
      pw *= K;
      per_kind += pw;
    }
  if (idx >= per_kind * 3)
    return false;
  const int kind = kinds[idx / per_kind];
  uint64_t r = idx % per_kind;
  int len = 1;
  pw = K;
  while (r >= pw)
    {
      r -= pw;
      pw *= K;
      ++len;
    }
  json ops = json::array();
  for (int i = 0; i < len; ++i)
    {
      const Conc& o = conc[r % K];
      r /= K;
      ops.push_back({ o.code, o.a, o.b, o.c, o.d });
    }
  c = json::object();
  c["kind"] = kind;
  c["ops"] = ops;
  return true;
}

bool
nontrivial(const json& c)
{
  // a shrinking resize followed by a growing one, an assignment, or a binary op
  bool shrink = false, regrow = false, assign = false, bin = false;
  for (auto& op : c["ops"])
    {
      const int code = op[0].get<int>();
      if (code == 5)
        {
          if (shrink)
            regrow = true;
          shrink = true;
        }
      if (code == 6 && shrink)
        regrow = true;
      if (code == 3 || code == 4 || code == 2)
        assign = true;
      if (code == 14 || code == 17)
        bin = true;
    }
  return regrow || assign || bin;
}

} // namespace

const Property&
the_property()
{
  static Property p;
  p.id = "C11";
  p.gen = gen;
  p.check = check;
  p.nontrivial = nontrivial;
  p.enumerate = enumerate;
  p.rule = "";
  p.shrink_lists = { "ops" };
  return p;
}

// C19 checks, part A: transforms (kind 0), 1-D convolution (kind 1), padded-DFT route (kind 2), 2-D/3-D convolution (kind 3)
#pragma once
#include "c19_ref.h"
#include "stir/numerics/fourier.h"
#include "stir/ArrayFilterUsingRealDFTWithPadding.h"
#include "stir/ArrayFilter1DUsingConvolution.h"
#include "stir/ArrayFilter1DUsingConvolutionSymmetricKernel.h"
#include "stir/ArrayFilter2DUsingConvolution.h"
#include "stir/ArrayFilter3DUsingConvolution.h"
#include "stir/Succeeded.h"

namespace c19 {

// ---- tolerances -------------------------------------------------------------------------------------------
// All relative to the stated scale.  Calibrated with stats().maxi over ./check C19 --tier quick, VERIF_SEED=1..5
// (about 200 000 cases incl. all 600 transform shapes); "observed" = maximum seen on the unchanged tree.
// transforms: element-wise |F - Fref| <= TOL * ||x||_2        (float FFT with float twiddles; observed 9.4e-7, 1.2e-6 between the two STIR routes)
constexpr double TOL_DFT = 2e-5;
// Parseval: relative to N * sum|x|^2                            (observed 1.8e-7)
constexpr double TOL_PARSEVAL = 5e-6;
// round trips (complex and real-data routines): element-wise relative to ||x||_2   (observed 2.0e-7)
constexpr double TOL_INV = 5e-6;
// direct convolutions in float: element-wise relative to ||k||_1 * ||x||_inf        (observed 2.1e-7; kernels up to 48 long)
constexpr double TOL_CONV = 1e-5;
// padded-DFT route: element-wise relative to ||k||_1 * ||x||_inf                    (DESIGN: 1e-4; observed 3.8e-7)
constexpr double TOL_DFTCONV = 2e-5;

// =============================================================================================
// kind 0: transforms
template <int D>
Result
check_dft(const json& c)
{
  int lg[3];
  get3(c, "lg", D, lg, 0);
  const int sign = c.at("sign").get<int>();
  const bool real = c.at("real").get<bool>();
  const int pat = c.at("pat").get<int>();
  const uint64_t seed = c.at("seed").get<uint64_t>();
  CNd x;
  for (int a = 0; a < 3; ++a)
    x.len[a] = 1 << lg[a];
  x.alloc();
  const std::size_t N = x.size();
  SplitMix g(seed ^ 0xdf7ULL);
  std::complex<double> amp(1, 0);
  switch (pat)
    {
    case 1:   // impulse at a random position
    case 2: { // impulse at the origin
      amp = real ? std::complex<double>(1.5, 0) : std::complex<double>(0.75, -1.25);
      x.v[pat == 2 ? 0 : std::size_t(g.next() % N)] = amp;
      break;
    }
    case 3:
      for (auto& e : x.v)
        e = real ? std::complex<double>(2.5, 0) : std::complex<double>(2.5, -0.5);
      break;
    case 4:
      for (auto& e : x.v)
        e = std::complex<double>(double(g.range(-4, 4)), real ? 0. : double(g.range(-4, 4)));
      break;
    default:
      for (auto& e : x.v)
        e = std::complex<double>(f32(g.real(-1, 1)), real ? 0. : f32(g.real(-1, 1)));
      break;
    }
  vf::stats().cls(vf::cat("dft ", D, "-D ", real ? "real" : "complex", sign > 0 ? " sign+1" : " sign-1"));
  double e2 = 0;
  for (const auto& e : x.v)
    e2 += std::norm(e);
  const double norm2 = std::sqrt(e2);

  // oracle: direct O(n^2) DFT per axis, double precision
  CNd ref = x;
  for (int a = 3 - D; a < 3; ++a)
    dft_axis(ref, a, sign);

  auto cmp = [&](const CNd& got, const CNd& want, double tol, const char* what, const char* key) -> Result {
    if (!got.same_range(want))
      return Result::fail(vf::cat(what, ": index range ", got.range_str(), " expected ", want.range_str()));
    double worst = 0;
    std::size_t wi = 0;
    for (std::size_t i = 0; i < want.v.size(); ++i)
      {
        const double e = std::abs(got.v[i] - want.v[i]);
        if (!(e <= worst))
          {
            worst = e;
            wi = i;
          }
      }
    if (norm2 > 0)
      vf::stats().maxi(key, worst / norm2);
    if (!(worst <= tol * norm2))
      return Result::fail(vf::cat(what, ": flat index ", wi, " got (", got.v[wi].real(), ",", got.v[wi].imag(), ") expected (", want.v[wi].real(),
                                  ",", want.v[wi].imag(), ") |diff| ", worst, " > ", tol, " * ||x||2=", norm2));
    return Result::pass();
  };
  std::string err;

  // ---- complex-data transform
  stir::Array<D, std::complex<float>> A = to_stir<D, std::complex<float>>(x);
  stir::fourier(A, sign);
  CNd F;
  VF_CHECK((from_stir<D, std::complex<float>>(A, F, err)), "fourier result ", err);
  {
    Result r = cmp(F, ref, TOL_DFT, "fourier() vs direct DFT", "dft: max|F-Fref|/||x||2");
    if (r.failed())
      return r;
  }
  {
    double s = 0;
    for (const auto& e : F.v)
      s += std::norm(e);
    const double want = double(N) * e2;
    if (want > 0)
      vf::stats().maxi("dft: Parseval rel err", std::fabs(s - want) / want);
    VF_CHECK(std::fabs(s - want) <= TOL_PARSEVAL * want, "Parseval: sum|X|^2=", s, " n*sum|x|^2=", want);
  }
  if (pat == 1 || pat == 2)
    {
      double worst = 0;
      for (const auto& e : F.v)
        worst = std::max(worst, std::fabs(std::abs(e) - std::abs(amp)));
      vf::stats().maxi("dft: impulse modulus rel err", worst / std::abs(amp));
      VF_CHECK(worst <= TOL_DFT * std::abs(amp), "transform of an impulse does not have constant modulus: max deviation ", worst);
    }
  stir::inverse_fourier(A, sign);
  {
    CNd B;
    VF_CHECK((from_stir<D, std::complex<float>>(A, B, err)), "inverse_fourier result ", err);
    Result r = cmp(B, x, TOL_INV, "inverse_fourier(fourier(x)) vs x", "dft: round trip err/||x||2");
    if (r.failed())
      return r;
  }
  if (!real)
    return Result::pass();

  // ---- real-data routines
  Nd xr;
  for (int a = 0; a < 3; ++a)
    xr.len[a] = x.len[a];
  xr.alloc();
  for (std::size_t i = 0; i < N; ++i)
    xr.v[i] = x.v[i].real();
  const stir::Array<D, float> R = to_stir<D, float>(xr);
  const stir::Array<D, std::complex<float>> H = stir::fourier_for_real_data(R, sign);
  CNd Hn;
  VF_CHECK((from_stir<D, std::complex<float>>(H, Hn, err)), "fourier_for_real_data result ", err);
  // documented: sizes (n1,...,nd/2+1), zero frequency at index 0
  for (int a = 0; a < 3; ++a)
    VF_CHECK(Hn.mn[a] == 0 && Hn.len[a] == (a == 2 ? x.len[2] / 2 + 1 : x.len[a]), "fourier_for_real_data: result range ", Hn.range_str(),
             " for input lengths ", x.len[0], "x", x.len[1], "x", x.len[2]);
  {
    CNd want = Hn;
    for (int i = 0; i < Hn.len[0]; ++i)
      for (int j = 0; j < Hn.len[1]; ++j)
        for (int k = 0; k < Hn.len[2]; ++k)
          want.at(i, j, k) = ref.at(i, j, k);
    Result r = cmp(Hn, want, TOL_DFT, "fourier_for_real_data vs direct DFT (non-negative frequencies)", "dft: real-data max err/||x||2");
    if (r.failed())
      return r;
  }
  {
    const stir::Array<D, std::complex<float>> ALL = stir::pos_frequencies_to_all(H);
    CNd Fa;
    VF_CHECK((from_stir<D, std::complex<float>>(ALL, Fa, err)), "pos_frequencies_to_all result ", err);
    Result r = cmp(Fa, ref, TOL_DFT, "pos_frequencies_to_all(fourier_for_real_data) vs direct DFT", "dft: pos_freq_to_all max err/||x||2");
    if (r.failed())
      return r;
    r = cmp(Fa, F, 2 * TOL_DFT, "real-data transform vs complex-data transform", "dft: real vs complex route/||x||2");
    if (r.failed())
      return r;
  }
  // length 2 in the last dimension (half length 1) is part of the search: regression replays/C19/fixed_F4_*.json
  if (x.len[2] == 2)
    vf::stats().cls("dft real data: last dimension of length 2");
  {
    const stir::Array<D, float> back = stir::inverse_fourier_for_real_data(H, sign);
    Nd bn;
    VF_CHECK((from_stir<D, float>(back, bn, err)), "inverse_fourier_for_real_data result ", err);
    CNd bc;
    for (int a = 0; a < 3; ++a)
      {
        bc.mn[a] = bn.mn[a];
        bc.len[a] = bn.len[a];
      }
    bc.alloc();
    for (std::size_t i = 0; i < bn.v.size(); ++i)
      bc.v[i] = bn.v[i];
    Result r = cmp(bc, x, TOL_INV, "inverse_fourier_for_real_data(fourier_for_real_data(x)) vs x", "dft: real round trip err/||x||2");
    if (r.failed())
      return r;
    stir::Array<D, std::complex<float>> H2(H);
    const stir::Array<D, float> back2 = stir::inverse_fourier_for_real_data_corrupting_input(H2, sign);
    Nd b2;
    VF_CHECK((from_stir<D, float>(back2, b2, err)), "inverse_fourier_for_real_data_corrupting_input result ", err);
    r = compare(b2, bn, norm2, 1e-6, "corrupting-input variant vs copying variant", "dft: corrupting vs copying/||x||2");
    if (r.failed())
      return r;
  }
  return Result::pass();
}

// =============================================================================================
// kind 1: ArrayFilter1DUsingConvolution (zero / constant boundary) and the symmetric-kernel variant
inline Result
check_conv1d(const json& c)
{
  const K1 k = kernel1(c.at("kmin").get<int>(), c.at("klen").get<int>(), c.at("kseed").get<uint64_t>(), c.at("kpat").get<int>());
  const int bc = c.at("bc").get<int>();
  const int mode = c.at("mode").get<int>(); // 0: out(in) two arguments, 1: in place
  Nd x;
  x.mn[2] = c.at("dmin").get<int>();
  x.len[2] = c.at("dlen").get<int>();
  x.alloc();
  fill_data(x, c.at("seed").get<uint64_t>(), c.at("pat").get<int>());
  const int omin = mode == 1 ? x.mn[2] : c.at("omin").get<int>();
  const int olen = mode == 1 ? x.len[2] : c.at("olen").get<int>();
  // constant boundary conditions need a nearest element (class doc: "the nearest element in the array")
  if (bc == 1 && x.len[2] == 0)
    return Result::reject("constant boundary with empty input");
  vf::stats().cls(bc == 0 ? "conv1d zero boundary" : "conv1d constant boundary");
  if (k.c.size() == 1)
    vf::stats().cls("conv1d kernel length 1");
  if (int(k.c.size()) > x.len[2])
    vf::stats().cls("conv1d kernel longer than data");
  if (olen > x.len[2])
    vf::stats().cls("conv1d output longer than input");
  if (olen < x.len[2])
    vf::stats().cls("conv1d output shorter than input");
  // the documented trivial filter: empty kernel, or the single coefficient 1 at index 0 (own statement of is_trivial()'s class)
  if (k.empty() || (k.c.size() == 1 && k.mn == 0 && k.c[0] == 1.))
    {
      const bool beyond = olen > 0 && x.len[2] > 0 && (omin < x.mn[2] || omin + olen - 1 > x.mx(2));
      vf::stats().cls(vf::cat("conv1d trivial kernel, ", bc == 0 ? "zero" : "constant", " boundary", beyond ? ", output beyond the input" : ""));
    }

  stir::VectorWithOffset<float> kv(k.mn, k.mx());
  for (int j = k.mn; j <= k.mx(); ++j)
    kv[j] = float(k.c[std::size_t(j - k.mn)]);
  const stir::ArrayFilter1DUsingConvolution<float> filter(kv, bc == 0 ? stir::BoundaryConditions::zero : stir::BoundaryConditions::constant);

  const Nd ref = conv_axis(x, 2, k, omin, olen, bc);
  const double scale = (k.empty() ? 1. : k.abssum()) * maxabs(x);
  std::string err;
  stir::Array<1, float> in = to_stir<1, float>(x);
  Nd got;
  if (mode == 1)
    {
      filter(in);
      VF_CHECK((from_stir<1, float>(in, got, err)), err);
    }
  else
    {
      stir::Array<1, float> out(omin, omin + olen - 1);
      out.fill(777.F); // every element must be written
      filter(out, in);
      VF_CHECK((from_stir<1, float>(out, got, err)), err);
    }
  if (ref.size() == 0)
    {
      VF_CHECK(got.size() == 0, "empty output range became non-empty");
    }
  else
    {
      Result r = compare(got, ref, scale, TOL_CONV, "ArrayFilter1DUsingConvolution vs direct convolution", "conv1d: max err/(|k|1 |x|inf)");
      if (r.failed())
        return r;
    }
  // influenced indices must cover the support of the result (ArrayFunctionObject doc: union of the PSF supports)
  if (bc == 0 && x.len[2] > 0)
    {
      stir::IndexRange<1> infl;
      if (filter.get_influenced_indices(infl, stir::IndexRange<1>(x.mn[2], x.mx(2))) == stir::Succeeded::yes)
        for (int i = ref.mn[2]; i <= ref.mx(2); ++i)
          if (ref.at(0, 0, i) != 0)
            VF_CHECK(i >= infl.get_min_index() && i <= infl.get_max_index(), "get_influenced_indices [", infl.get_min_index(), ",",
                     infl.get_max_index(), "] does not contain index ", i, " where the output is ", ref.at(0, 0, i));
    }
  // symmetric-kernel class: documented preconditions: half kernel indexed from 0, out range == in range, zero boundary
  if (c.value("symfilter", false))
    {
      const int L = (int(k.c.size()) - 1) / 2;
      if (!(bc == 0 && (k.empty() || (int(k.c.size()) == 2 * L + 1 && k.mn == -L)) && omin == x.mn[2] && olen == x.len[2]))
        return Result::reject("symmetric variant preconditions");
      for (int j = 0; j <= L && !k.empty(); ++j)
        if (k.c[std::size_t(L + j)] != k.c[std::size_t(L - j)])
          return Result::reject("kernel not symmetric");
      vf::stats().cls("conv1d symmetric-kernel class");
      stir::VectorWithOffset<float> half;
      if (!k.empty())
        {
          half = stir::VectorWithOffset<float>(0, L);
          for (int j = 0; j <= L; ++j)
            half[j] = float(k.c[std::size_t(L + j)]);
        }
      const stir::ArrayFilter1DUsingConvolutionSymmetricKernel<float> sf(half);
      stir::Array<1, float> in2 = to_stir<1, float>(x);
      Nd g2;
      if (mode == 1)
        {
          sf(in2);
          VF_CHECK((from_stir<1, float>(in2, g2, err)), err);
        }
      else
        {
          stir::Array<1, float> out(omin, omin + olen - 1);
          out.fill(777.F);
          sf(out, in2);
          VF_CHECK((from_stir<1, float>(out, g2, err)), err);
        }
      if (ref.size() > 0)
        {
          Result r = compare(g2, ref, scale, TOL_CONV, "ArrayFilter1DUsingConvolutionSymmetricKernel vs direct convolution",
                             "conv1d-sym: max err/(|k|1 |x|inf)");
          if (r.failed())
            return r;
        }
    }
  return Result::pass();
}

// =============================================================================================
// kind 2: ArrayFilterUsingRealDFTWithPadding<D>
template <int D>
Result
check_dftconv(const json& c)
{
  int lgP[3], Kmin[3], a[3], b[3], dmin[3], dlen[3], omin[3], olen[3], P[3];
  get3(c, "lgP", D, lgP, 0);
  get3(c, "Kmin", D, Kmin, 0);
  get3(c, "a", D, a, 0);
  get3(c, "b", D, b, 0);
  get3(c, "dmin", D, dmin, 0);
  get3(c, "dlen", D, dlen, 1);
  get3(c, "omin", D, omin, 0);
  get3(c, "olen", D, olen, 1);
  const bool kfull = c.at("kfull").get<bool>();
  const int mode = c.at("mode").get<int>();
  for (int q = 0; q < 3; ++q)
    {
      P[q] = 1 << lgP[q];
      if (kfull)
        {
          a[q] = Kmin[q];
          b[q] = Kmin[q] + P[q] - 1;
        }
      if (mode == 1)
        {
          omin[q] = dmin[q];
          olen[q] = dlen[q];
        }
      // set_kernel doc: "Input data will be zero-padded to the same range as this kernel": the data must fit;
      // the true kernel must fit in one period to be representable
      if (dlen[q] > P[q] || b[q] - a[q] + 1 > P[q] || b[q] < a[q] || dlen[q] < 1 || olen[q] < 1)
        return Result::reject("data or kernel longer than the padded length");
    }
  if (P[2] == 2)
    vf::stats().cls("dftconv: padded length 2 in the last dimension");
  // the true kernel on [a,b]
  int klen[3];
  for (int q = 0; q < 3; ++q)
    klen[q] = b[q] - a[q] + 1;
  Nd KT(a, klen);
  fill_kernel(KT, c.at("kseed").get<uint64_t>(), c.at("kpat").get<int>());
  // one period kappa(t), t in [0,P)
  const int zero3[3] = { 0, 0, 0 };
  Nd kappa(zero3, P);
  for (int i = a[0]; i <= b[0]; ++i)
    for (int j = a[1]; j <= b[1]; ++j)
      for (int l = a[2]; l <= b[2]; ++l)
        kappa.at(pmod(i, P[0]), pmod(j, P[1]), pmod(l, P[2])) = KT.at(i, j, l);
  // the kernel as handed to STIR: any regular range of the padded lengths, "assuming that it is periodic outside the index range"
  Nd KS(Kmin, P);
  for (int i = Kmin[0]; i < Kmin[0] + P[0]; ++i)
    for (int j = Kmin[1]; j < Kmin[1] + P[1]; ++j)
      for (int l = Kmin[2]; l < Kmin[2] + P[2]; ++l)
        KS.at(i, j, l) = kappa.at(pmod(i, P[0]), pmod(j, P[1]), pmod(l, P[2]));
  Nd x(dmin, dlen);
  fill_data(x, c.at("seed").get<uint64_t>(), c.at("pat").get<int>());

  // structural no-wrap-around condition (generalises "padded length >= data length + kernel length - 1"):
  // for every axis the hull of {i - t : i in out, t in data} and the kernel range [a,b] fits in one period
  bool noalias = true, twice = true;
  for (int q = 3 - D; q < 3; ++q)
    {
      const int dlo = omin[q] - (dmin[q] + dlen[q] - 1), dhi = omin[q] + olen[q] - 1 - dmin[q];
      if (std::max(dhi, b[q]) - std::min(dlo, a[q]) + 1 > P[q])
        noalias = false;
      if (P[q] < 2 * dlen[q])
        twice = false;
    }
  vf::stats().cls(vf::cat("dftconv ", D, "-D ", noalias ? "no wrap-around (direct-convolution oracle)" : "wrap-around possible (periodic oracle only)"));
  if (twice)
    vf::stats().cls("dftconv padded length >= 2 x data length");
  if (twice && noalias)
    vf::stats().cls("dftconv padded length >= 2 x data length and no wrap-around");
  {
    bool in_full = true, out_full = true;
    for (int q = 3 - D; q < 3; ++q)
      {
        in_full = in_full && dmin[q] == 0 && dlen[q] == P[q];
        out_full = out_full && omin[q] == 0 && olen[q] == P[q];
      }
    if (in_full && out_full)
      vf::stats().cls(vf::cat("dftconv ", D, "-D data and output on exactly the padding range (direct branch)"));
    else if (in_full)
      vf::stats().cls(vf::cat("dftconv ", D, "-D data on exactly the padding range, output on another range"));
  }

  stir::ArrayFilterUsingRealDFTWithPadding<D, float> filter;
  const stir::Array<D, float> ks = to_stir<D, float>(KS);
  VF_CHECK(filter.set_kernel(ks) == stir::Succeeded::yes, "set_kernel refused a regular power-of-two kernel, lengths ", P[0], "x", P[1], "x", P[2]);

  std::string err;
  Nd got;
  stir::Array<D, float> in = to_stir<D, float>(x);
  if (mode == 1)
    {
      filter(in);
      VF_CHECK((from_stir<D, float>(in, got, err)), err);
    }
  else
    {
      stir::Array<D, float> out(idx_range<D>(omin, olen));
      out.fill(777.F);
      filter(out, in);
      VF_CHECK((from_stir<D, float>(out, got, err)), err);
    }
  const double scale = abssum(KT) * maxabs(x);
  const Nd refp = conv_periodic(x, kappa, omin, olen);
  {
    Result r = compare(got, refp, scale, TOL_DFTCONV, "padded-DFT filter vs documented periodic convolution", "dftconv: max err vs periodic/(|k|1 |x|inf)");
    if (r.failed())
      return r;
  }
  if (noalias)
    {
      const Nd refd = conv_nd(x, KT, omin, olen);
      {
        Result s = compare(refp, refd, scale, 1e-12, "HARNESS: periodic and direct oracle disagree although no wrap-around was derived", "harness: periodic vs direct");
        if (s.failed())
          throw std::logic_error(s.msg);
      }
      Result r = compare(got, refd, scale, TOL_DFTCONV, "padded-DFT filter vs direct convolution (no wrap-around possible)",
                         "dftconv: max err vs direct/(|k|1 |x|inf)");
      if (r.failed())
        return r;
    }
  return Result::pass();
}

// =============================================================================================
// kind 3: ArrayFilter2DUsingConvolution / ArrayFilter3DUsingConvolution
template <int D>
struct ConvND;
template <>
struct ConvND<2>
{
  typedef stir::ArrayFilter2DUsingConvolution<float> type;
};
template <>
struct ConvND<3>
{
  typedef stir::ArrayFilter3DUsingConvolution<float> type;
};

//! kernels with outer range [0,0] whose origin element is 1 (but which have more elements) or whose inner ranges do not
//! contain the origin: once mistaken for the identity by is_trivial() (regression replays/C19/fixed_F1_*.json); class statistic only
template <int D>
inline bool
f1_class(const Nd& KT)
{
  if (!(KT.len[3 - D] == 1 && KT.mn[3 - D] == 0))
    return false;
  if (!KT.has(0, 0, 0))
    return true; // out-of-range read of the origin element
  return KT.size() > 1 && KT.at(0, 0, 0) == 1.;
}

template <int D>
Result
check_convnd(const json& c)
{
  int kmin[3], klen[3], dmin[3], dlen[3], omin[3], olen[3];
  get3(c, "kmin", D, kmin, 0);
  get3(c, "klen", D, klen, 1);
  get3(c, "dmin", D, dmin, 0);
  get3(c, "dlen", D, dlen, 1);
  get3(c, "omin", D, omin, 0);
  get3(c, "olen", D, olen, 1);
  const int mode = c.at("mode").get<int>();
  for (int q = 0; q < 3; ++q)
    {
      if (mode == 1)
        {
          omin[q] = dmin[q];
          olen[q] = dlen[q];
        }
      // the classes read the inner ranges from the first row of kernel, input and output: all must be non-empty
      if (klen[q] < 1 || dlen[q] < 1 || olen[q] < 1)
        return Result::reject("empty kernel/data/output");
    }
  Nd KT(kmin, klen);
  fill_kernel(KT, c.at("kseed").get<uint64_t>(), c.at("kpat").get<int>());
  if (f1_class<D>(KT))
    vf::stats().cls(vf::cat("conv", D, "d kernel with outer range [0,0] and origin element 1 / origin outside the inner ranges"));
  Nd x(dmin, dlen);
  fill_data(x, c.at("seed").get<uint64_t>(), c.at("pat").get<int>());
  vf::stats().cls(vf::cat("conv", D, "d"));
  bool larger = false, smaller = false;
  for (int q = 0; q < 3; ++q)
    {
      larger = larger || olen[q] > dlen[q];
      smaller = smaller || olen[q] < dlen[q];
    }
  if (larger)
    vf::stats().cls("convNd output larger than input");
  if (smaller)
    vf::stats().cls("convNd output smaller than input");
  const typename ConvND<D>::type filter(to_stir<D, float>(KT));
  std::string err;
  Nd got;
  stir::Array<D, float> in = to_stir<D, float>(x);
  if (mode == 1)
    {
      filter(in);
      VF_CHECK((from_stir<D, float>(in, got, err)), err);
    }
  else
    {
      stir::Array<D, float> out(idx_range<D>(omin, olen));
      out.fill(777.F);
      filter(out, in);
      VF_CHECK((from_stir<D, float>(out, got, err)), err);
    }
  const Nd ref = conv_nd(x, KT, omin, olen);
  return compare(got, ref, abssum(KT) * maxabs(x), TOL_CONV, vf::cat("ArrayFilter", D, "DUsingConvolution vs direct convolution"),
                 "convNd: max err/(|k|1 |x|inf)");
}

} // namespace c19

// C13 - bin normalisation: apply and undo are inverse and match the bin efficiency.
//
// One case = geometry + image grid + a tree of normalisation objects (trivial / from projection data / from an attenuation
// image / from detector components / chains of 1-3 of these) + 2-3 symmetry groupings of the viewgrams.
// For every grouping a FRESH object tree is built, set up and driven through RelatedViewgrams and through the whole-ProjData
// entry points (memory, sometimes file backed).  The reference efficiency e of every bin is computed by the harness:
//   from projection data : e = 1 / factor            (apply multiplies with the stored factors, BinNormalisationFromProjData.h)
//   attenuation image    : e = exp(-sum_v P_bv mu_v vx/10) with P assembled row by row from a symmetry-free, cache-free matrix
//   components           : e = eff_i eff_j g_ij B_ij of the detector pair of the bin, 0 for virtual crystals
//   chain                : product of the members;   trivial : 1
// Clauses (1)-(7) of DESIGN.md "### C13".
//
// Object HISTORIES (key "history" of the case): the object of grouping 0 is not used freshly constructed but after a call history
//   [other factors through the accessors / other allocation] -> set_up (same or another geometry) -> [use] -> [a member set up on
//   its own for another geometry] -> FINAL factors through the same accessors -> set_up for the data geometry
// possibly with two such rounds.  Every clause is then evaluated on that object against the reference of the FINAL settings, and
// a freshly constructed twin (same settings, same symmetry switches) must give bit-identical undo/apply results, the same
// is_trivial() and the same get_bin_efficiency(): the clauses "one fixed positive factor ... which equals the efficiency the
// object reports" and "reports itself trivial changes nothing" are decided over call histories, not only over single set-ups.
#include "explicit_p.h"
#include "c20_fanref.h"
#include "stir/recon_buildblock/BinNormalisation.h"
#include "stir/recon_buildblock/TrivialBinNormalisation.h"
#include "stir/recon_buildblock/BinNormalisationFromProjData.h"
#include "stir/recon_buildblock/BinNormalisationFromAttenuationImage.h"
#include "stir/recon_buildblock/BinNormalisationPETFromComponents.h"
#include "stir/recon_buildblock/ChainedBinNormalisation.h"
#include "stir/recon_buildblock/ForwardProjectorByBinUsingProjMatrixByBin.h"
#include "stir/recon_buildblock/TrivialDataSymmetriesForBins.h"
#include "stir/recon_buildblock/DataSymmetriesForBins_PET_CartesianGrid.h"
#include "stir/ProjDataInterfile.h"
#include "stir/RelatedViewgrams.h"
#include "stir/ViewSegmentNumbers.h"
#include "stir/ExamInfo.h"
#include <functional>
#include <map>
#include <set>
#include <unistd.h>
#include <cstdio>

using namespace vf;
using namespace stir;
using c20::Blocks;
using c20::FanDims;

namespace {

const bool no_exclude = std::getenv("VERIF_NO_EXCLUDE") != nullptr;

//! statistics of observed maxima: non-finite values (a failing case is about to be reported) are not recorded
inline void
smax(const std::string& key, double v)
{
  if (std::isfinite(v))
    stats().maxi(key, v);
}

// tolerances, all relative to the reference value of the bin
const double TOL_SAME_E = 3e-6;    // e from x1 vs e from x2 (a few float roundings per member)
const double TOL_INVERSE = 1e-5;   // apply(undo(x)) = x, as the design states
const double TOL_GROUPING = 1e-4;  // other grouping with an attenuation member (other summation order in the projector); exact otherwise
const double TOL_GEB = 3e-6;       // get_bin_efficiency vs e
const double TOL_ATT = 1e-4;       // attenuation factors vs explicit matrix, as the design states
const double TOL_EXACT_REF = 3e-6; // e vs reference for the classes without projector

//! exclusions of known findings applied in the current case (each signature counted once per case under excluded_known)
std::set<std::string> g_excluded;
inline void
excluded(const std::string& sig)
{
  if (g_excluded.insert(sig).second)
    {
      stats().count("excluded:" + sig);
      if (g_excluded.size() == 1)
        stats().excluded_known++;
    }
}
const char* const SIG_F1 = "C13:F1:components:bins_outside_symmetric_fan";

//! an inconsistency noticed by the harness itself: never a "rejected configuration"
struct HarnessError : std::logic_error
{
  using std::logic_error::logic_error;
};

struct Flags
{
  bool trivial_class = true; // TrivialDataSymmetriesForBins object (else DataSymmetriesForBins_PET_CartesianGrid with f[])
  bool f[5] = { false, false, false, false, false };
};

struct Env
{
  const json& c;
  shared_ptr<Scanner> sc;
  shared_ptr<ProjDataInfo> pdi_full, pdi_data;
  //! the geometry handed to set_up() / allocate(): the data geometry itself (same object), an equal-valued separate object, or the
  //! LARGER full geometry (more segments than the data): BinNormalisation::check demands only *set_up_geometry >= *data_geometry
  shared_ptr<ProjDataInfo> pdi_setup;
  shared_ptr<ExamInfo> exam;
  shared_ptr<VoxelsOnCartesianGrid<float>> image;
  vp::ExplicitP ix; // indexer of the data bins (rows unused)
  std::map<std::tuple<int, bool>, vp::ExplicitP> matrices;
  long nb() const { return ix.nbins(); }
  const vp::ExplicitP& matrix(int lors, bool cyl)
  {
    auto key = std::make_tuple(lors, cyl);
    auto it = matrices.find(key);
    if (it != matrices.end())
      return it->second;
    vp::MatrixOpts o;
    o.num_tangential_LORs = lors;
    o.restrict_to_cylindrical_FOV = cyl;
    // the reference is the plain line integral along the LOR: attenuation does not depend on time of flight, so the rows are
    // taken for the non-TOF geometry (TOF data, also when mashed to ONE TOF bin, are rejected by set_up; fixed defect F4)
    shared_ptr<const ProjDataInfo> ref_pdi = pdi_data->is_tof_data() ? shared_ptr<const ProjDataInfo>(pdi_data->create_non_tof_clone()) : pdi_data;
    return matrices.emplace(key, vp::ExplicitP::build(ref_pdi, image, o)).first->second;
  }
};

vp::ExplicitP
make_indexer(const shared_ptr<const ProjDataInfo>& p)
{
  vp::ExplicitP P;
  P.pdi = p;
  vp::ExplicitP::enumerate_bins(*p, P.bins);
  return P;
}

//! A normalisation class of the harness that implements get_bin_efficiency() ONLY: set_up / check / apply / undo (viewgrams and whole
//! data) are the DEFAULTS of BinNormalisation ("apply/undo defaults in terms of get_bin_efficiency", the mechanism every STIR class
//! that reads scanner files relies on; none of the classes constructible without such files uses it).  The efficiency of a bin is
//! a pure function of (seed, bin); optionally it depends on the TOF index; optionally ~3 % of the bins have efficiency exactly 0.
class EfficiencyTableNorm : public BinNormalisation
{
public:
  EfficiencyTableNorm(uint64_t seed, bool tof_dependent, bool zeros)
      : seed(seed),
        tof_dependent(tof_dependent),
        zeros(zeros)
  {}
  static float value(uint64_t seed, bool tof_dependent, bool zeros, const Bin& b)
  {
    const uint64_t key = (uint64_t(b.segment_num() + 512) << 44) ^ (uint64_t(b.axial_pos_num() + 2048) << 30) ^ (uint64_t(b.view_num() + 2048) << 18)
                         ^ (uint64_t(b.tangential_pos_num() + 2048) << 6) ^ uint64_t(tof_dependent ? b.timing_pos_num() + 32 : 0);
    if (zeros && c20::hreal(seed ^ 0x2e20ULL, key, 0., 1.) < 0.03)
      return 0.F;
    return float(c20::hreal(seed, key, 0.2, 5.));
  }
  float get_bin_efficiency(const Bin& b) const override { return value(seed, tof_dependent, zeros, b); }
  std::string get_registered_name() const override { return "verif efficiency table"; }

private:
  uint64_t seed;
  bool tof_dependent, zeros;
};

struct Built
{
  shared_ptr<BinNormalisation> norm;
  std::vector<double> e;          // reference efficiency per data bin (+inf where a stored factor is exactly 0)
  std::vector<char> skip;         // bins outside the inverse clauses: e == 0, e == inf, or excluded finding
  bool geb = true;                // get_bin_efficiency implemented in every member
  bool has_atten = false;
  bool exact_unit = true;         // every member multiplies with exactly 1 (trivial, or components all exactly 1)
  double tol_ref = TOL_EXACT_REF; // tolerance for e vs reference
  std::vector<shared_ptr<ForwardProjectorByBin>> projectors; // of the attenuation members (they dictate the grouping)
  std::string label;
  // histories: writers of the component factors (phase >= 0: the factors of that earlier round, phase < 0: the final ones) and
  // the leaf objects of the tree
  std::vector<std::function<void(int phase, const json& hist)>> refill;
  std::vector<shared_ptr<BinNormalisation>> leaves;
};

//! radius (mm) inside which attenuation values are generated.  The projector traces rays from/to the FOV cylinder (or box) whose
//! radius is min(imax,-imin) voxels; which voxel is first/last on a ray whose end point lies on a voxel boundary is a rounding
//! tie that depends on the symmetry path (the tie class of C03).  mu vanishes within 2.5 voxels of that edge, so the line
//! integrals do not depend on the tie (attenuating objects lie inside the FOV).
double
support_radius(const VoxelsOnCartesianGrid<float>& mu)
{
  const double vx = mu.get_voxel_size().x(), vy = mu.get_voxel_size().y();
  const double fovrad = std::min(std::min(mu.get_max_x(), -mu.get_min_x()) * vx, std::min(mu.get_max_y(), -mu.get_min_y()) * vy);
  return std::max(0., fovrad - 2.5 * std::max(vx, vy));
}

//! cylinder radius for a spec (mm)
double
cylinder_radius(const VoxelsOnCartesianGrid<float>& mu, const json& s)
{
  return support_radius(mu) * s["R_frac"].get<double>();
}

//! mu value actually used: capped so that the largest line integral stays below ~8 (exp() stays well inside float)
double
mu_value(const VoxelsOnCartesianGrid<float>& mu, const json& s)
{
  const double vx = mu.get_voxel_size().x(), vy = mu.get_voxel_size().y();
  const double diag_mm = std::hypot(double(mu.get_x_size()) * vx, double(mu.get_y_size()) * vy) * 1.2;
  return std::min(s["mu_max"].get<double>(), 80. / diag_mm);
}

void
fill_mu(VoxelsOnCartesianGrid<float>& mu, const json& s)
{
  const std::string mode = s["mode"];
  mu.fill(0.F);
  if (mode == "zero")
    return;
  if (mode == "sum")
    {
      VoxelsOnCartesianGrid<float> a(mu), b(mu);
      fill_mu(a, s["a"]);
      fill_mu(b, s["b"]);
      auto ia = a.begin_all();
      auto ib = b.begin_all();
      for (auto it = mu.begin_all(); it != mu.end_all(); ++it, ++ia, ++ib)
        *it = *ia + *ib;
      return;
    }
  const double mu_max = mu_value(mu, s);
  if (mode == "random")
    {
      vf::SplitMix g(s["seed"].get<uint64_t>());
      const double Rs = support_radius(mu);
      for (int z = mu.get_min_z(); z <= mu.get_max_z(); ++z)
        for (int y = mu.get_min_y(); y <= mu.get_max_y(); ++y)
          for (int x = mu.get_min_x(); x <= mu.get_max_x(); ++x)
            {
              const double v = g.real(0., mu_max);
              mu[z][y][x] = std::hypot(double(x) * mu.get_voxel_size().x(), double(y) * mu.get_voxel_size().y()) <= Rs ? float(v) : 0.F;
            }
      return;
    }
  // uniform centred cylinder (all planes): voxels whose centre lies within R
  const double R = cylinder_radius(mu, s);
  const float vx = mu.get_voxel_size().x(), vy = mu.get_voxel_size().y();
  for (int z = mu.get_min_z(); z <= mu.get_max_z(); ++z)
    for (int y = mu.get_min_y(); y <= mu.get_max_y(); ++y)
      for (int x = mu.get_min_x(); x <= mu.get_max_x(); ++x)
        if (std::hypot(double(x) * vx, double(y) * vy) <= R)
          mu[z][y][x] = float(mu_max);
}

//! builds one object tree; everything that can call error() for a configuration STIR does not support is inside
Built
build(const json& s, Env& env, const Flags& fl)
{
  Built b;
  const long N = env.nb();
  b.e.assign(std::size_t(N), 1.);
  b.skip.assign(std::size_t(N), 0);
  const std::string k = s["k"];
  b.label = k;
  if (k == "trivial")
    {
      b.norm.reset(new TrivialBinNormalisation);
    }
  else if (k == "base")
    {
      const uint64_t seed = s["seed"].get<uint64_t>();
      const bool tof_dep = s.value("tof_dependent", false), zeros = s.value("zeros", false);
      b.norm.reset(new EfficiencyTableNorm(seed, tof_dep, zeros));
      for (long i = 0; i < N; ++i)
        {
          const double e = double(EfficiencyTableNorm::value(seed, tof_dep, zeros, env.ix.bins[std::size_t(i)]));
          b.e[std::size_t(i)] = e;
          if (e == 0.)
            b.skip[std::size_t(i)] = 1; // undo gives 0; apply divides by the documented floor 1e-20: outside the inverse clauses
        }
      b.exact_unit = false;
      b.label = cat("base-class defaults", tof_dep ? "(TOF dependent)" : "", zeros ? "+zeros" : "");
    }
  else if (k == "projdata")
    {
      // factors stored for the full geometry (possibly more segments than the data), TOF or non-TOF
      const bool tof_factors = s["tof_factors"].get<bool>() && env.pdi_full->is_tof_data();
      shared_ptr<ProjDataInfo> fpdi = tof_factors ? env.pdi_full->create_shared_clone() : env.pdi_full->create_non_tof_clone();
      const vp::ExplicitP fx = make_indexer(fpdi);
      const uint64_t seed = s["seed"].get<uint64_t>();
      const bool zeros = s["zeros"].get<bool>();
      std::vector<double> fac(std::size_t(fx.nbins()));
      for (long i = 0; i < fx.nbins(); ++i)
        {
          fac[std::size_t(i)] = double(float(c20::hreal(seed, uint64_t(i), 0.2, 5.)));
          if (zeros && c20::hreal(seed ^ 0x2e20ULL, uint64_t(i), 0., 1.) < 0.03)
            fac[std::size_t(i)] = 0.;
        }
      shared_ptr<ProjData> fpd(new ProjDataInMemory(env.exam, fpdi));
      fx.vec_to_projdata(*fpd, fac);
      b.norm.reset(new BinNormalisationFromProjData(fpd));
      for (long i = 0; i < N; ++i)
        {
          Bin bin = env.ix.bins[std::size_t(i)];
          if (!tof_factors)
            bin.timing_pos_num() = 0;
          const long j = fx.bin_index(bin);
          if (j < 0)
            throw HarnessError("harness: data bin outside the factor data");
          const double f = fac[std::size_t(j)];
          if (f == 0.)
            {
              b.e[std::size_t(i)] = std::numeric_limits<double>::infinity();
              b.skip[std::size_t(i)] = 1;
            }
          else
            b.e[std::size_t(i)] = 1. / f;
        }
      b.geb = false; // "BinNormalisationFromProjData::get_bin_efficiency is not implemented"
      b.exact_unit = false;
      b.label = cat("projdata", tof_factors ? "(TOF factors)" : "(non-TOF factors)", zeros ? "+zeros" : "");
    }
  else if (k == "atten")
    {
      shared_ptr<VoxelsOnCartesianGrid<float>> mu(env.image->clone());
      fill_mu(*mu, s);
      vp::MatrixOpts o;
      o.num_tangential_LORs = s["lors"].get<int>();
      o.restrict_to_cylindrical_FOV = s["cyl_fov"].get<bool>();
      const int cache = s["cache"].get<int>();
      shared_ptr<ProjMatrixByBinUsingRayTracing> m = vp::make_matrix(o, fl.f[0], fl.f[1], fl.f[2], fl.f[3], fl.f[4], cache != 0, cache == 1);
      shared_ptr<ForwardProjectorByBin> fwd(new ForwardProjectorByBinUsingProjMatrixByBin(m));
      b.norm.reset(new BinNormalisationFromAttenuationImage(mu, fwd));
      // reference: explicit rows of a fresh symmetry-free cache-free matrix; mu in cm^-1, elements in units of the x voxel size
      // (data with more than one TOF bin are rejected by set_up; no reference is needed then)
      if (env.pdi_data->get_num_tof_poss() == 1)
        {
          const vp::ExplicitP& P = env.matrix(o.num_tangential_LORs, o.restrict_to_cylindrical_FOV);
          const std::vector<double> line = P.forward(P.image_to_vec(*mu));
          if (long(line.size()) != N)
            throw HarnessError("harness: reference matrix and data have different numbers of bins");
          const double rescale = double(mu->get_voxel_size().x()) / 10.;
          for (long i = 0; i < N; ++i)
            b.e[std::size_t(i)] = std::exp(-line[std::size_t(i)] * rescale);
        }
      b.geb = false; // "BinNormalisationFromAttenuationImage::get_bin_efficiency is not implemented"
      b.has_atten = true;
      b.exact_unit = false;
      b.tol_ref = TOL_ATT;
      b.label = cat("atten:", s["mode"].get<std::string>());
      // the projector refuses RelatedViewgrams that are not grouped by ITS symmetries (ForwardProjectorByBin::forward_project:
      // "incorrect related_viewgrams. Problem with symmetries!"), so the grouping is taken from the projector after set_up
      b.projectors.push_back(fwd);
    }
  else if (k == "components")
    {
      const Blocks B = Blocks::from(*env.sc);
      const auto* pdi = dynamic_cast<const ProjDataInfoCylindricalNoArcCorr*>(env.pdi_data.get());
      if (!pdi)
        throw HarnessError("harness: components need cylindrical non-arc-corrected data");
      const FanDims F = FanDims::from(*pdi, B);
      const uint64_t seed = s["seed"].get<uint64_t>();
      const int near_one = s["near_one"].get<int>(); // 0: random factors, 1: all exactly 1, 2: all within 1e-4 of 1
      // dead crystals: efficiency EXACTLY 0 (what iterate_efficiencies writes for a detector without counts); every bin of such a
      // crystal has efficiency 0 and is outside the inverse clauses ("wherever the efficiency is non-zero")
      const int dead = s.value("dead", 0);
      bool do_eff = s["eff"].get<bool>(), do_geo = s["geo"].get<bool>(), do_block = s["block"].get<bool>();
      const bool per_block = s["sym_per_block"].get<bool>();
      // allocate(): GeoData3D(unit_ax, unit_tr / 2, ...): an odd transaxial unit is truncated -> only even units are a model
      int unit_tr = B.p_tr, unit_ax = B.p_ax;
      if (!per_block)
        {
          if (B.nbuckets_tr > 1)
            unit_tr *= B.bpb_tr;
          if (B.nbuckets_ax > 1)
            unit_ax *= B.bpb_ax;
        }
      if (unit_tr % 2 != 0 || double(B.nphys) * B.nphys * B.nrphys * B.nrphys > 3e6)
        do_geo = false;
      // allocate(): BlockData3D(nb_ax, nb_tr, nb_ax-1, nb_tr-1): FanProjData constructor asserts an even "ring" size; it has no
      // cell for two blocks at the same transaxial position: such detector pairs have no block factor (factor 1; fixed defect F5)
      if (!(B.nb_tr >= 2 && B.nb_tr % 2 == 0))
        do_block = false;
      if (do_block && F.new_half_fan > B.nphys / 2 - B.p_tr)
        stats().cls("components: fan contains two detectors of one block (with block factors)");
      if (!do_eff && !do_geo && !do_block)
        do_eff = true;
      shared_ptr<BinNormalisationPETFromComponents> n(new BinNormalisationPETFromComponents);
      const shared_ptr<ProjDataInfo> alloc_pdi = env.pdi_setup;
      const bool allow_geo = unit_tr % 2 == 0 && double(B.nphys) * B.nphys * B.nrphys * B.nrphys <= 3e6, allow_block = B.nb_tr >= 2 && B.nb_tr % 2 == 0;
      shared_ptr<c20::GeoClasses> cl;
      const bool pre_geo = env.c.contains("history") && env.c["history"]["realloc"].get<bool>() && env.c["history"]["pre_flags"][1].get<int>() != 0;
      if (allow_geo && (do_geo || pre_geo))
        cl.reset(new c20::GeoClasses(B.nphys, B.nrphys, unit_tr, unit_ax));
      // the factor of a key: a pure function of (seed, kind of near-one class)
      auto val_of = [](uint64_t sd, int no, uint64_t salt, uint64_t key, double lo, double hi) {
        if (no == 1)
          return 1.F;
        if (no == 2)
          return float(1. + c20::hreal(sd ^ salt, key, -9e-5, 9e-5));
        return float(c20::hreal(sd ^ salt, key, lo, hi));
      };
      // writes one set of factors through the accessors crystal_efficiencies() / geometric_factors() / block_factors()
      auto dead_index = [B](uint64_t sd, int k) { return long(c20::hreal(sd ^ 0xdeadULL, uint64_t(k), 0., 1.) * double(B.nrphys) * double(B.nphys)) % (long(B.nrphys) * B.nphys); };
      auto fill = [n, B, cl, unit_tr, unit_ax, val_of, dead_index](uint64_t sd, int no, bool fe, bool fg, bool fb, int n_dead) {
        if (fe)
          {
            DetectorEfficiencies& eff = n->crystal_efficiencies();
            if (eff.get_length() != B.nrphys || eff[0].get_length() != B.nphys)
              throw HarnessError("harness: unexpected size of crystal_efficiencies()");
            for (int r = 0; r < B.nrphys; ++r)
              for (int a = 0; a < B.nphys; ++a)
                eff[r][a] = val_of(sd, no, 0xeffULL, uint64_t(r) * 4096 + uint64_t(a), 0.2, 5.);
            for (int k = 0; k < n_dead; ++k)
              {
                const long di = dead_index(sd, k);
                eff[int(di / B.nphys)][int(di % B.nphys)] = 0.F;
              }
          }
        if (fg)
          {
            GeoData3D& gd = n->geometric_factors();
            if (gd.get_num_axial_crystals_per_block() != unit_ax || gd.get_half_num_transaxial_crystals_per_block() * 2 != unit_tr)
              throw HarnessError("harness: unexpected symmetry unit of geometric_factors()");
            for (int ra = 0; ra < unit_ax; ++ra)
              for (int a = 0; a < unit_tr / 2; ++a)
                for (int rb = ra; rb < B.nrphys; ++rb)
                  for (int bb = 0; bb < B.nphys; ++bb)
                    gd(ra, a, rb, bb) = val_of(sd, no, 0x6e0ULL, uint64_t(cl->cls(ra, a, rb, bb)), 0.5, 2.);
          }
        if (fb)
          {
            BlockData3D& bd = n->block_factors();
            for (int RA = bd.get_min_ra(); RA <= bd.get_max_ra(); ++RA)
              for (int A = bd.get_min_a(); A <= bd.get_max_a(); ++A)
                for (int RB = std::max(RA, bd.get_min_rb(RA)); RB <= bd.get_max_rb(RA); ++RB)
                  for (int Bq = bd.get_min_b(A); Bq <= bd.get_max_b(A); ++Bq)
                    bd(RA, A, RB, Bq) = val_of(sd, no, 0xb10cULL, c20::pair_key(RA, A, RB, Bq % B.nb_tr, B.nb_tr), 0.5, 2.);
          }
      };
      n->allocate(alloc_pdi, do_eff, do_geo, do_block, per_block);
      fill(seed, near_one, do_eff, do_geo, do_block, dead);
      auto val = [&](uint64_t salt, uint64_t key, double lo, double hi) { return val_of(seed, near_one, salt, key, lo, hi); };
      // histories: phase >= 0 writes the factors of an earlier round (another seed, the near-one class and - when the history
      // re-allocates - the component switches given there), phase < 0 the final ones
      b.refill.push_back([=](int phase, const json& h) {
        const bool realloc = h["realloc"].get<bool>();
        if (phase < 0)
          {
            if (realloc)
              n->allocate(alloc_pdi, do_eff, do_geo, do_block, per_block);
            fill(seed, near_one, do_eff, do_geo, do_block, dead);
            return;
          }
        bool pe = do_eff, pg = do_geo, pb = do_block;
        if (realloc)
          {
            pe = h["pre_flags"][0].get<int>() != 0;
            pg = h["pre_flags"][1].get<int>() != 0 && allow_geo;
            pb = h["pre_flags"][2].get<int>() != 0 && allow_block;
            if (!pe && !pg && !pb)
              pe = true;
            n->allocate(alloc_pdi, pe, pg, pb, per_block);
          }
        fill(seed ^ (0x5bd1e995ULL * uint64_t(phase + 1)), h["pre_near_one"].get<int>(), pe, pg, pb, h.value("pre_dead", 0));
      });
      b.norm = n;
      std::set<long> dead_set;
      if (do_eff)
        for (int k = 0; k < dead; ++k)
          dead_set.insert(dead_index(seed, k));
      if (!dead_set.empty())
        stats().cls("components: dead crystals (efficiency exactly 0)");
      long n_dead_bins = 0;
      for (long i = 0; i < N; ++i)
        {
          const Bin& bin = env.ix.bins[std::size_t(i)];
          DetectionPositionPair<> dp;
          pdi->get_det_pos_pair_for_bin(dp, bin);
          const int a = dp.pos1().tangential_coord(), ra = dp.pos1().axial_coord(), bq = dp.pos2().tangential_coord(), rb = dp.pos2().axial_coord();
          if (B.virt_tr(a) || B.virt_tr(bq) || B.virt_ax(ra) || B.virt_ax(rb))
            {
              // "The 'virtual' crystals are forced to have 0 detection efficiency."
              b.e[std::size_t(i)] = 0.;
              b.skip[std::size_t(i)] = 1;
              continue;
            }
          const int na = B.new_tr(a), nra = B.new_ax(ra), nb_ = B.new_tr(bq), nrb = B.new_ax(rb);
          double e = 1.;
          if (dead_set.count(long(nra) * B.nphys + na) || dead_set.count(long(nrb) * B.nphys + nb_))
            {
              // the harness's own statement: a bin of a dead crystal has efficiency 0 (product with a factor 0)
              b.e[std::size_t(i)] = 0.;
              b.skip[std::size_t(i)] = 1;
              ++n_dead_bins;
              continue;
            }
          if (do_eff)
            e *= double(val(0xeffULL, uint64_t(nra) * 4096 + uint64_t(na), 0.2, 5.)) * double(val(0xeffULL, uint64_t(nrb) * 4096 + uint64_t(nb_), 0.2, 5.));
          if (do_geo)
            e *= double(val(0x6e0ULL, uint64_t(cl->cls(nra, na, nrb, nb_)), 0.5, 2.));
          if (do_block && na / B.p_tr != nb_ / B.p_tr)
            e *= double(val(0xb10cULL, c20::pair_key(nra / B.p_ax, na / B.p_tr, nrb / B.p_ax, nb_ / B.p_tr, B.nb_tr), 0.5, 2.));
          if (std::abs(bin.tangential_pos_num()) > F.half_fan && !no_exclude)
            {
              // finding F1: the fan is truncated to min(max_tang,-min_tang): with an even number of tangential positions the
              // bins at min_tang get efficiency 0.  Excluded (e = 0 accepted) unless VERIF_NO_EXCLUDE is set.
              b.e[std::size_t(i)] = 0.;
              b.skip[std::size_t(i)] = 1;
              stats().count("components: bins outside the fan (finding F1, excluded)");
              excluded(SIG_F1);
              continue;
            }
          b.e[std::size_t(i)] = e;
        }
      stats().count("components: bins of dead crystals", n_dead_bins);
      b.exact_unit = near_one == 1;
      b.tol_ref = near_one == 2 ? 1e-6 : 5e-6;
      b.label = cat("components(", do_eff ? "e" : "", do_geo ? "g" : "", do_block ? "b" : "", near_one ? cat(",near_one=", near_one) : "", dead ? cat(",dead=", dead) : "", ")");
    }
  else if (k == "chain")
    {
      const json& ms = s["members"];
      std::vector<Built> parts;
      for (const json& m : ms)
        parts.push_back(build(m, env, fl));
      shared_ptr<BinNormalisation> cur;
      if (parts.size() == 1)
        // the two-argument constructor dereferences both members (post_processing): a chain of one is (member, trivial)
        cur.reset(new ChainedBinNormalisation(parts[0].norm, shared_ptr<BinNormalisation>(new TrivialBinNormalisation)));
      else if (parts.size() == 2)
        cur.reset(new ChainedBinNormalisation(parts[0].norm, parts[1].norm));
      else if (s["left_nested"].get<bool>())
        cur.reset(new ChainedBinNormalisation(
            shared_ptr<BinNormalisation>(new ChainedBinNormalisation(parts[0].norm, parts[1].norm)), parts[2].norm));
      else
        cur.reset(new ChainedBinNormalisation(
            parts[0].norm, shared_ptr<BinNormalisation>(new ChainedBinNormalisation(parts[1].norm, parts[2].norm))));
      b.norm = cur;
      b.tol_ref = 0;
      b.label = "chain[";
      for (const Built& p : parts)
        {
          for (long i = 0; i < N; ++i)
            {
              // 0 x inf (virtual crystal x zero factor) gives NaN: such a bin is outside every clause
              b.e[std::size_t(i)] = b.e[std::size_t(i)] * p.e[std::size_t(i)];
              b.skip[std::size_t(i)] = b.skip[std::size_t(i)] || p.skip[std::size_t(i)];
            }
          b.geb = b.geb && p.geb;
          b.has_atten = b.has_atten || p.has_atten;
          b.projectors.insert(b.projectors.end(), p.projectors.begin(), p.projectors.end());
          b.refill.insert(b.refill.end(), p.refill.begin(), p.refill.end());
          b.leaves.insert(b.leaves.end(), p.leaves.begin(), p.leaves.end());
          b.exact_unit = b.exact_unit && p.exact_unit;
          b.tol_ref += p.tol_ref;
          b.label += p.label + " ";
        }
      b.label += "]";
    }
  else
    throw HarnessError("harness: unknown normalisation kind");
  if (k != "chain")
    b.leaves.push_back(b.norm);
  return b;
}

// ---- driving the objects -------------------------------------------------------------------------------------------
typedef shared_ptr<DataSymmetriesForViewSegmentNumbers> SymPtr;

//! undo/apply through RelatedViewgrams, one call per basic view-segment and TOF bin of the grouping
std::vector<double>
pass_viewgrams(const BinNormalisation& N, const SymPtr& sym, const std::vector<double>& x, bool undo, Env& env)
{
  ProjDataInMemory pd(env.exam, env.pdi_data);
  env.ix.vec_to_projdata(pd, x);
  const ProjDataInfo& p = *env.pdi_data;
  for (int s = p.get_min_segment_num(); s <= p.get_max_segment_num(); ++s)
    for (int v = p.get_min_view_num(); v <= p.get_max_view_num(); ++v)
      {
        const ViewSegmentNumbers vs(v, s);
        if (!sym->is_basic(vs))
          continue;
        for (int k = p.get_min_tof_pos_num(); k <= p.get_max_tof_pos_num(); ++k)
          {
            RelatedViewgrams<float> rv = pd.get_related_viewgrams(ViewgramIndices(v, s, k), sym, false, k);
            if (undo)
              N.undo(rv);
            else
              N.apply(rv);
            if (pd.set_related_viewgrams(rv) != Succeeded::yes)
              throw HarnessError("harness: set_related_viewgrams failed");
          }
      }
  return env.ix.projdata_to_vec(pd);
}

std::string
tmp_base()
{
  const char* t = std::getenv("VERIF_TMP");
  static long counter = 0;
  const std::string dir = t ? std::string(t) : cat("/tmp/verif_", long(getpid()));
  if (!t)
    (void)!system(("mkdir -p " + dir).c_str());
  return cat(dir, "/c13_", long(getpid()), "_", ++counter);
}

//! undo/apply through the whole-ProjData entry point (sym may be null: the documented default = trivial symmetries)
std::vector<double>
pass_whole(const BinNormalisation& N, const SymPtr& sym, const std::vector<double>& x, bool undo, Env& env, bool file_backed)
{
  if (!file_backed)
    {
      ProjDataInMemory pd(env.exam, env.pdi_data);
      env.ix.vec_to_projdata(pd, x);
      if (undo)
        N.undo(pd, sym);
      else
        N.apply(pd, sym);
      return env.ix.projdata_to_vec(pd);
    }
  const std::string base = tmp_base();
  std::vector<double> out;
  try
    {
      ProjDataInterfile pd(env.exam, env.pdi_data, base + ".hs", std::ios::in | std::ios::out | std::ios::trunc);
      env.ix.vec_to_projdata(pd, x);
      if (undo)
        N.undo(pd, sym);
      else
        N.apply(pd, sym);
      out = env.ix.projdata_to_vec(pd);
    }
  catch (...)
    {
      std::remove((base + ".hs").c_str());
      std::remove((base + ".s").c_str());
      throw;
    }
  std::remove((base + ".hs").c_str());
  std::remove((base + ".s").c_str());
  return out;
}

struct Group
{
  Flags fl;
  Built b;
  SymPtr sym;
  std::vector<double> U1, A1;
};

Flags
flags_of(const json& g)
{
  Flags f;
  f.trivial_class = g["trivial"].get<bool>();
  for (int i = 0; i < 5; ++i)
    f.f[i] = !f.trivial_class && g["f"][std::size_t(i)].get<int>() != 0;
  return f;
}

//! the other data geometries (same scanner) an object may be set up for in a history, before the set_up for the data geometry.
//! Every one is a valid ProjDataInfo; a class that cannot handle it says so with error() / Succeeded::no (accepted).
std::vector<std::pair<std::string, shared_ptr<ProjDataInfo>>>
alternative_geometries(const Env& env)
{
  std::vector<std::pair<std::string, shared_ptr<ProjDataInfo>>> v;
  const ProjDataInfo& p = *env.pdi_data;
  if (p.get_max_segment_num() > 0)
    {
      shared_ptr<ProjDataInfo> q = p.create_shared_clone();
      q->reduce_segment_range(0, 0);
      v.emplace_back("fewer segments", q);
    }
  if (p.get_num_tangential_poss() >= 3)
    {
      shared_ptr<ProjDataInfo> q = p.create_shared_clone();
      q->set_num_tangential_poss(p.get_num_tangential_poss() - 2);
      v.emplace_back("fewer tangential positions", q);
    }
  if (p.is_tof_data())
    v.emplace_back("non-TOF", shared_ptr<ProjDataInfo>(p.create_non_tof_clone()));
  try
    {
      // another view mashing (all other parameters as the full geometry of the case)
      json j = env.c["pdi"];
      const int views = j["views"].get<int>(), full = env.sc->get_num_detectors_per_ring() / 2;
      j["views"] = views < full ? full : (views % 2 == 0 && views >= 4 ? views / 2 : views);
      if (j["views"].get<int>() != views && env.sc->get_scanner_geometry() == "Cylindrical")
        v.emplace_back("other view mashing", vg::make_pdi(env.sc, j));
    }
  catch (const std::exception&)
    {}
  return v;
}

//! construction + set_up of one object tree for one grouping ("reason" set when STIR rejects the configuration).
//! With hist: the object goes through the call history described at the top of this file before the final set_up.
bool
make_group(Group& G, const json& spec, Env& env, std::string& reason, const json* hist = nullptr)
{
  try
    {
      G.b = build(spec, env, G.fl);
      if (hist)
        {
          const json& h = *hist;
          const auto alts = alternative_geometries(env);
          auto geometry = [&](int k) -> std::pair<std::string, shared_ptr<ProjDataInfo>> {
            if (k <= 0 || alts.empty())
              return { "same geometry", env.pdi_setup };
            return alts[std::size_t(k - 1) % alts.size()];
          };
          const bool pre_factors = h["pre_factors"].get<bool>() && !G.b.refill.empty();
          const int rounds = h["rounds"].get<int>();
          for (int round = 0; round < rounds; ++round)
            {
              if (pre_factors)
                {
                  for (auto& f : G.b.refill)
                    f(round, h);
                  stats().cls(h["realloc"].get<bool>() ? "history: components allocated and filled differently before" : "history: other component factors before");
                }
              const auto g = geometry(round == 0 ? h["alt"].get<int>() : h["alt2"].get<int>());
              // an earlier set_up may refuse the geometry (error() or Succeeded::no): the final set_up has to cope with that
              bool ok = false;
              vg::quiet();
              try
                {
                  ok = G.b.norm->set_up(env.exam, g.second) == Succeeded::yes;
                }
              catch (const stir_verif::AssertionFailure&)
                {
                  throw;
                }
              catch (const std::exception&)
                {}
              stats().cls(cat("history: earlier set_up, ", g.first, ok ? " (accepted)" : " (refused)"));
              if (ok && h["use_between"].get<bool>() && g.second->size_all() <= 2 * env.pdi_data->size_all() + 1000)
                {
                  // use the object for that geometry (fills whatever the members cache)
                  try
                    {
                      SymPtr sym;
                      if (!G.b.projectors.empty())
                        sym.reset(G.b.projectors[0]->get_symmetries_used()->clone());
                      ProjDataInMemory pd(env.exam, g.second);
                      pd.fill(1.F);
                      G.b.norm->undo(pd, sym);
                      (void)G.b.norm->is_trivial();
                      stats().cls("history: object used between the set_ups");
                    }
                  catch (const stir_verif::AssertionFailure&)
                    {
                      throw;
                    }
                  catch (const std::exception&)
                    {}
                }
            }
          // one member set up on its own for another geometry (the owner of the tree has to set it up again)
          const int ma = h["member_alt"].get<int>();
          if (ma >= 0 && G.b.leaves.size() > 1)
            {
              const auto g = geometry(h["member_alt_geom"].get<int>());
              try
                {
                  (void)G.b.leaves[std::size_t(ma) % G.b.leaves.size()]->set_up(env.exam, g.second);
                }
              catch (const stir_verif::AssertionFailure&)
                {
                  throw;
                }
              catch (const std::exception&)
                {}
              stats().cls("history: a chain member set up on its own for " + g.first);
            }
          // the final settings through the same accessors
          if (pre_factors)
            for (auto& f : G.b.refill)
              f(-1, h);
        }
      if (G.b.norm->set_up(env.exam, env.pdi_setup) != Succeeded::yes)
        {
          reason = "set_up returned Succeeded::no";
          return false;
        }
      if (!G.b.projectors.empty())
        G.sym.reset(G.b.projectors[0]->get_symmetries_used()->clone());
      else if (G.fl.trivial_class)
        G.sym.reset(new TrivialDataSymmetriesForBins(env.pdi_data));
      else
        G.sym.reset(new DataSymmetriesForBins_PET_CartesianGrid(env.pdi_data, env.image, G.fl.f[0], G.fl.f[1], G.fl.f[2], G.fl.f[3], G.fl.f[4]));
    }
  catch (const stir_verif::AssertionFailure&)
    {
      throw;
    }
  catch (const HarnessError&)
    {
      throw;
    }
  catch (const std::exception& e)
    {
      reason = e.what();
      return false;
    }
  return true;
}

bool
contains_kind(const json& s, const std::string& k)
{
  if (s["k"].get<std::string>() == k)
    return true;
  if (s["k"].get<std::string>() == "chain")
    for (const json& m : s["members"])
      if (contains_kind(m, k))
        return true;
  return false;
}

std::string
bin_str(const Bin& b)
{
  return cat("bin(seg ", b.segment_num(), ", ax ", b.axial_pos_num(), ", view ", b.view_num(), ", tang ", b.tangential_pos_num(), ", tof ", b.timing_pos_num(), ")");
}

Result
check(const json& c)
{
  g_excluded.clear();
  Env env{ c, {}, {}, {}, {}, {}, {}, {}, {} };
  try
    {
      env.sc = c20::make_scanner(c["scanner"]);
      if (env.sc->check_consistency() != Succeeded::yes)
        return Result::reject("scanner inconsistent");
      env.pdi_full = vg::make_pdi(env.sc, c["pdi"]);
      env.pdi_data = env.pdi_full->create_shared_clone();
      const int dms = c["data_max_seg"].get<int>();
      if (dms >= 0 && dms < env.pdi_data->get_max_segment_num())
        env.pdi_data->reduce_segment_range(-dms, dms);
      env.image = vg::make_image(c["image"], *env.pdi_data, 40);
      // 0: set_up with the object the data use (as before), 1: an equal-valued separate object, 2: the full geometry (>= the data's)
      const int su = c.value("setup_geom", 0);
      env.pdi_setup = su == 2 ? env.pdi_full : (su == 1 ? env.pdi_data->create_shared_clone() : env.pdi_data);
      // arc-corrected bins must lie inside the detector ring: ProjDataInfoCylindrical::get_tantheta asserts R >= |s|
      // (sqrt of a negative number otherwise).  The generator keeps them inside; a hand-made case is rejected.
      {
        const ProjDataInfo& p = *env.pdi_data;
        const float smax_mm = std::max(std::fabs(p.get_s(Bin(0, 0, 0, p.get_min_tangential_pos_num()))), std::fabs(p.get_s(Bin(0, 0, 0, p.get_max_tangential_pos_num()))));
        if (dynamic_cast<const ProjDataInfoCylindricalArcCorr*>(&p) && !(smax_mm < 0.98F * env.sc->get_effective_ring_radius()))
          return Result::reject("tangential positions reach beyond the detector ring");
      }
    }
  catch (const stir_verif::AssertionFailure&)
    {
      throw;
    }
  catch (const std::exception& e)
    {
      return Result::reject(std::string("construction rejected: ") + e.what());
    }
  env.exam.reset(new ExamInfo);
  env.exam->imaging_modality = ImagingModality(ImagingModality::PT);
  env.ix = make_indexer(env.pdi_data);
  const long N = env.nb();
  if (N > 80000)
    return Result::reject("too many bins for this check");
  const json& spec = c["norm"];
  const std::string top = spec["k"];
  const bool tof = env.pdi_data->is_tof_data();

  // ---- object trees, one per grouping ---------------------------------------------------------------------------------
  std::vector<Group> groups;
  for (const json& gj : c["groupings"])
    {
      Group G;
      G.fl = flags_of(gj);
      std::string reason;
      if (!make_group(G, spec, env, reason))
        {
          if (groups.empty())
            return Result::reject("rejected by STIR: " + reason.substr(0, 70));
          stats().count("groupings skipped (constructor rejects)");
          continue;
        }
      groups.push_back(std::move(G));
    }
  if (groups.empty())
    return Result::reject("no grouping");
  // ---- history: grouping 0 is evaluated on an object with a call history; the fresh object becomes its twin --------------------
  std::unique_ptr<Group> twin;
  if (c.contains("history"))
    {
      Group H;
      H.fl = groups[0].fl;
      std::string reason;
      const bool ok = make_group(H, spec, env, reason, &c["history"]);
      VF_CHECK(ok, "history ", c["history"].dump(), ": the final set_up for the data geometry fails (", reason.substr(0, 100),
               ") although a freshly constructed object with the same settings accepts it");
      twin.reset(new Group(std::move(groups[0])));
      groups[0] = std::move(H);
      stats().cls("history: object with a call history compared with a fresh twin");
    }
  Group& G0 = groups[0];
  const Built& R = G0.b;
  stats().cls("class " + top);
  if (env.pdi_setup != env.pdi_data)
    stats().cls(env.pdi_setup->get_max_segment_num() > env.pdi_data->get_max_segment_num() ? "set_up for a larger geometry than the data (more segments)"
                                                                                            : "set_up with a separate equal ProjDataInfo object");
  if (top == "chain")
    stats().cls(cat("chain of ", spec["members"].size()));
  if (tof)
    stats().cls(contains_kind(spec, "projdata") ? "TOF data, from-projdata member" : "TOF data");
  if (env.pdi_data->get_max_segment_num() < env.pdi_full->get_max_segment_num() && contains_kind(spec, "projdata"))
    stats().cls("factors with more segments than the data");
  stats().count("bins", N);
  stats().count("groupings compared", long(groups.size()));

  // ---- data -----------------------------------------------------------------------------------------------------------------
  std::vector<double> x1(static_cast<std::size_t>(N)), x2(static_cast<std::size_t>(N));
  {
    vf::SplitMix g(c["seed_x"].get<uint64_t>());
    for (long i = 0; i < N; ++i)
      {
        x1[std::size_t(i)] = double(float(g.real(5., 20.)));
        x2[std::size_t(i)] = double(float(g.real(1., 100.)));
      }
    // data are any floats (precorrected data have zeros and negative values): in this class x1 holds exact zeros (~8 %) and negative
    // values (~12 %); x2 stays positive, so the factor of a bin with x1 == 0 is still determined (from x2)
    if (c.value("x_signed", 0) != 0)
      {
        vf::SplitMix h(c["seed_x"].get<uint64_t>() ^ 0x51e9edULL);
        long nz = 0, nn = 0;
        for (long i = 0; i < N; ++i)
          {
            const double r = h.real(0., 1.);
            if (r < 0.08)
              x1[std::size_t(i)] = 0., ++nz;
            else if (r < 0.20)
              x1[std::size_t(i)] = -x1[std::size_t(i)], ++nn;
          }
        stats().cls("data with exact zeros and negative values");
        stats().count("data bins exactly 0", nz);
        stats().count("data bins negative", nn);
      }
  }
  const BinNormalisation& N0 = *G0.b.norm;
  G0.U1 = pass_viewgrams(N0, G0.sym, x1, true, env);
  G0.A1 = pass_viewgrams(N0, G0.sym, x1, false, env);
  const std::vector<double> U2 = pass_viewgrams(N0, G0.sym, x2, true, env);
  const std::vector<double>&U1 = G0.U1, &A1 = G0.A1;

  // ---- (1) one fixed positive factor array; apply divides by it; it equals the reference ------------------------------------------
  long n_skip = 0;
  for (long i = 0; i < N; ++i)
    {
      const std::size_t u = std::size_t(i);
      const Bin& bin = env.ix.bins[u];
      const double er = R.e[u];
      if (R.skip[u])
        {
          ++n_skip;
          if (er == 0.)
            VF_CHECK(U1[u] == 0. && U2[u] == 0., R.label, ": zero-efficiency ", bin_str(bin), " but undo gives ", U1[u], " / ", U2[u]);
          else if (std::isinf(er))
            VF_CHECK(A1[u] == 0., R.label, ": zero factor at ", bin_str(bin), " but apply gives ", A1[u]);
          continue;
        }
      const double e2 = U2[u] / x2[u];
      if (x1[u] == 0.)
        {
          // 0 x e = 0 and 0 / e = 0 for the finite positive e of this bin; e itself is decided on x2
          VF_CHECK(U1[u] == 0. && A1[u] == 0., R.label, ": data value 0 at ", bin_str(bin), " becomes ", U1[u], " (undo) / ", A1[u], " (apply)");
          VF_CHECK(e2 > 0 && std::isfinite(e2), R.label, ": undo multiplies ", bin_str(bin), " by ", e2, " (not a positive factor)");
          smax(R.has_atten ? "max rel dev e vs reference (with attenuation member)" : "max rel dev e vs reference (no projector)", std::fabs(e2 - er) / er);
          VF_CHECK(std::fabs(e2 - er) <= R.tol_ref * er, R.label, ": undo multiplies ", bin_str(bin), " by ", e2, " but the efficiency is ", er);
          continue;
        }
      const double e1 = U1[u] / x1[u];
      VF_CHECK(e1 > 0 && std::isfinite(e1), R.label, ": undo multiplies ", bin_str(bin), " by ", e1, " (not a positive factor)");
      smax("max rel dev e(x1) vs e(x2)", std::fabs(e1 - e2) / e1);
      VF_CHECK(std::fabs(e1 - e2) <= TOL_SAME_E * e1, R.label, ": the factor of undo depends on the data at ", bin_str(bin), ": ", e1, " vs ", e2);
      smax(R.has_atten ? "max rel dev e vs reference (with attenuation member)" : "max rel dev e vs reference (no projector)", std::fabs(e1 - er) / er);
      VF_CHECK(std::fabs(e1 - er) <= R.tol_ref * er, R.label, ": undo multiplies ", bin_str(bin), " by ", e1, " but the efficiency is ", er);
      const double back = A1[u] * e1;
      smax("max rel dev apply(x) e vs x", std::fabs(back - x1[u]) / std::fabs(x1[u]));
      VF_CHECK(std::fabs(back - x1[u]) <= TOL_SAME_E * 2 * std::fabs(x1[u]), R.label, ": apply does not divide by the factor of undo at ", bin_str(bin), ": apply(x)=", A1[u],
               " x=", x1[u], " e=", e1);
    }
  stats().count("bins outside the inverse clauses (zero efficiency / zero factor)", n_skip);
  if (n_skip)
    stats().cls("labelled: zero efficiencies or zero factors present");

  // ---- (2) inverse ------------------------------------------------------------------------------------------------------------------
  {
    const std::vector<double> AU = pass_viewgrams(N0, G0.sym, U1, false, env);
    const std::vector<double> UA = pass_viewgrams(N0, G0.sym, A1, true, env);
    for (long i = 0; i < N; ++i)
      {
        const std::size_t u = std::size_t(i);
        if (R.skip[u])
          continue;
        if (x1[u] != 0.)
          smax("max rel dev apply(undo(x)) vs x", std::max(std::fabs(AU[u] - x1[u]), std::fabs(UA[u] - x1[u])) / std::fabs(x1[u]));
        VF_CHECK(std::fabs(AU[u] - x1[u]) <= TOL_INVERSE * std::fabs(x1[u]), R.label, ": apply(undo(x)) != x at ", bin_str(env.ix.bins[u]), ": ", AU[u], " vs ", x1[u]);
        VF_CHECK(std::fabs(UA[u] - x1[u]) <= TOL_INVERSE * std::fabs(x1[u]), R.label, ": undo(apply(x)) != x at ", bin_str(env.ix.bins[u]), ": ", UA[u], " vs ", x1[u]);
      }
  }

  // ---- (5) other groupings and the whole-data entry points ---------------------------------------------------------------------------------
  const bool file_backed = c["file_backed"].get<bool>();
  auto compare = [&](const std::vector<double>& a, const std::vector<double>& b, double tol, const std::string& what) -> Result {
    const bool is_apply = what.compare(0, 5, "apply") == 0;
    for (long i = 0; i < N; ++i)
      {
        const std::size_t u = std::size_t(i);
        // division by a zero efficiency (apply) or by a zero factor (undo) is outside the property: nothing to compare
        if (R.skip[u] && (std::isnan(R.e[u]) || (is_apply ? R.e[u] == 0. : std::isinf(R.e[u]))))
          continue;
        const double d = std::fabs(a[u] - b[u]);
        if (b[u] != 0)
          smax(tol == 0 ? "max rel dev where identical results are required" : "max rel dev between groupings (attenuation member)", d / std::fabs(b[u]));
        if (!(d <= tol * std::fabs(b[u])))
          return Result::fail(cat(R.label, ": ", what, " differ at ", bin_str(env.ix.bins[u]), ": ", a[u], " vs ", b[u]));
      }
    return Result::pass();
  };
  for (std::size_t gi = 0; gi < groups.size(); ++gi)
    {
      Group& G = groups[gi];
      const BinNormalisation& Ng = *G.b.norm;
      if (gi > 0)
        {
          G.U1 = pass_viewgrams(Ng, G.sym, x1, true, env);
          G.A1 = pass_viewgrams(Ng, G.sym, x1, false, env);
          // without a projector every grouping performs the same float operation per bin: identical results
          const double tol_g = R.has_atten ? TOL_GROUPING : 0.;
          Result r = compare(G.U1, U1, tol_g, cat("undo with grouping ", gi, " and with grouping 0"));
          if (r.failed())
            return r;
          r = compare(G.A1, A1, tol_g, cat("apply with grouping ", gi, " and with grouping 0"));
          if (r.failed())
            return r;
        }
      // same object, same grouping, whole-data entry: the same operations -> identical results
      const bool fb = file_backed && gi == 0;
      if (fb)
        stats().cls("whole-data entry on file-backed data");
      Result r = compare(pass_whole(Ng, G.sym, x1, true, env, fb), G.U1, 0., cat("undo(ProjData) and undo(RelatedViewgrams), grouping ", gi));
      if (r.failed())
        return r;
      r = compare(pass_whole(Ng, G.sym, x1, false, env, false), G.A1, 0., cat("apply(ProjData) and apply(RelatedViewgrams), grouping ", gi));
      if (r.failed())
        return r;
      // default argument (no symmetries given = trivial symmetries), possible when no projector dictates the grouping
      if (G.b.projectors.empty() || (G.fl.trivial_class))
        {
          r = compare(pass_whole(Ng, SymPtr(), x1, true, env, false), G.U1, R.has_atten ? TOL_GROUPING : 0., cat("undo(ProjData) with default symmetries and grouping ", gi));
          if (r.failed())
            return r;
        }
    }
  if (groups.size() >= 2)
    stats().cls(">= 2 groupings compared");

  // ---- (3) get_bin_efficiency ---------------------------------------------------------------------------------------------------------------
  {
    bool implemented = true;
    try
      {
        Bin b0 = env.ix.bins[0];
        (void)N0.get_bin_efficiency(b0);
      }
    catch (const stir_verif::AssertionFailure&)
      {
        throw;
      }
    catch (const std::exception&)
      {
        implemented = false; // documented "not implemented": the error() is accepted
      }
    VF_CHECK(implemented || !R.geb, R.label, ": get_bin_efficiency throws although every member implements it");
    if (implemented)
      {
        stats().cls("get_bin_efficiency compared");
        for (long i = 0; i < N; ++i)
          {
            const std::size_t u = std::size_t(i);
            const double ge = N0.get_bin_efficiency(env.ix.bins[u]);
            if (R.skip[u])
              {
                if (R.e[u] == 0.)
                  VF_CHECK(ge == 0., R.label, ": get_bin_efficiency = ", ge, " at zero-efficiency ", bin_str(env.ix.bins[u]));
                continue;
              }
            const double e1 = x1[u] != 0. ? U1[u] / x1[u] : U2[u] / x2[u];
            smax("max rel dev get_bin_efficiency vs e", std::fabs(ge - e1) / e1);
            VF_CHECK(std::fabs(ge - e1) <= TOL_GEB * e1, R.label, ": get_bin_efficiency = ", ge, " but undo multiplies by ", e1, " at ", bin_str(env.ix.bins[u]));
          }
      }
    else
      stats().cls("get_bin_efficiency not implemented (error() accepted)");
  }

  // ---- (6) is_trivial ---------------------------------------------------------------------------------------------------------------
  {
    const bool triv = N0.is_trivial();
    if (top == "trivial")
      VF_CHECK(triv, "TrivialBinNormalisation does not report itself trivial");
    if (triv)
      {
        stats().cls(R.exact_unit ? "is_trivial(): exact" : "is_trivial(): within the documented 1e-4");
        for (long i = 0; i < N; ++i)
          {
            const std::size_t u = std::size_t(i);
            if (R.exact_unit)
              VF_CHECK(U1[u] == x1[u] && A1[u] == x1[u], R.label, ": reports is_trivial() but changes ", bin_str(env.ix.bins[u]), ": x=", x1[u], " undo=", U1[u],
                       " apply=", A1[u]);
            else
              // BinNormalisationPETFromComponents::is_trivial: "up to a tolerance of 1e-4" per component, up to 4 components per bin
              VF_CHECK(std::fabs(U1[u] - x1[u]) <= 5e-4 * std::fabs(x1[u]) && std::fabs(A1[u] - x1[u]) <= 5e-4 * std::fabs(x1[u]), R.label,
                       ": reports is_trivial() but changes ", bin_str(env.ix.bins[u]), " by more than the documented tolerance: x=", x1[u], " undo=", U1[u]);
          }
      }
  }

  // ---- histories: the object behaves exactly like a freshly constructed one with the final settings ------------------------------------------
  if (twin)
    {
      const BinNormalisation& Nt = *twin->b.norm;
      // same settings, same symmetry switches, same operations per bin: identical results
      Result r = compare(U1, pass_viewgrams(Nt, twin->sym, x1, true, env), 0., "undo of the object with a call history and of a fresh object");
      if (r.failed())
        return r;
      r = compare(A1, pass_viewgrams(Nt, twin->sym, x1, false, env), 0., "apply of the object with a call history and of a fresh object");
      if (r.failed())
        return r;
      VF_CHECK(N0.is_trivial() == Nt.is_trivial(), R.label, ": is_trivial() = ", N0.is_trivial(), " after the call history but ", Nt.is_trivial(),
               " for a fresh object with the same settings");
      if (R.geb)
        for (long i = 0; i < N; ++i)
          {
            const float gh = N0.get_bin_efficiency(env.ix.bins[std::size_t(i)]), gt = Nt.get_bin_efficiency(env.ix.bins[std::size_t(i)]);
            VF_CHECK(gh == gt || (std::isnan(gh) && std::isnan(gt)), R.label, ": get_bin_efficiency = ", gh, " after the call history but ", gt,
                     " for a fresh object at ", bin_str(env.ix.bins[std::size_t(i)]));
          }
    }

  // ---- (7) attenuation: anchor and additivity -------------------------------------------------------------------------------------------
  if (top == "atten")
    {
      const std::string mode = spec["mode"];
      stats().cls("attenuation image: " + mode);
      if (mode == "zero")
        for (long i = 0; i < N; ++i)
          VF_CHECK(U1[std::size_t(i)] == x1[std::size_t(i)] && A1[std::size_t(i)] == x1[std::size_t(i)], "ACF(0) != 1 at ", bin_str(env.ix.bins[std::size_t(i)]));
      if (mode == "cylinder")
        {
          // LORs through the axis (tangential position 0 has s = 0) in segment 0: ACF = exp(2 R mu / 10) within 2 voxels of path
          const double Rmm = cylinder_radius(*env.image, spec), mu = double(float(mu_value(*env.image, spec)));
          const double v = std::max(env.image->get_voxel_size().x(), env.image->get_voxel_size().y());
          long n = 0;
          if (Rmm > 2 * v && mu > 0)
            for (long i = 0; i < N; ++i)
              {
                const Bin& b = env.ix.bins[std::size_t(i)];
                if (b.segment_num() != 0 || b.tangential_pos_num() != 0 || x1[std::size_t(i)] == 0.)
                  continue;
                const double L = std::log(A1[std::size_t(i)] / x1[std::size_t(i)]) * 10. / mu;
                ++n;
                smax("max |path - 2R| / voxel (cylinder anchor)", std::fabs(L - 2 * Rmm) / v);
                VF_CHECK(std::fabs(L - 2 * Rmm) <= 2 * v + 0.01 * 2 * Rmm, "cylinder anchor: attenuation path through the axis = ", L, " mm, expected 2R = ",
                         2 * Rmm, " mm (voxel ", v, " mm, mu ", mu, " cm^-1) at ", bin_str(b));
              }
          stats().count("cylinder anchor bins", n);
        }
      if (c.contains("mu2"))
        {
          // ACF(mu1 + mu2) = ACF(mu1) ACF(mu2)
          json sum = spec;
          sum["mode"] = "sum";
          sum["a"] = spec;
          json s2 = spec;
          for (auto it = c["mu2"].begin(); it != c["mu2"].end(); ++it)
            s2[it.key()] = it.value();
          sum["b"] = s2;
          Group Gb, Gs;
          Gb.fl = Gs.fl = G0.fl;
          std::string reason;
          if (make_group(Gb, s2, env, reason) && make_group(Gs, sum, env, reason))
            {
              stats().cls("attenuation additivity checked");
              const std::vector<double> Ab = pass_viewgrams(*Gb.b.norm, Gb.sym, x1, false, env);
              const std::vector<double> As = pass_viewgrams(*Gs.b.norm, Gs.sym, x1, false, env);
              for (long i = 0; i < N; ++i)
                {
                  const std::size_t u = std::size_t(i);
                  if (x1[u] == 0.)
                    continue;
                  const double acf_a = A1[u] / x1[u], acf_b = Ab[u] / x1[u], acf_s = As[u] / x1[u];
                  smax("max rel dev ACF(mu1+mu2) vs product", std::fabs(acf_s - acf_a * acf_b) / (acf_a * acf_b));
                  VF_CHECK(std::fabs(acf_s - acf_a * acf_b) <= TOL_ATT * acf_a * acf_b, "ACF(mu1+mu2) = ", acf_s, " but ACF(mu1) ACF(mu2) = ", acf_a, " x ", acf_b,
                           " at ", bin_str(env.ix.bins[u]));
                }
            }
        }
    }
  return Result::pass();
}

// ---- generator -----------------------------------------------------------------------------------------------------------------------------
json
gen_member(Src& s, const std::string& k)
{
  json m;
  m["k"] = k;
  if (k == "projdata")
    {
      m["seed"] = s.seed64();
      m["tof_factors"] = s.chance(1, 3); // TOF data with non-TOF factors is the frequent case
      m["zeros"] = s.chance(1, 8);
    }
  else if (k == "atten")
    {
      m["mode"] = s.pick(std::vector<std::string>{ "random", "random", "random", "cylinder", "cylinder", "zero" });
      m["seed"] = s.seed64();
      m["mu_max"] = s.pick(std::vector<double>{ 0.02, 0.096, 0.096, 0.15, 0.2 });
      m["R_frac"] = s.pick(std::vector<double>{ 1., 0.8, 0.6 });
      m["lors"] = int(s.small(1, 3));
      m["cyl_fov"] = s.chance(3, 4);
      m["cache"] = int(s.pick(std::vector<int>{ 2, 2, 1, 0 }));
    }
  else if (k == "base")
    {
      m["seed"] = s.seed64();
      m["tof_dependent"] = s.coin();
      m["zeros"] = s.chance(1, 6);
    }
  else if (k == "components")
    {
      m["seed"] = s.seed64();
      m["eff"] = s.chance(4, 5);
      m["geo"] = s.chance(1, 2);
      m["block"] = s.chance(1, 3);
      m["sym_per_block"] = s.coin();
      m["near_one"] = int(s.pick(std::vector<int>{ 0, 0, 0, 0, 0, 0, 1, 2 }));
      // dead crystals (efficiency exactly 0, legal: the ML estimation writes 0 for a detector without counts); with them the
      // all-1 / near-1 factors are made frequent, so that "reports itself trivial" is decided with zeroed bins on scanners WITHOUT gaps
      m["dead"] = s.chance(1, 4) ? int(s.range(1, 2)) : 0;
      if (m["dead"].get<int>() > 0)
        {
          m["eff"] = true;
          if (s.chance(1, 3))
            m["near_one"] = int(s.range(1, 2));
        }
    }
  return m;
}

json
gen(Src& s, int size)
{
  json c;
  // class of the case
  const int roll = int(s.range(0, 99));
  const std::vector<std::string> member_kinds = { "trivial", "projdata", "projdata", "projdata", "atten", "atten", "components", "components", "base" };
  json spec;
  if (roll < 6)
    spec = gen_member(s, "trivial");
  else if (roll < 12)
    spec = gen_member(s, "base"); // harness class on the base-class defaults
  else if (roll < 30)
    spec = gen_member(s, "projdata");
  else if (roll < 52)
    spec = gen_member(s, "atten");
  else if (roll < 72)
    spec = gen_member(s, "components");
  else
    {
      spec["k"] = "chain";
      const int nm = int(s.range(1, 3));
      json ms = json::array();
      for (int i = 0; i < nm; ++i)
        ms.push_back(gen_member(s, s.pick(member_kinds)));
      spec["members"] = ms;
      spec["left_nested"] = s.coin();
    }
  const bool comp = contains_kind(spec, "components"), att = contains_kind(spec, "atten");
  // geometry
  const long max_bins = size < 40 ? 8000 : 25000;
  for (int tries = 0;; ++tries)
    {
      if (comp && s.chance(1, 3))
        {
          // small scanner of a family with virtual crystals (see c20_fanref.h)
          struct Fam
          {
            int type, v_tr, v_ax;
          };
          const std::vector<Fam> fams = { { int(Scanner::Siemens_mMR), 1, 0 },        { int(Scanner::Siemens_mCT), 1, 1 },  { int(Scanner::E1080), 1, 1 },
                                          { int(Scanner::Siemens_Vision_600), 1, 0 }, { int(Scanner::UPENN_5rings), 1, 0 } }; // the five families of C20
          const Fam f = fams[std::size_t(s.range(0, 4))];
          json j;
          j["family"] = f.type;
          int p_tr, nb_tr, n, guard = 0;
          do
            {
              p_tr = int(s.small(1, 5));
              nb_tr = int(s.small(2, 8));
              n = (p_tr + f.v_tr) * nb_tr;
              if (++guard > 60)
                {
                  p_tr = 2;
                  nb_tr = 4;
                  n = 12;
                }
          } while (n % 2 != 0 || (p_tr * nb_tr) % 2 != 0 || n > 36);
          const int p_ax = int(s.small(1, 2)), nb_ax = int(s.small(1, 3));
          j["ndet"] = n;
          j["rings"] = (p_ax + f.v_ax) * nb_ax - f.v_ax;
          j["tr_cryst_per_block"] = p_tr + f.v_tr;
          j["ax_cryst_per_block"] = p_ax + f.v_ax;
          j["tr_blocks_per_bucket"] = int(s.pick(vg::divisors(nb_tr)));
          j["ax_blocks_per_bucket"] = int(s.pick(vg::divisors(nb_ax)));
          j["max_tang"] = n - 1;
          j["radius"] = s.nice_real(50., 450.);
          j["doi"] = s.coin() ? 0. : s.nice_real(0., 12.);
          j["ring_spacing"] = s.nice_real(1., 8.);
          j["bin_size"] = s.nice_real(1., 6.);
          c["scanner"] = j;
        }
      else
        {
          vg::ScannerOpts so;
          so.max_ndet = comp ? 32 : (size < 40 ? 24 : 48);
          so.max_rings = size < 40 ? 3 : 5;
          // TOF: fine for trivial / from-projdata; attenuation and components reject TOF data at set_up (kept as a small class)
          so.allow_tof = (!comp && !att) || s.chance(1, 12);
          so.allow_blocks = false;
          so.allow_tilt = true;
          c["scanner"] = vg::gen_scanner(s, so);
          // TOF data with non-TOF (and TOF) factors is a class of its own: make it frequent for the from-projdata cases
          if (so.allow_tof && !comp && !att && s.coin())
            for (int k = 0; k < 3 && c["scanner"]["tof_poss"].get<int>() == 0; ++k)
              c["scanner"] = vg::gen_scanner(s, so);
        }
      shared_ptr<Scanner> sc = c20::make_scanner(c["scanner"]);
      vg::PdiOpts po;
      po.allow_arccorr = !comp;
      json p;
      if (c["scanner"].contains("family"))
        {
          p["span"] = 1;
          p["max_delta"] = int(s.range(0, sc->get_num_rings() - 1));
          p["views"] = sc->get_num_detectors_per_ring() / 2;
          p["tang"] = int(s.range(2, sc->get_max_num_non_arccorrected_bins()));
          p["arccorr"] = false;
          p["tof_mash"] = 0;
          p["trim"] = json::object();
        }
      else
        p = vg::gen_pdi(s, *sc, po);
      if (p["arccorr"].get<bool>())
        {
          // arc-corrected bins have to stay inside the ring (assert(R >= fabs(get_s(bin))) in ProjDataInfoCylindrical::get_tantheta)
          const double r_eff = sc->get_effective_ring_radius(), bs = sc->get_default_bin_size();
          const int max_t = 2 * int(std::floor(0.95 * r_eff / bs)) - 1;
          if (max_t < 2)
            p["arccorr"] = false;
          else
            p["tang"] = std::min(p["tang"].get<int>(), max_t);
        }
      if (comp)
        {
          // BinNormalisationPETFromComponents: "does not handle compressed projection data (i.e. span etc)"; its set_up goes through
          // make_fan_data_remove_gaps -> get_fan_info: span 1, no view mashing, not arc-corrected
          p["span"] = 1;
          p["views"] = sc->get_num_detectors_per_ring() / 2;
          p["arccorr"] = false;
          p["max_delta"] = std::min(p["max_delta"].get<int>(), sc->get_num_rings() - 1);
          if (p["trim"].contains("tang_cut"))
            p["trim"]["tang_cut"] = 0;
          // FanProjData constructor precondition: fan smaller than the ring (after removal of the virtual crystals)
          const Blocks B = Blocks::from(*sc);
          for (int t = p["tang"].get<int>(); t >= 1; --t)
            {
              p["tang"] = t;
              const int half_fan = std::min(-(t / 2) + t - 1, t / 2);
              const int fan = 2 * half_fan + 1;
              if (2 * ((fan - (fan / B.c_tr) * B.v_tr) / 2) + 1 < B.nphys)
                break;
            }
        }
      c["pdi"] = p;
      long bins = 0;
      try
        {
          bins = long(vg::make_pdi(sc, c["pdi"])->size_all());
        }
      catch (...)
        {
          bins = 0;
        }
      if (bins <= max_bins || tries > 8)
        {
          if (bins > max_bins)
            {
              c["pdi"]["tof_mash"] = 0;
              c["pdi"]["max_delta"] = c["pdi"]["span"].get<int>() / 2;
            }
          break;
        }
    }
  c["data_max_seg"] = s.chance(1, 5) ? int(s.range(0, 2)) : -1;
  // image grid: voxel sizes deliberately not commensurate with the bin size (LORs never lie on voxel boundaries exactly)
  vg::ImageOpts io;
  io.max_xy = size < 40 ? 11 : 15;
  json im = vg::gen_image(s, io);
  im["vx_rel"] = s.pick(std::vector<double>{ 0.937, 0.937, 0.53, 1.871, 1.419, 0.7687 });
  im["vy_rel"] = s.pick(std::vector<double>{ 0.937, 0.53, 1.871, 1.283 });
  if (att)
    {
      // room for an object inside the FOV
      im["nx"] = std::max(9, im["nx"].get<int>());
      im["ny"] = std::max(9, im["ny"].get<int>());
    }
  if (spec["k"] == "atten" && spec["mode"] == "cylinder")
    {
      // standard axial extent: every direct plane of segment 0 lies inside the image
      im["z_div"] = 1;
      im["nz_extra"] = 0;
      im["z_shift_planes"] = 0;
      im["nx"] = std::max(15, im["nx"].get<int>());
      im["ny"] = std::max(15, im["ny"].get<int>());
    }
  c["image"] = im;
  c["norm"] = spec;
  if (spec["k"] == "atten" && spec["mode"] != "zero" && s.chance(1, 2))
    c["mu2"] = { { "mode", s.coin() ? "random" : "cylinder" }, { "seed", s.seed64() }, { "R_frac", 0.5 }, { "mu_max", 0.07 } };
  // groupings: the trivial one + one or two PET groupings
  json gs = json::array();
  gs.push_back({ { "trivial", true }, { "f", { 0, 0, 0, 0, 0 } } });
  gs.push_back({ { "trivial", false }, { "f", { 1, 1, 1, 1, 1 } } });
  if (s.coin())
    {
      json f = json::array();
      for (int i = 0; i < 5; ++i)
        f.push_back(s.coin() ? 1 : 0);
      gs.push_back({ { "trivial", false }, { "f", f } });
    }
  if (s.chance(1, 4))
    std::swap(gs[0], gs[1]);
  c["groupings"] = gs;
  c["seed_x"] = s.seed64();
  c["file_backed"] = s.chance(1, 6);
  // call history of the object of grouping 0 (see the top of this file); the trivial class has no state
  if (spec["k"] != "trivial" && s.chance(comp ? 3 : 2, 5))
    {
      json h;
      h["rounds"] = s.chance(3, 4) ? 1 : 2;
      h["alt"] = s.chance(1, 2) ? 0 : int(s.range(1, 4));  // 0: same geometry, k: k-th applicable other geometry
      h["alt2"] = s.chance(1, 2) ? 0 : int(s.range(1, 4)); // geometry of the second round
      h["pre_factors"] = s.chance(4, 5);                   // components: other factors before the final ones
      h["pre_near_one"] = int(s.pick(std::vector<int>{ 0, 0, 0, 1, 2 }));
      h["realloc"] = !s.chance(3, 4);
      h["pre_flags"] = { s.coin() ? 1 : 0, s.coin() ? 1 : 0, s.coin() ? 1 : 0 };
      h["use_between"] = s.coin();
      h["member_alt"] = (spec["k"] == "chain" && s.chance(1, 3)) ? int(s.range(0, 2)) : -1;
      h["member_alt_geom"] = int(s.range(0, 4));
      h["pre_dead"] = s.chance(1, 4) ? 1 : 0; // components: a dead crystal in the EARLIER factors
      c["history"] = h;
    }
  // data with exact zeros and negative values
  c["x_signed"] = s.chance(1, 3) ? 1 : 0;
  // the ProjDataInfo handed to set_up / allocate: the data's own object, an equal separate object, or the full geometry (more
  // segments than the data; BinNormalisation::check: "*proj_data_info_sptr >= proj_data_info")
  c["setup_geom"] = int(s.pick(std::vector<int>{ 0, 0, 1, 2, 2 }));
  if (c["setup_geom"].get<int>() == 2 && c["data_max_seg"].get<int>() < 0)
    c["data_max_seg"] = int(s.range(0, 1));
  return c;
}

bool
nontrivial(const json& c)
{
  return c["norm"]["k"].get<std::string>() != "trivial" && c["groupings"].size() >= 2;
}

} // namespace

const Property&
the_property()
{
  static Property p;
  p.id = "C13";
  p.gen = gen;
  p.check = check;
  p.nontrivial = nontrivial;
  p.rule = "normalisation class other than the trivial one and >= 2 symmetry groupings compared";
  return p;
}

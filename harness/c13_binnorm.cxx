// C13 - bin normalisation: apply and undo are inverse and match the bin efficiency.
//
// One case = geometry + image grid + a tree of normalisation objects (trivial / from projection data / from an attenuation
// image / from detector components / chains of 1-3 of these) + 2-3 symmetry groupings of the viewgrams.
// For every grouping a FRESH object tree is built, set up and driven through RelatedViewgrams and through the whole-ProjData
// entry points (memory, sometimes file backed).  The reference efficiency e of every bin is computed by the harness:
//   from projection data : e = 1 / factor            (apply multiplies with the stored factors, BinNormalisationFromProjData.h)
//   attenuation image    : e = exp(-sum_v P_bv mu_v vx/10) with P assembled row by row from a symmetry-free, cache-free matrix
//   components           : e = eff_i eff_j g_ij B_ij of the detector pair of the bin, 0 for virtual crystals
//   chain                : product of the members;   trivial : 1
// Clauses (1)-(7) of DESIGN.md "### C13".
#include "explicit_p.h"
#include "c20_fanref.h"
#include "stir/recon_buildblock/BinNormalisation.h"
#include "stir/recon_buildblock/TrivialBinNormalisation.h"
#include "stir/recon_buildblock/BinNormalisationFromProjData.h"
#include "stir/recon_buildblock/BinNormalisationFromAttenuationImage.h"
#include "stir/recon_buildblock/BinNormalisationPETFromComponents.h"
#include "stir/recon_buildblock/ChainedBinNormalisation.h"
#include "stir/recon_buildblock/ForwardProjectorByBinUsingProjMatrixByBin.h"
#include "stir/recon_buildblock/TrivialDataSymmetriesForBins.h"
#include "stir/recon_buildblock/DataSymmetriesForBins_PET_CartesianGrid.h"
#include "stir/ProjDataInterfile.h"
#include "stir/RelatedViewgrams.h"
#include "stir/ViewSegmentNumbers.h"
#include "stir/ExamInfo.h"
#include <map>
#include <unistd.h>
#include <cstdio>

using namespace vf;
using namespace stir;
using c20::Blocks;
using c20::FanDims;

namespace {

const bool no_exclude = std::getenv("VERIF_NO_EXCLUDE") != nullptr;

// tolerances, all relative to the reference value of the bin
const double TOL_SAME_E = 2e-6;    // e from x1 vs e from x2 (a few float roundings per member)
const double TOL_INVERSE = 1e-5;   // apply(undo(x)) = x, as the design states
const double TOL_GROUPING = 2e-5;  // other grouping / other entry point (attenuation: other summation order)
const double TOL_GEB = 2e-6;       // get_bin_efficiency vs e
const double TOL_ATT = 1e-4;       // attenuation factors vs explicit matrix, as the design states
const double TOL_EXACT_REF = 2e-6; // e vs reference for the classes without projector

struct Flags
{
  bool trivial_class = true; // TrivialDataSymmetriesForBins object (else DataSymmetriesForBins_PET_CartesianGrid with f[])
  bool f[5] = { false, false, false, false, false };
};

struct Env
{
  const json& c;
  shared_ptr<Scanner> sc;
  shared_ptr<ProjDataInfo> pdi_full, pdi_data;
  shared_ptr<ExamInfo> exam;
  shared_ptr<VoxelsOnCartesianGrid<float>> image;
  vp::ExplicitP ix; // indexer of the data bins (rows unused)
  std::map<std::tuple<int, bool>, vp::ExplicitP> matrices;
  long nb() const { return ix.nbins(); }
  const vp::ExplicitP& matrix(int lors, bool cyl)
  {
    auto key = std::make_tuple(lors, cyl);
    auto it = matrices.find(key);
    if (it != matrices.end())
      return it->second;
    vp::MatrixOpts o;
    o.num_tangential_LORs = lors;
    o.restrict_to_cylindrical_FOV = cyl;
    return matrices.emplace(key, vp::ExplicitP::build(pdi_data, image, o)).first->second;
  }
};

vp::ExplicitP
make_indexer(const shared_ptr<const ProjDataInfo>& p)
{
  vp::ExplicitP P;
  P.pdi = p;
  vp::ExplicitP::enumerate_bins(*p, P.bins);
  return P;
}

struct Built
{
  shared_ptr<BinNormalisation> norm;
  std::vector<double> e;          // reference efficiency per data bin (+inf where a stored factor is exactly 0)
  std::vector<char> skip;         // bins outside the inverse clauses: e == 0, e == inf, or excluded finding
  bool geb = true;                // get_bin_efficiency implemented in every member
  bool has_atten = false;
  bool exact_unit = true;         // every member multiplies with exactly 1 (trivial, or components all exactly 1)
  double tol_ref = TOL_EXACT_REF; // tolerance for e vs reference
  std::vector<shared_ptr<ForwardProjectorByBin>> projectors; // of the attenuation members (they dictate the grouping)
  std::string label;
};

void
fill_mu(VoxelsOnCartesianGrid<float>& mu, const json& s)
{
  const std::string mode = s["mode"];
  mu.fill(0.F);
  if (mode == "zero")
    return;
  const double mu_max = s["mu_max"].get<double>();
  if (mode == "random")
    {
      vf::SplitMix g(s["seed"].get<uint64_t>());
      for (auto it = mu.begin_all(); it != mu.end_all(); ++it)
        *it = float(g.real(0., mu_max));
      return;
    }
  // uniform centred cylinder (all planes): voxels whose centre lies within R
  const double R = s["R_mm"].get<double>();
  const float vx = mu.get_voxel_size().x(), vy = mu.get_voxel_size().y();
  for (int z = mu.get_min_z(); z <= mu.get_max_z(); ++z)
    for (int y = mu.get_min_y(); y <= mu.get_max_y(); ++y)
      for (int x = mu.get_min_x(); x <= mu.get_max_x(); ++x)
        if (std::hypot(double(x) * vx, double(y) * vy) <= R)
          mu[z][y][x] = float(mu_max);
}

//! builds one object tree; everything that can call error() for a configuration STIR does not support is inside
Built
build(const json& s, Env& env, const Flags& fl)
{
  Built b;
  const long N = env.nb();
  b.e.assign(std::size_t(N), 1.);
  b.skip.assign(std::size_t(N), 0);
  const std::string k = s["k"];
  b.label = k;
  if (k == "trivial")
    {
      b.norm.reset(new TrivialBinNormalisation);
    }
  else if (k == "projdata")
    {
      // factors stored for the full geometry (possibly more segments than the data), TOF or non-TOF
      const bool tof_factors = s["tof_factors"].get<bool>() && env.pdi_full->is_tof_data();
      shared_ptr<ProjDataInfo> fpdi = tof_factors ? env.pdi_full->create_shared_clone() : env.pdi_full->create_non_tof_clone();
      const vp::ExplicitP fx = make_indexer(fpdi);
      const uint64_t seed = s["seed"].get<uint64_t>();
      const bool zeros = s["zeros"].get<bool>();
      std::vector<double> fac(std::size_t(fx.nbins()));
      for (long i = 0; i < fx.nbins(); ++i)
        {
          fac[std::size_t(i)] = double(float(c20::hreal(seed, uint64_t(i), 0.2, 5.)));
          if (zeros && c20::hreal(seed ^ 0x2e20ULL, uint64_t(i), 0., 1.) < 0.03)
            fac[std::size_t(i)] = 0.;
        }
      shared_ptr<ProjData> fpd(new ProjDataInMemory(env.exam, fpdi));
      fx.vec_to_projdata(*fpd, fac);
      b.norm.reset(new BinNormalisationFromProjData(fpd));
      for (long i = 0; i < N; ++i)
        {
          Bin bin = env.ix.bins[std::size_t(i)];
          if (!tof_factors)
            bin.timing_pos_num() = 0;
          const long j = fx.bin_index(bin);
          if (j < 0)
            error("harness: data bin outside the factor data");
          const double f = fac[std::size_t(j)];
          if (f == 0.)
            {
              b.e[std::size_t(i)] = std::numeric_limits<double>::infinity();
              b.skip[std::size_t(i)] = 1;
            }
          else
            b.e[std::size_t(i)] = 1. / f;
        }
      b.geb = false; // "BinNormalisationFromProjData::get_bin_efficiency is not implemented"
      b.exact_unit = false;
      b.label = cat("projdata", tof_factors ? "(TOF factors)" : "(non-TOF factors)", zeros ? "+zeros" : "");
    }
  else if (k == "atten")
    {
      shared_ptr<VoxelsOnCartesianGrid<float>> mu(env.image->clone());
      fill_mu(*mu, s);
      vp::MatrixOpts o;
      o.num_tangential_LORs = s["lors"].get<int>();
      o.restrict_to_cylindrical_FOV = s["cyl_fov"].get<bool>();
      const int cache = s["cache"].get<int>();
      shared_ptr<ProjMatrixByBinUsingRayTracing> m = vp::make_matrix(o, fl.f[0], fl.f[1], fl.f[2], fl.f[3], fl.f[4], cache != 0, cache == 1);
      shared_ptr<ForwardProjectorByBin> fwd(new ForwardProjectorByBinUsingProjMatrixByBin(m));
      b.norm.reset(new BinNormalisationFromAttenuationImage(mu, fwd));
      // reference: explicit rows of a fresh symmetry-free cache-free matrix; mu in cm^-1, elements in units of the x voxel size
      const vp::ExplicitP& P = env.matrix(o.num_tangential_LORs, o.restrict_to_cylindrical_FOV);
      const std::vector<double> line = P.forward(P.image_to_vec(*mu));
      const double rescale = double(mu->get_voxel_size().x()) / 10.;
      for (long i = 0; i < N; ++i)
        b.e[std::size_t(i)] = std::exp(-line[std::size_t(i)] * rescale);
      b.geb = false; // "BinNormalisationFromAttenuationImage::get_bin_efficiency is not implemented"
      b.has_atten = true;
      b.exact_unit = false;
      b.tol_ref = TOL_ATT;
      b.label = cat("atten:", s["mode"].get<std::string>());
      // the projector refuses RelatedViewgrams that are not grouped by ITS symmetries (ForwardProjectorByBin::forward_project:
      // "incorrect related_viewgrams. Problem with symmetries!"), so the grouping is taken from the projector after set_up
      b.projectors.push_back(fwd);
    }
  else if (k == "components")
    {
      const Blocks B = Blocks::from(*env.sc);
      const auto* pdi = dynamic_cast<const ProjDataInfoCylindricalNoArcCorr*>(env.pdi_data.get());
      if (!pdi)
        error("harness: components need cylindrical non-arc-corrected data");
      const FanDims F = FanDims::from(*pdi, B);
      const uint64_t seed = s["seed"].get<uint64_t>();
      const int near_one = s["near_one"].get<int>(); // 0: random factors, 1: all exactly 1, 2: all within 1e-4 of 1
      bool do_eff = s["eff"].get<bool>(), do_geo = s["geo"].get<bool>(), do_block = s["block"].get<bool>();
      const bool per_block = s["sym_per_block"].get<bool>();
      // allocate(): GeoData3D(unit_ax, unit_tr / 2, ...): an odd transaxial unit is truncated -> only even units are a model
      int unit_tr = B.p_tr, unit_ax = B.p_ax;
      if (!per_block)
        {
          if (B.nbuckets_tr > 1)
            unit_tr *= B.bpb_tr;
          if (B.nbuckets_ax > 1)
            unit_ax *= B.bpb_ax;
        }
      if (unit_tr % 2 != 0 || double(B.nphys) * B.nphys * B.nrphys * B.nrphys > 3e6)
        do_geo = false;
      // allocate(): BlockData3D(nb_ax, nb_tr, nb_ax-1, nb_tr-1): FanProjData constructor asserts an even "ring" size; it has no
      // cell for a block with itself, which apply_block_norm would index for two detectors of one block (see C20 notes, O2)
      if (!(B.nb_tr >= 2 && B.nb_tr % 2 == 0 && F.new_half_fan <= B.nphys / 2 - B.p_tr))
        do_block = false;
      if (!do_eff && !do_geo && !do_block)
        do_eff = true;
      shared_ptr<BinNormalisationPETFromComponents> n(new BinNormalisationPETFromComponents);
      n->allocate(env.pdi_data, do_eff, do_geo, do_block, per_block);
      auto val = [&](uint64_t salt, uint64_t key, double lo, double hi) {
        if (near_one == 1)
          return 1.F;
        if (near_one == 2)
          return float(1. + c20::hreal(seed ^ salt, key, -9e-5, 9e-5));
        return float(c20::hreal(seed ^ salt, key, lo, hi));
      };
      if (do_eff)
        {
          DetectorEfficiencies& eff = n->crystal_efficiencies();
          if (eff.get_length() != B.nrphys || eff[0].get_length() != B.nphys)
            error("harness: unexpected size of crystal_efficiencies()");
          for (int r = 0; r < B.nrphys; ++r)
            for (int a = 0; a < B.nphys; ++a)
              eff[r][a] = val(0xeffULL, uint64_t(r) * 4096 + uint64_t(a), 0.2, 5.);
        }
      std::unique_ptr<c20::GeoClasses> cl;
      if (do_geo)
        {
          GeoData3D& gd = n->geometric_factors();
          if (gd.get_num_axial_crystals_per_block() != unit_ax || gd.get_half_num_transaxial_crystals_per_block() * 2 != unit_tr)
            error("harness: unexpected symmetry unit of geometric_factors()");
          cl.reset(new c20::GeoClasses(B.nphys, B.nrphys, unit_tr, unit_ax));
          for (int ra = 0; ra < unit_ax; ++ra)
            for (int a = 0; a < unit_tr / 2; ++a)
              for (int rb = ra; rb < B.nrphys; ++rb)
                for (int bb = 0; bb < B.nphys; ++bb)
                  gd(ra, a, rb, bb) = val(0x6e0ULL, uint64_t(cl->cls(ra, a, rb, bb)), 0.5, 2.);
        }
      if (do_block)
        {
          BlockData3D& bd = n->block_factors();
          for (int RA = bd.get_min_ra(); RA <= bd.get_max_ra(); ++RA)
            for (int A = bd.get_min_a(); A <= bd.get_max_a(); ++A)
              for (int RB = std::max(RA, bd.get_min_rb(RA)); RB <= bd.get_max_rb(RA); ++RB)
                for (int Bq = bd.get_min_b(A); Bq <= bd.get_max_b(A); ++Bq)
                  bd(RA, A, RB, Bq) = val(0xb10cULL, c20::pair_key(RA, A, RB, Bq % B.nb_tr, B.nb_tr), 0.5, 2.);
        }
      b.norm = n;
      for (long i = 0; i < N; ++i)
        {
          const Bin& bin = env.ix.bins[std::size_t(i)];
          DetectionPositionPair<> dp;
          pdi->get_det_pos_pair_for_bin(dp, bin);
          const int a = dp.pos1().tangential_coord(), ra = dp.pos1().axial_coord(), bq = dp.pos2().tangential_coord(), rb = dp.pos2().axial_coord();
          if (B.virt_tr(a) || B.virt_tr(bq) || B.virt_ax(ra) || B.virt_ax(rb))
            {
              // "The 'virtual' crystals are forced to have 0 detection efficiency."
              b.e[std::size_t(i)] = 0.;
              b.skip[std::size_t(i)] = 1;
              continue;
            }
          const int na = B.new_tr(a), nra = B.new_ax(ra), nb_ = B.new_tr(bq), nrb = B.new_ax(rb);
          double e = 1.;
          if (do_eff)
            e *= double(val(0xeffULL, uint64_t(nra) * 4096 + uint64_t(na), 0.2, 5.)) * double(val(0xeffULL, uint64_t(nrb) * 4096 + uint64_t(nb_), 0.2, 5.));
          if (do_geo)
            e *= double(val(0x6e0ULL, uint64_t(cl->cls(nra, na, nrb, nb_)), 0.5, 2.));
          if (do_block)
            e *= double(val(0xb10cULL, c20::pair_key(nra / B.p_ax, na / B.p_tr, nrb / B.p_ax, nb_ / B.p_tr, B.nb_tr), 0.5, 2.));
          if (std::abs(bin.tangential_pos_num()) > F.half_fan && !no_exclude)
            {
              // finding F1: the fan is truncated to min(max_tang,-min_tang): with an even number of tangential positions the
              // bins at min_tang get efficiency 0.  Excluded (e = 0 accepted) unless VERIF_NO_EXCLUDE is set.
              b.e[std::size_t(i)] = 0.;
              b.skip[std::size_t(i)] = 1;
              stats().count("components: bins outside the fan (finding F1, excluded)");
              continue;
            }
          b.e[std::size_t(i)] = e;
        }
      b.exact_unit = near_one == 1;
      b.tol_ref = near_one == 2 ? 1e-6 : 5e-6;
      b.label = cat("components(", do_eff ? "e" : "", do_geo ? "g" : "", do_block ? "b" : "", near_one ? cat(",near_one=", near_one) : "", ")");
    }
  else if (k == "chain")
    {
      const json& ms = s["members"];
      std::vector<Built> parts;
      for (const json& m : ms)
        parts.push_back(build(m, env, fl));
      shared_ptr<BinNormalisation> cur;
      if (parts.size() == 1)
        // the two-argument constructor dereferences both members (post_processing): a chain of one is (member, trivial)
        cur.reset(new ChainedBinNormalisation(parts[0].norm, shared_ptr<BinNormalisation>(new TrivialBinNormalisation)));
      else if (parts.size() == 2)
        cur.reset(new ChainedBinNormalisation(parts[0].norm, parts[1].norm));
      else if (s["left_nested"].get<bool>())
        cur.reset(new ChainedBinNormalisation(
            shared_ptr<BinNormalisation>(new ChainedBinNormalisation(parts[0].norm, parts[1].norm)), parts[2].norm));
      else
        cur.reset(new ChainedBinNormalisation(
            parts[0].norm, shared_ptr<BinNormalisation>(new ChainedBinNormalisation(parts[1].norm, parts[2].norm))));
      b.norm = cur;
      b.tol_ref = 0;
      b.label = "chain[";
      for (const Built& p : parts)
        {
          for (long i = 0; i < N; ++i)
            {
              // 0 x inf (virtual crystal x zero factor) is outside every clause
              b.e[std::size_t(i)] = (p.skip[std::size_t(i)] && b.skip[std::size_t(i)]) ? 0. : b.e[std::size_t(i)] * p.e[std::size_t(i)];
              b.skip[std::size_t(i)] = b.skip[std::size_t(i)] || p.skip[std::size_t(i)];
            }
          b.geb = b.geb && p.geb;
          b.has_atten = b.has_atten || p.has_atten;
          b.projectors.insert(b.projectors.end(), p.projectors.begin(), p.projectors.end());
          b.exact_unit = b.exact_unit && p.exact_unit;
          b.tol_ref += p.tol_ref;
          b.label += p.label + " ";
        }
      b.label += "]";
    }
  else
    error("harness: unknown normalisation kind");
  return b;
}


// C10 — image files round-trip voxel positions, values and exam information.
//
// A case = (grid, value distribution, output format settings, exam information, container, fault plan).
// check(): build the STIR objects, write_to_file, (a) decode the written files with the harness's own
// header scanner / raw decoder and compare with the documented conversion (convert_array.h, OutputFileFormat.h),
// (b) read_from_file and compare {(physical position, value)} voxel by voxel in storage order with a
// reference computed from the Case in double precision, (c) compare the exam information the format stores,
// (d) truncate the data file to many lengths: read_from_file must throw or return null; a longer file is legal.
//
// Documented behaviour the reference implements (sources cited at the place of use):
//  * find_scale_factor (convert_array.h): identical types -> scale 1; scale 0 -> maximum range of the
//    output type (floating point output types: as scale 1); scale != 0 -> used unless the data do not fit, then as
//    in the 0 case; negative numbers are cut to 0 when the output type is unsigned; integer output is rounded;
//    a non-zero scale factor is never smaller than the smallest normalised value of its type (FLT_MIN).
//  * OutputFileFormat::set_scale_to_write_data: "except for floats and doubles in which case no rescaling occurs".
//  * header numbers are streamed with 6 significant digits (DESIGN.md section 10 item 4): offsets, voxel
//    sizes, scale factors and frame times are compared to 5e-6 relative (half a unit in the 6th digit) and no tighter.
//  * index ranges are re-normalised on reading (interfile.cxx create_image_and_header_from), so indices are
//    not compared, only physical positions.
#include "stir_gen.h"
#include "stir/DiscretisedDensity.h"
#include "stir/DynamicDiscretisedDensity.h"
#include "stir/modelling/ParametricDiscretisedDensity.h"
#include "stir/modelling/KineticParameters.h"
#include "stir/IO/OutputFileFormat.h"
#include "stir/IO/InterfileOutputFileFormat.h"
#include "stir/IO/InterfileDynamicDiscretisedDensityOutputFileFormat.h"
#include "stir/IO/InterfileParametricDiscretisedDensityOutputFileFormat.h"
#include "stir/IO/MultiDynamicDiscretisedDensityOutputFileFormat.h"
#include "stir/IO/MultiParametricDiscretisedDensityOutputFileFormat.h"
#include "stir/IO/read_from_file.h"
#include "stir/ExamInfo.h"
#include "stir/Radionuclide.h"
#include "stir/RadionuclideDB.h"
#include "stir/TimeFrameDefinitions.h"
#include "stir/PatientPosition.h"
#include "stir/ImagingModality.h"
#include "stir/NumericType.h"
#include "stir/ByteOrder.h"
#include "stir/Scanner.h"
#include <algorithm>
#include <array>
#include <cfloat>
#include <climits>
#include <cstring>
#include <fstream>
#include <sstream>
#include <sys/stat.h>
#include <unistd.h>

using namespace vf;
using namespace stir;

namespace {

static_assert(sizeof(long) == 8 && sizeof(int) == 4 && sizeof(short) == 2, "LP64 assumed by the raw decoder");

const bool g_no_exclude = std::getenv("VERIF_NO_EXCLUDE") != nullptr;

// In the ASan/UBSan flavour the Multi formats are only used with their default individual format: parsing
// "individual output file format type := ..." goes through KeyParser::set_shared_parsing_object, which calls the registry's
// factory through a pointer of another function type (UBSan -fsanitize=function aborts; every parsed registered object in
// STIR does this, it is not specific to image IO and is reported in work/notes/C10_findings.md as an observation).
#if defined(__has_feature)
#  if __has_feature(address_sanitizer)
#    define C10_SANITIZED 1
#  endif
#endif
#ifdef C10_SANITIZED
const bool g_sanitized = true;
#else
const bool g_sanitized = false;
#endif

// ---- number types InterfileOutputFileFormat accepts (write_data.inl: CASE list) ------------------------
struct TInfo
{
  NumericType::Type id;
  const char* name;
  const char* interfile_format;
  int bytes;
  bool is_int, is_signed;
  long double tmax, tmin;
};
const TInfo TYPES[10] = { { NumericType::SCHAR, "schar", "signed integer", 1, true, true, 127.L, -128.L },
                          { NumericType::UCHAR, "uchar", "unsigned integer", 1, true, false, 255.L, 0.L },
                          { NumericType::SHORT, "short", "signed integer", 2, true, true, 32767.L, -32768.L },
                          { NumericType::USHORT, "ushort", "unsigned integer", 2, true, false, 65535.L, 0.L },
                          { NumericType::INT, "int", "signed integer", 4, true, true, 2147483647.L, -2147483648.L },
                          { NumericType::UINT, "uint", "unsigned integer", 4, true, false, 4294967295.L, 0.L },
                          { NumericType::LONG, "long", "signed integer", 8, true, true, 9223372036854775807.L, -9223372036854775808.L },
                          { NumericType::ULONG, "ulong", "unsigned integer", 8, true, false, 18446744073709551615.L, 0.L },
                          { NumericType::FLOAT, "float", "float", 4, false, true, 0.L, 0.L },
                          { NumericType::DOUBLE, "double", "float", 8, false, true, 0.L, 0.L } };
enum
{
  T_SCHAR,
  T_UCHAR,
  T_SHORT,
  T_USHORT,
  T_INT,
  T_UINT,
  T_LONG,
  T_ULONG,
  T_FLOAT,
  T_DOUBLE
};

enum Container
{
  SINGLE,
  DYN_INTERFILE,
  DYN_MULTI,
  PAR_INTERFILE,
  PAR_MULTI
};
const char* const CONTAINER_NAMES[5] = { "single", "dynamic/Interfile", "dynamic/Multi", "parametric/Interfile", "parametric/Multi" };

const double EXPONENTS[] = { -30, -18, -6, -2, 0, 0, 1, 3, 6, 12, 30 };
const int N_EXPONENTS = 11;
const double REL_SCALE_F[] = { 0.25, 0.9, 1.0, 1.02, 1.5, 4., 64., 1000. };
const int N_REL = 8;
const double ABS_SCALE[] = { 1., 0.5, 2., 0.001, 7.25, 100., 1e-6 };
const int N_ABS = 7;

const double HDR_REL = 5e-6;  // half a unit in the 6th significant digit, relative to the number (worst case mantissa 1.00000)
const double TOL_HDR = 6e-6;  // HDR_REL + float rounding of a handful of operations
const double TINY = 3e-45;    // two float denormal steps

bool
host_is_little_endian()
{
  const uint16_t x = 1;
  unsigned char b[2];
  std::memcpy(b, &x, 2);
  return b[0] == 1;
}

// ---- temp files ----------------------------------------------------------------------------------------
std::string
tmp_dir()
{
  static std::string d;
  if (d.empty())
    {
      const char* e = std::getenv("VERIF_TMP");
      if (e && *e)
        d = e;
      else
        {
          d = cat("/tmp/verif_", getpid());
          std::atexit([]() { rmdir(cat("/tmp/verif_", getpid()).c_str()); });
        }
      mkdir(d.c_str(), 0777);
    }
  return d;
}

struct FileGuard
{
  std::vector<std::string> paths;
  void add_interfile_triplet(const std::string& base)
  {
    paths.push_back(base + ".v");
    paths.push_back(base + ".hv");
    paths.push_back(base + ".ahv");
  }
  ~FileGuard()
  {
    if (std::getenv("VERIF_C10_KEEP_FILES")) // debugging aid only
      return;
    for (auto& p : paths)
      unlink(p.c_str());
  }
};

bool
read_bytes(const std::string& path, std::vector<unsigned char>& out)
{
  std::ifstream f(path, std::ios::binary);
  if (!f)
    return false;
  out.assign(std::istreambuf_iterator<char>(f), std::istreambuf_iterator<char>());
  return true;
}

bool
write_bytes(const std::string& path, const unsigned char* p, std::size_t n)
{
  std::ofstream f(path, std::ios::binary | std::ios::trunc);
  if (!f)
    return false;
  f.write(reinterpret_cast<const char*>(p), std::streamsize(n));
  return bool(f);
}

// ---- the harness's own Interfile header scanner (key := value lines) --------------------------------------
std::string
std_key(const std::string& k)
{
  std::string r;
  bool sp = false;
  for (char ch : k)
    {
      if (ch == '!' || ch == '_' || ch == ' ' || ch == '\t' || ch == '\r')
        {
          sp = true;
          continue;
        }
      if (ch == '[' || ch == ']')
        sp = false; // no blanks around brackets
      if (sp && !r.empty() && r.back() != '[')
        r.push_back(' ');
      sp = false;
      r.push_back(char(std::tolower(static_cast<unsigned char>(ch))));
    }
  return r;
}

struct HeaderText
{
  std::map<std::string, std::string> kv;
  bool has(const std::string& k) const { return kv.count(k) != 0; }
  std::string str(const std::string& k) const
  {
    auto it = kv.find(k);
    return it == kv.end() ? std::string() : it->second;
  }
  double num(const std::string& k, double dflt) const
  {
    auto it = kv.find(k);
    if (it == kv.end())
      return dflt;
    return std::strtod(it->second.c_str(), nullptr);
  }
};

bool
scan_header(const std::string& path, HeaderText& h)
{
  std::ifstream f(path);
  if (!f)
    return false;
  std::string line;
  while (std::getline(f, line))
    {
      const auto p = line.find(":=");
      if (p == std::string::npos)
        continue;
      std::string v = line.substr(p + 2);
      while (!v.empty() && (v.front() == ' ' || v.front() == '\t'))
        v.erase(v.begin());
      while (!v.empty() && (v.back() == ' ' || v.back() == '\t' || v.back() == '\r'))
        v.pop_back();
      h.kv[std_key(line.substr(0, p))] = v;
    }
  return true;
}

// ---- the harness's own raw decoder ---------------------------------------------------------------------------
long double
decode_int(const unsigned char* p, const TInfo& t, bool file_big_endian)
{
  unsigned char b[8] = { 0, 0, 0, 0, 0, 0, 0, 0 };
  // bring to little-endian order
  for (int k = 0; k < t.bytes; ++k)
    b[k] = file_big_endian ? p[t.bytes - 1 - k] : p[k];
  uint64_t u = 0;
  for (int k = t.bytes - 1; k >= 0; --k)
    u = (u << 8) | b[k];
  if (!t.is_signed)
    return static_cast<long double>(u);
  // sign extension
  if (t.bytes < 8)
    {
      const uint64_t sign = uint64_t(1) << (8 * t.bytes - 1);
      if (u & sign)
        return static_cast<long double>(int64_t(u) - int64_t(uint64_t(1) << (8 * t.bytes)));
      return static_cast<long double>(u);
    }
  int64_t s;
  std::memcpy(&s, &u, 8);
  return static_cast<long double>(s);
}

template <class F>
F
decode_fp(const unsigned char* p, bool file_big_endian)
{
  unsigned char b[sizeof(F)];
  const bool swap = file_big_endian == host_is_little_endian();
  for (std::size_t k = 0; k < sizeof(F); ++k)
    b[k] = swap ? p[sizeof(F) - 1 - k] : p[k];
  F x;
  std::memcpy(&x, b, sizeof(F));
  return x;
}

bool
same_bits(float a, float b)
{
  return std::memcmp(&a, &b, sizeof(float)) == 0;
}

// ---- building things from the Case ------------------------------------------------------------------------------
struct Grid
{
  int mn[3], n[3];  // z,y,x
  float origin[3], vs[3];
  long nvox() const { return long(n[0]) * n[1] * n[2]; }
  bool default_range() const { return mn[0] == 0 && mn[1] == -(n[1] / 2) && mn[2] == -(n[2] / 2); }
  bool zero_origin() const { return origin[0] == 0 && origin[1] == 0 && origin[2] == 0; }
};

Grid
grid_of(const json& g)
{
  Grid r;
  for (int a = 0; a < 3; ++a)
    {
      r.mn[a] = g["min"][a].get<int>();
      r.n[a] = g["size"][a].get<int>();
      r.origin[a] = float(g["origin"][a].get<double>());
      r.vs[a] = float(g["vs"][a].get<double>());
    }
  return r;
}

int
num_datasets(const json& c)
{
  switch (c["container"].get<int>())
    {
    case SINGLE:
      return 1;
    case DYN_INTERFILE:
    case DYN_MULTI:
      return int(c["exam"]["frames"].size());
    default:
      return 2; // ParametricVoxelsOnCartesianGrid: KineticParameters<2,float>
    }
}

bool
is_multi_default(const json& c)
{
  const int container = c["container"].get<int>();
  return (container == DYN_MULTI || container == PAR_MULTI) && (c["fmt"].value("multi_default", false) || g_sanitized);
}

// value distributions; pure function of (vals spec, dataset number)
std::vector<float>
make_values(const json& v, long n, int dataset)
{
  SplitMix g(v["seed"].get<uint64_t>() * 1000003ULL + uint64_t(dataset) * 7919ULL);
  const int kind = v["kind"].get<int>();
  const double M = std::pow(10., EXPONENTS[v["exp"].get<int>() % N_EXPONENTS]);
  const bool neg = v["neg"].get<bool>();
  std::vector<float> r(std::size_t(n), 0.F);
  switch (kind)
    {
    case 0: // mixed sign
      for (auto& x : r)
        x = float(g.real(-M, M));
      break;
    case 1: // non-negative
      for (auto& x : r)
        x = float(g.real(0, M));
      break;
    case 2: // constant
      for (auto& x : r)
        x = float(neg ? -M : M);
      break;
    case 3: // all zero
      break;
    case 4: // one non-zero voxel
      r[std::size_t(g.range(0, n - 1))] = float(neg ? -M : M);
      break;
    case 5: // negative only
      for (auto& x : r)
        x = float(g.real(-M, 0));
      break;
    case 6: // magnitudes over six decades, mixed sign (or non-negative)
      for (auto& x : r)
        {
          const double m = M * std::pow(10., -g.real(0, 6));
          x = float((!neg || g.next() % 2) ? m : -m);
        }
      break;
    default: // 7: integral counts (exactly representable with scale 1), sign by 'neg'
      for (auto& x : r)
        x = float(g.range(neg ? -1000 : 0, 1000));
      break;
    }
  // data sets of one container that differ (domain audit AUD_B): every data set of a dynamic / parametric image gets its own
  // scale factor (write_basic_interfile: "float scale_to_use = scale" per data set), which only shows when the data sets need
  // different ones.  1: magnitudes two decades apart per data set, towards 1; 2: away from 1 (only while |exponent| <= 12, so
  // that M*1e6 stays a normalised finite float); 3: the FIRST data set all zero (a frame before injection); 4: all but the first
  // all zero.  Old cases have no "dspread" (= 0: all data sets of the same magnitude).
  const int spread = v.value("dspread", 0);
  if (spread == 3 ? dataset == 0 : (spread == 4 && dataset > 0))
    std::fill(r.begin(), r.end(), 0.F);
  else if ((spread == 1 || spread == 2) && dataset > 0)
    {
      const double e = EXPONENTS[v["exp"].get<int>() % N_EXPONENTS];
      const bool away = spread == 2 && std::fabs(e) <= 12;
      const double dir = ((e < 0) != away) ? 1. : -1.; // towards 1: up for small magnitudes, down for large ones
      const double f = std::pow(10., dir * 2. * std::min(dataset, 3));
      for (auto& x : r)
        x = float(double(x) * f);
    }
  return r;
}

//! scale factor needed for the maximum range of type t (find_scale_factor, convert_range.inl) — without the 1.01
double
needed_scale(const std::vector<float>& v, const TInfo& t, long double tmax_eff)
{
  double mx = -DBL_MAX, mn = DBL_MAX;
  for (float x : v)
    {
      mx = std::max(mx, double(x));
      mn = std::min(mn, double(x));
    }
  double need = mx / double(tmax_eff);
  if (t.is_signed)
    need = std::max(need, mn / double(-tmax_eff - 1));
  return need;
}

//! the scale setting given to the output file format for this case (0 = automatic)
float
scale_setting(const json& c, const std::vector<std::vector<float>>& data)
{
  const json& f = c["fmt"];
  const int mode = f["scale_mode"].get<int>();
  if (mode == 0)
    return 0.F;
  if (mode == 2)
    return float(ABS_SCALE[f["scale_idx"].get<int>() % N_ABS]);
  const TInfo& t = TYPES[f["type"].get<int>()];
  double fac = REL_SCALE_F[f["scale_idx"].get<int>() % N_REL];
  if (!t.is_int)
    return float(fac);
  // relative to what the data need (maximum over the data sets)
  double need = 0;
  for (auto& d : data)
    need = std::max(need, needed_scale(d, t, t.tmax) * 1.01);
  if (!(need > 0))
    return float(fac);
  const float s = float(need * fac);
  return (s > 0 && std::isfinite(s)) ? s : 1.F;
}

// database names (src/config/radionuclide_info.json). ^64^Copper and ^131^Iodine are database entries too; they are
// generated as hand-made Radionuclide objects carrying the database's values (FREE_RN), so that the header names a nuclide
// that the reader looks up in the database.
const char* const DB_PT[] = { "^18^Fluorine", "^11^Carbon", "^13^Nitrogen", "^15^Oxygen", "^68^Gallium", "^68^Germanium", "^90^Yttrium" };
const int N_DB_PT = 7;
const char* const DB_NM[] = { "^99m^Technetium", "^67^Gallium", "^177^Lutetium", "^90^Yttrium" };
const int N_DB_NM = 4;
const char* const FREE_RN[] = { "verif-X", "^82^Rubidium", "Zr89", "my nuclide 7", "^64^Copper", "^131^Iodine" };
const int N_FREE_RN = 6;
// names early in Scanner::Type are found quickly; an unknown name makes Scanner::get_scanner_from_name construct every
// predefined scanner (4-8 ms per call, and the dynamic/parametric readers call it for every read): kept a minority
const char* const SYSTEMS[] = { "", "ECAT 931", "ECAT 953", "verif system", "ECAT 962", "ECAT 951" };
const int N_SYSTEMS = 6;

struct ExamSpec
{
  int mod, orient, rot;
  std::vector<std::pair<double, double>> frames; // start, duration
  int rn_kind;                                    // 0 unset, 1 database, 2 free text
  std::string rn_name;
  float rn_hl, rn_br;
  int en_kind; // 0 unset, 1 window, 2 window with lower level 0
  float en_low, en_high;
  float calib;
  std::string system;
  double t0;
};

ExamSpec
exam_spec_of(const json& e)
{
  ExamSpec s;
  s.mod = e["mod"].get<int>();
  s.orient = e["orient"].get<int>();
  s.rot = e["rot"].get<int>();
  for (auto& f : e["frames"])
    s.frames.push_back(std::make_pair(f[0].get<double>(), f[1].get<double>()));
  s.rn_kind = e["rn"]["kind"].get<int>();
  const int idx = e["rn"]["idx"].get<int>();
  if (s.rn_kind == 1 && s.mod != int(ImagingModality::PT) && s.mod != int(ImagingModality::NM))
    s.rn_kind = 2; // the database only has entries for PET and nucmed (RadionuclideDB.cxx)
  if (s.rn_kind == 1)
    s.rn_name = s.mod == int(ImagingModality::PT) ? DB_PT[idx % N_DB_PT] : DB_NM[idx % N_DB_NM];
  else if (s.rn_kind == 2)
    s.rn_name = FREE_RN[idx % N_FREE_RN];
  s.rn_hl = float(e["rn"]["hl"].get<double>());
  s.rn_br = float(e["rn"]["br"].get<double>());
  if (s.rn_kind == 2 && idx % N_FREE_RN == 4)
    { // values of the database, which a reader substitutes for a name it knows
      s.rn_hl = 45721.144F;
      s.rn_br = 0.1752F;
    }
  if (s.rn_kind == 2 && idx % N_FREE_RN == 5)
    {
      s.rn_hl = 693446.4F;
      s.rn_br = 0.812F;
    }
  s.en_kind = e["en"]["kind"].get<int>();
  s.en_low = s.en_kind == 2 ? 0.F : float(e["en"]["low"].get<double>());
  s.en_high = float(e["en"]["high"].get<double>());
  s.calib = float(e["calib"].get<double>());
  s.system = SYSTEMS[e["sys"].get<int>() % N_SYSTEMS];
  s.t0 = e["t0"].get<double>();
  return s;
}

shared_ptr<ExamInfo>
make_exam(ExamSpec& s, bool with_frames)
{
  shared_ptr<ExamInfo> ex(new ExamInfo(ImagingModality(static_cast<ImagingModality::ImagingModalityValue>(s.mod))));
  ex->patient_position = PatientPosition(static_cast<PatientPosition::OrientationValue>(s.orient), static_cast<PatientPosition::RotationValue>(s.rot));
  if (with_frames && !s.frames.empty())
    {
      std::vector<std::pair<double, double>> ft;
      for (auto& f : s.frames)
        ft.push_back(std::make_pair(f.first, f.first + f.second));
      ex->set_time_frame_definitions(TimeFrameDefinitions(ft));
    }
  if (s.rn_kind == 1)
    {
      RadionuclideDB db;
      const Radionuclide r = db.get_radionuclide(ex->imaging_modality, s.rn_name);
      // what the database says is what a reader will reconstruct from the name (InterfileHeader::post_processing)
      s.rn_hl = r.get_half_life(false);
      s.rn_br = r.get_branching_ratio(false);
      ex->set_radionuclide(r);
    }
  else if (s.rn_kind == 2)
    ex->set_radionuclide(Radionuclide(s.rn_name, 511.F, s.rn_br, s.rn_hl, ex->imaging_modality));
  if (s.en_kind != 0)
    {
      ex->set_low_energy_thres(s.en_low);
      ex->set_high_energy_thres(s.en_high);
    }
  ex->set_calibration_factor(s.calib);
  ex->originating_system = s.system;
  ex->start_time_in_secs_since_1970 = s.t0;
  return ex;
}

bool
rel_close(double got, double want, double rel, double abs_tol = 0)
{
  return std::fabs(got - want) <= rel * std::fabs(want) + abs_tol;
}

//! exam information the format stores must survive (clause 3). \a frames: the frames expected in \a got
Result
compare_exam(const ExamSpec& s, const std::vector<std::pair<double, double>>& frames, const ExamInfo& got, const std::string& where)
{
  VF_CHECK(int(got.imaging_modality.get_modality()) == s.mod, where, ": imaging modality written ", s.mod, " read ", int(got.imaging_modality.get_modality()));
  VF_CHECK(int(got.patient_position.get_orientation()) == s.orient, where, ": patient orientation written ", s.orient, " read ",
           int(got.patient_position.get_orientation()));
  VF_CHECK(int(got.patient_position.get_rotation()) == s.rot, where, ": patient rotation written ", s.rot, " (enum RotationValue) read ",
           int(got.patient_position.get_rotation()));
  if (!frames.empty())
    {
      const TimeFrameDefinitions& t = got.get_time_frame_definitions();
      VF_CHECK(t.get_num_frames() == frames.size(), where, ": number of time frames written ", frames.size(), " read ", t.get_num_frames());
      for (unsigned f = 1; f <= frames.size(); ++f)
        {
          const double st = frames[f - 1].first, du = frames[f - 1].second;
          stats().maxi("frame start rel err", st != 0 ? std::fabs(t.get_start_time(f) - st) / std::fabs(st) : 0.);
          stats().maxi("frame duration rel err", std::fabs(t.get_duration(f) - du) / du);
          VF_CHECK(rel_close(t.get_start_time(f), st, 1e-5, 1e-12), where, ": frame ", f, " start written ", st, " read ", t.get_start_time(f));
          VF_CHECK(rel_close(t.get_duration(f), du, 1e-5, 1e-12 * (std::fabs(st) + du) + 1e-12), where, ": frame ", f, " duration written ", du, " read ",
                   t.get_duration(f));
        }
    }
  if (s.rn_kind != 0)
    {
      const Radionuclide r = got.get_radionuclide();
      VF_CHECK(r.get_name() == s.rn_name, where, ": radionuclide name written '", s.rn_name, "' read '", r.get_name(), "'");
      if (s.rn_hl > 0)
        VF_CHECK(rel_close(r.get_half_life(false), s.rn_hl, 1e-5), where, ": radionuclide half life written ", s.rn_hl, " read ", r.get_half_life(false));
      if (s.rn_br > 0)
        VF_CHECK(rel_close(r.get_branching_ratio(false), s.rn_br, 1e-5), where, ": branching ratio written ", s.rn_br, " read ", r.get_branching_ratio(false));
    }
  if (s.en_kind != 0)
    {
      VF_CHECK(rel_close(got.get_low_energy_thres(), s.en_low, 1e-5), where, ": energy window lower level written ", s.en_low, " read ", got.get_low_energy_thres());
      VF_CHECK(rel_close(got.get_high_energy_thres(), s.en_high, 1e-5), where, ": energy window upper level written ", s.en_high, " read ",
               got.get_high_energy_thres());
    }
  if (s.calib > 0)
    VF_CHECK(rel_close(got.get_calibration_factor(), s.calib, 1e-5), where, ": calibration factor written ", s.calib, " read ", got.get_calibration_factor());
  VF_CHECK(got.originating_system == s.system, where, ": originating system written '", s.system, "' read '", got.originating_system, "'");
  return Result::pass();
}

// ---- what was read back -----------------------------------------------------------------------------------------------
struct DataSet
{
  int n[3];
  std::vector<float> vals;                 // storage order
  std::vector<std::array<float, 3>> pos;   // physical z,y,x of each voxel (STIR's get_physical_coordinates_for_indices)
};

template <class ImageT, class ValueOf>
bool
extract(const ImageT& img, DataSet& d, ValueOf value_of)
{
  BasicCoordinate<3, int> mn, mx;
  if (!img.get_regular_range(mn, mx))
    return false;
  for (int a = 0; a < 3; ++a)
    d.n[a] = mx[a + 1] - mn[a + 1] + 1;
  d.vals.clear();
  d.pos.clear();
  for (int z = mn[1]; z <= mx[1]; ++z)
    for (int y = mn[2]; y <= mx[2]; ++y)
      for (int x = mn[3]; x <= mx[3]; ++x)
        {
          d.vals.push_back(value_of(img[z][y][x]));
          const CartesianCoordinate3D<float> p = img.get_physical_coordinates_for_indices(make_coordinate(z, y, x));
          d.pos.push_back(std::array<float, 3>{ p.z(), p.y(), p.x() });
        }
  return true;
}

struct ReadBack
{
  std::vector<DataSet> sets;
  shared_ptr<ExamInfo> exam;                    // of the container
  std::vector<shared_ptr<ExamInfo>> set_exams;  // of the individual frames (dynamic images)
};

//! returns false when the reader returned a null pointer; exceptions propagate
bool
read_back(int container, const std::string& header, ReadBack& rb)
{
  rb = ReadBack();
  const auto plain = [](const float& v) { return v; };
  if (container == SINGLE)
    {
      unique_ptr<DiscretisedDensity<3, float>> im(read_from_file<DiscretisedDensity<3, float>>(header));
      if (!im)
        return false;
      rb.sets.resize(1);
      if (!extract(*im, rb.sets[0], plain))
        throw std::logic_error("harness: image read back has no regular range");
      rb.exam.reset(new ExamInfo(im->get_exam_info()));
    }
  else if (container == DYN_INTERFILE || container == DYN_MULTI)
    {
      unique_ptr<DynamicDiscretisedDensity> dyn(read_from_file<DynamicDiscretisedDensity>(header));
      if (!dyn)
        return false;
      const unsigned nf = unsigned(dyn->get_densities().size());
      rb.sets.resize(nf);
      for (unsigned f = 1; f <= nf; ++f)
        {
          if (!extract(dyn->get_density(f), rb.sets[f - 1], plain))
            throw std::logic_error("harness: frame read back has no regular range");
          rb.set_exams.push_back(shared_ptr<ExamInfo>(new ExamInfo(dyn->get_density(f).get_exam_info())));
        }
      rb.exam.reset(new ExamInfo(dyn->get_exam_info()));
    }
  else
    {
      unique_ptr<ParametricVoxelsOnCartesianGrid> par(read_from_file<ParametricVoxelsOnCartesianGrid>(header));
      if (!par)
        return false;
      rb.sets.resize(2);
      for (int k = 1; k <= 2; ++k)
        if (!extract(*par, rb.sets[k - 1], [k](const KineticParameters<2, float>& kp) { return kp[k]; }))
          throw std::logic_error("harness: parametric image read back has no regular range");
      rb.exam.reset(new ExamInfo(par->get_exam_info()));
    }
  return true;
}

std::string
format_parameters(const TInfo& t, bool big_endian, float scale)
{
  char buf[64];
  std::snprintf(buf, sizeof(buf), "%.9g", double(scale));
  return cat("Interfile Output File Format Parameters :=\n", "byte order := ", big_endian ? "BIGENDIAN" : "LITTLEENDIAN", "\n", "number format := ",
             t.interfile_format, "\n", "number_of_bytes_per_pixel := ", t.bytes, "\n", "scale_to_write_data := ", buf, "\n",
             "End Interfile Output File Format Parameters :=\n");
}

template <class FormatT>
void
configure(FormatT& fmt, const TInfo& t, bool big_endian, float scale, bool via_parser)
{
  if (via_parser)
    {
      std::istringstream s(format_parameters(t, big_endian, scale));
      if (!fmt.parse(s))
        throw std::logic_error("harness: output file format parameters did not parse");
    }
  else
    {
      fmt.set_type_of_numbers(NumericType(t.id));
      fmt.set_byte_order(big_endian ? ByteOrder::big_endian : ByteOrder::little_endian);
      fmt.set_scale_to_write_data(scale);
    }
}

template <class MultiFormatT>
void
configure_multi(MultiFormatT& fmt, const TInfo& t, bool big_endian, float scale)
{
  std::istringstream s(cat("Multi Output File Format Parameters :=\n", "individual output file format type := Interfile\n", format_parameters(t, big_endian, scale),
                           "End Multi Output File Format Parameters :=\n"));
  if (!fmt.parse(s))
    throw std::logic_error("harness: Multi output file format parameters did not parse");
}

// ---- the file level oracle: one data set inside one data file ----------------------------------------------------------
struct FileSet
{
  std::string header, data_file;
  int index_in_header; // 1-based index of the data set in this header
};

Result
check_file_level(const FileSet& fs, const std::vector<float>& v, const TInfo& t, bool big_endian, float setting, const Grid& g, double& S_out, const std::string& where)
{
  HeaderText h;
  VF_CHECK(scan_header(fs.header, h), where, ": header ", fs.header, " not written");
  std::vector<unsigned char> raw;
  VF_CHECK(read_bytes(fs.data_file, raw), where, ": data file ", fs.data_file, " not written");
  const std::string k = cat("[", fs.index_in_header, "]");
  const double S = h.num("image scaling factor" + k, 1.);
  const double off = h.num("data offset in bytes" + k, 0.);
  S_out = S;
  // the header announces what was asked for
  VF_CHECK(h.str("number format") == t.interfile_format && int(h.num("number of bytes per pixel", -1)) == t.bytes, where, ": header announces '",
           h.str("number format"), "'/", h.str("number of bytes per pixel"), " bytes, asked for ", t.name);
  VF_CHECK(h.str("imagedata byte order") == (big_endian ? "BIGENDIAN" : "LITTLEENDIAN"), where, ": header byte order ", h.str("imagedata byte order"),
           " but format reports ", big_endian ? "BIGENDIAN" : "LITTLEENDIAN");
  VF_CHECK(int(h.num("matrix size[1]", -1)) == g.n[2] && int(h.num("matrix size[2]", -1)) == g.n[1] && int(h.num("matrix size[3]", -1)) == g.n[0], where,
           ": matrix size in header differs from the image sizes");
  const long nv = long(v.size());
  VF_CHECK(off >= 0 && long(off) + nv * t.bytes <= long(raw.size()), where, ": data file has ", raw.size(), " bytes, header announces ", nv, " x ", t.bytes,
           " bytes at offset ", off);
  const unsigned char* p = raw.data() + long(off);

  if (t.id == NumericType::FLOAT)
    {
      // identical types: scale factor 1, data copied (convert_array.h / write_data.inl)
      VF_CHECK(S == 1., where, ": float output with image scaling factor ", S);
      for (long i = 0; i < nv; ++i)
        {
          const float r = decode_fp<float>(p + 4 * i, big_endian);
          VF_CHECK(same_bits(r, v[std::size_t(i)]), where, ": float stored at voxel ", i, " is ", r, " image has ", v[std::size_t(i)]);
        }
      return Result::pass();
    }
  if (t.id == NumericType::DOUBLE)
    {
      for (long i = 0; i < nv; ++i)
        {
          const double r = decode_fp<double>(p + 8 * i, big_endian);
          const double x = v[std::size_t(i)];
          if (S == 1.)
            VF_CHECK(r == x, where, ": double stored at voxel ", i, " is ", r, " image has ", x, " (scale 1)");
          else
            VF_CHECK(std::fabs(r * S - x) <= TOL_HDR * std::fabs(x) + TINY, where, ": double stored at voxel ", i, " is ", r, " x scale ", S, " = ", r * S,
                     " image has ", x);
        }
      return Result::pass();
    }

  // integer output
  double worst = 0;
  for (long i = 0; i < nv; ++i)
    {
      const long double st = decode_int(p + long(t.bytes) * i, t, big_endian);
      const double x = v[std::size_t(i)];
      if (!t.is_signed && x < 0)
        { // documented: negative numbers are cut out when the output type is unsigned (convert_array.h)
          VF_CHECK(st == 0, where, ": negative value ", x, " at voxel ", i, " stored as ", double(st), " in unsigned type (expected truncation to 0)");
          continue;
        }
      if (S == 0.)
        {
          VF_CHECK(x == 0, where, ": image scaling factor 0 in the header but voxel ", i, " has value ", x, " (the data are lost)");
          VF_CHECK(st == 0, where, ": scale 0 but stored ", double(st));
          continue;
        }
      const long double q = static_cast<long double>(x) / static_cast<long double>(S);
      // never overflows the chosen type: the scale factor leaves the quotient inside the range of the type
      VF_CHECK(q <= t.tmax * (1 + 1e-5L) + 0.5L && q >= t.tmin * (1 + 1e-5L) - 0.5L, where, ": value ", x, " / scale ", S, " = ", double(q),
               " does not fit type ", t.name);
      const long double err = std::fabs(st - q);
      const long double tol = 0.5L + static_cast<long double>(TOL_HDR) * std::fabs(q) + 1e-3L;
      worst = std::max(worst, double(err / tol));
      VF_CHECK(err <= tol, where, ": voxel ", i, " value ", x, " / scale ", S, " = ", double(q), " but the file stores ", double(st), " (type ", t.name,
               big_endian ? " big endian" : " little endian", "): wrapped or wrongly rounded");
    }
  stats().maxi("stored integer err / (0.5 + 6e-6 q)", worst);
  return Result::pass();
}

// ---- the check ------------------------------------------------------------------------------------------------------------------
long g_counter = 0;

std::vector<long>
truncation_lengths(long size, bool thorough_all, int datasets_in_file)
{
  std::vector<long> L;
  if (size <= 192 || thorough_all)
    for (long l = 0; l < size; ++l)
      L.push_back(l);
  else
    {
      const long stride = std::max<long>(64, size / 48);
      for (long l = 0; l < size - 64; l += stride)
        L.push_back(l);
      // a file that holds exactly the first k of its data sets, one byte less and one byte more (domain audit AUD_B)
      for (int k = 1; k < datasets_in_file; ++k)
        for (long l = size / datasets_in_file * k - 1; l <= size / datasets_in_file * k + 1; ++l)
          if (l > 0 && l < size - 64)
            L.push_back(l);
      for (long l = size - 64; l < size; ++l)
        L.push_back(l);
      std::sort(L.begin(), L.end());
      L.erase(std::unique(L.begin(), L.end()), L.end());
    }
  return L;
}

Result
check(const json& c)
{
  vg::quiet();
  const int container = c["container"].get<int>();
  const Grid g = grid_of(c["grid"]);
  const json& fj = c["fmt"];
  const bool multi = container == DYN_MULTI || container == PAR_MULTI;
  const bool multi_default = is_multi_default(c);
  // the Multi formats write the individual images with OutputFileFormat<...>::default_sptr() unless parsed otherwise
  const TInfo& t = multi_default ? TYPES[T_FLOAT] : TYPES[fj["type"].get<int>()];
  const bool want_big = multi_default ? !host_is_little_endian() : fj["big_endian"].get<bool>();
  const bool via_parser = fj["via_parser"].get<bool>();
  ExamSpec es = exam_spec_of(c["exam"]);
  const int D = num_datasets(c);
  const long nv = g.nvox();

  std::vector<std::vector<float>> data;
  for (int d = 0; d < D; ++d)
    data.push_back(make_values(c["vals"], nv, d));
  const float setting = multi_default ? 0.F : scale_setting(c, data);

  // ---- construction (rejections by STIR only here) ---------------------------------------------------------------
  const IndexRange3D range(g.mn[0], g.mn[0] + g.n[0] - 1, g.mn[1], g.mn[1] + g.n[1] - 1, g.mn[2], g.mn[2] + g.n[2] - 1);
  const CartesianCoordinate3D<float> origin(g.origin[0], g.origin[1], g.origin[2]);
  const CartesianCoordinate3D<float> vs(g.vs[0], g.vs[1], g.vs[2]);
  shared_ptr<ExamInfo> exam;
  shared_ptr<VoxelsOnCartesianGrid<float>> single;
  shared_ptr<DynamicDiscretisedDensity> dyn;
  shared_ptr<ParametricVoxelsOnCartesianGrid> par;
  try
    {
      const bool dynamic = container == DYN_INTERFILE || container == DYN_MULTI;
      exam = make_exam(es, !dynamic);
      if (container == SINGLE)
        single.reset(new VoxelsOnCartesianGrid<float>(exam, range, origin, vs));
      else if (dynamic)
        {
          std::vector<std::pair<double, double>> ft;
          for (auto& f : es.frames)
            ft.push_back(std::make_pair(f.first, f.first + f.second));
          shared_ptr<VoxelsOnCartesianGrid<float>> templ(new VoxelsOnCartesianGrid<float>(exam, range, origin, vs));
          shared_ptr<Scanner> scanner(Scanner::get_scanner_from_name(es.system));
          dyn.reset(new DynamicDiscretisedDensity(TimeFrameDefinitions(ft), es.t0, scanner, templ));
        }
      else
        par.reset(new ParametricVoxelsOnCartesianGrid(ParametricVoxelsOnCartesianGridBaseType(exam, range, origin, vs)));
    }
  catch (const stir_verif::AssertionFailure&)
    {
      throw;
    }
  catch (const std::exception& e)
    {
      return Result::reject(std::string("construction rejected: ") + e.what());
    }
  // fill
  if (single)
    std::copy(data[0].begin(), data[0].end(), single->begin_all());
  else if (dyn)
    for (int d = 0; d < D; ++d)
      std::copy(data[std::size_t(d)].begin(), data[std::size_t(d)].end(), dyn->get_density(unsigned(d + 1)).begin_all());
  else
    {
      long i = 0;
      for (auto it = par->begin_all_densel(); it != par->end_all_densel(); ++it, ++i)
        {
          (*it)[1] = data[0][std::size_t(i)];
          (*it)[2] = data[1][std::size_t(i)];
        }
    }

  // ---- classes ---------------------------------------------------------------------------------------------------------
  stats().cls(cat("container:", CONTAINER_NAMES[container]));
  stats().cls(cat("type:", t.name));
  stats().cls(want_big ? "byte order: big endian requested" : "byte order: little endian requested");
  stats().cls(setting == 0.F ? "scale: automatic" : "scale: fixed");
  stats().cls(cat("values kind ", c["vals"]["kind"].get<int>()));
  if (std::fabs(EXPONENTS[c["vals"]["exp"].get<int>() % N_EXPONENTS]) >= 18)
    stats().cls("values: huge or tiny magnitude");
  stats().cls(cat("modality ", es.mod));
  stats().cls(cat("patient rotation ", es.rot));
  if (!g.default_range())
    stats().cls("non-default index range");
  if (!g.zero_origin())
    stats().cls("non-zero origin");
  if ((via_parser && !multi) || (multi && !multi_default))
    stats().cls("format configured by parsing");
  bool neg_to_unsigned = false;
  if (t.is_int && !t.is_signed)
    for (auto& d : data)
      for (float x : d)
        if (x < 0)
          neg_to_unsigned = true;
  if (neg_to_unsigned)
    stats().cls("negatives into unsigned type (documented truncation to 0)");
  if (es.en_kind == 2)
    stats().cls("energy window with lower level 0");
  if (D > 1 && c["vals"].value("dspread", 0) != 0)
    {
      static const char* const sn[] = { "", "magnitudes two decades apart, towards 1", "magnitudes two decades apart, away from 1", "first data set all zero",
                                        "all but the first data set all zero" };
      stats().cls(cat("data sets differ: ", sn[c["vals"].value("dspread", 0) % 5]));
    }
  if (nv == 1)
    stats().cls("grid: a single voxel");
  else if (g.n[0] == 1 || g.n[1] == 1 || g.n[2] == 1)
    stats().cls(cat("grid: size 1 along ", g.n[0] == 1 ? "z" : "", g.n[1] == 1 ? "y" : "", g.n[2] == 1 ? "x" : ""));

  // ---- write --------------------------------------------------------------------------------------------------------------
  const std::string base = cat(tmp_dir(), "/c10_", getpid(), "_", ++g_counter);
  FileGuard guard;
  if (multi)
    {
      guard.paths.push_back(base + ".txt");
      for (int d = 1; d <= D; ++d)
        guard.add_interfile_triplet(cat(base, "_", d));
    }
  else
    guard.add_interfile_triplet(base);

  std::string written = base;
  bool actual_big = want_big;
  Succeeded ok = Succeeded::no;
  switch (container)
    {
      case SINGLE: {
        InterfileOutputFileFormat fmt;
        configure(fmt, t, want_big, setting, via_parser);
        actual_big = fmt.get_byte_order() == ByteOrder::big_endian;
        VF_CHECK(actual_big == want_big, "InterfileOutputFileFormat did not accept the byte order");
        VF_CHECK(fmt.get_type_of_numbers() == NumericType(t.id), "InterfileOutputFileFormat did not accept type ", t.name);
        ok = static_cast<const OutputFileFormat<DiscretisedDensity<3, float>>&>(fmt).write_to_file(written, *single);
        break;
      }
      case DYN_INTERFILE: {
        InterfileDynamicDiscretisedDensityOutputFileFormat fmt;
        configure(fmt, t, want_big, setting, via_parser);
        // documented: byte order currently fixed to the native format; set_byte_order returns what is used
        actual_big = fmt.get_byte_order() == ByteOrder::big_endian;
        ok = static_cast<const OutputFileFormat<DynamicDiscretisedDensity>&>(fmt).write_to_file(written, *dyn);
        break;
      }
      case PAR_INTERFILE: {
        InterfileParametricDiscretisedDensityOutputFileFormat<ParametricVoxelsOnCartesianGridBaseType> fmt;
        configure(fmt, t, want_big, setting, via_parser);
        actual_big = fmt.get_byte_order() == ByteOrder::big_endian;
        ok = static_cast<const OutputFileFormat<ParametricVoxelsOnCartesianGrid>&>(fmt).write_to_file(written, *par);
        break;
      }
      case DYN_MULTI: {
        MultiDynamicDiscretisedDensityOutputFileFormat fmt;
        if (!multi_default)
          configure_multi(fmt, t, want_big, setting);
        ok = static_cast<const OutputFileFormat<DynamicDiscretisedDensity>&>(fmt).write_to_file(written, *dyn);
        break;
      }
      default: {
        MultiParametricDiscretisedDensityOutputFileFormat<ParametricVoxelsOnCartesianGridBaseType> fmt;
        if (!multi_default)
          configure_multi(fmt, t, want_big, setting);
        ok = static_cast<const OutputFileFormat<ParametricVoxelsOnCartesianGrid>&>(fmt).write_to_file(written, *par);
        break;
      }
    }
  VF_CHECK(ok == Succeeded::yes, "write_to_file returned Succeeded::no");
  VF_CHECK(written == base + (multi ? ".txt" : ".hv"), "write_to_file returned file name ", written);
  if (actual_big != want_big)
    stats().cls("byte order forced to native (documented for dynamic/parametric Interfile)");

  // the image handed to write_to_file is const: unchanged afterwards (non-native byte order swaps in place and back)
  {
    DataSet now;
    for (int d = 0; d < D; ++d)
      {
        bool regular = true;
        if (single)
          regular = extract(*single, now, [](const float& v) { return v; });
        else if (dyn)
          regular = extract(dyn->get_density(unsigned(d + 1)), now, [](const float& v) { return v; });
        else
          regular = extract(*par, now, [d](const KineticParameters<2, float>& kp) { return kp[d + 1]; });
        VF_CHECK(regular && now.vals.size() == data[std::size_t(d)].size(), "image lost its regular range while being written");
        for (std::size_t i = 0; i < now.vals.size(); ++i)
          VF_CHECK(same_bits(now.vals[i], data[std::size_t(d)][i]), "write_to_file changed the image it was given: data set ", d + 1, " voxel ", i, " was ",
                   data[std::size_t(d)][i], " is ", now.vals[i]);
      }
  }

  // ---- file level oracle -------------------------------------------------------------------------------------------------
  std::vector<FileSet> files;
  for (int d = 1; d <= D; ++d)
    {
      FileSet fs;
      if (multi)
        {
          fs.header = cat(base, "_", d, ".hv");
          fs.data_file = cat(base, "_", d, ".v");
          fs.index_in_header = 1;
        }
      else
        {
          fs.header = base + ".hv";
          fs.data_file = base + ".v";
          fs.index_in_header = d;
        }
      files.push_back(fs);
    }
  std::vector<double> S(std::size_t(D), 1.);
  for (int d = 0; d < D; ++d)
    {
      Result r = check_file_level(files[std::size_t(d)], data[std::size_t(d)], t, actual_big, setting, g, S[std::size_t(d)], cat("data set ", d + 1, " on file"));
      if (r.failed())
        return r;
      // a fixed scale factor is used unless the data do not fit; a non-zero scale factor is never smaller than the
      // smallest normalised value of its type (convert_array.h, find_scale_factor)
      if (t.is_int && setting > 0.F)
        {
          const double need = needed_scale(data[std::size_t(d)], t, t.tmax) * 1.01;
          const double expected = std::max(double(setting), double(FLT_MIN));
          if (setting < FLT_MIN)
            stats().cls("fixed scale denormalised: raised to FLT_MIN by find_scale_factor");
          if (need <= double(setting) * 0.999)
            VF_CHECK(rel_close(S[std::size_t(d)], expected, TOL_HDR), "data set ", d + 1, ": scale_to_write_data ", setting,
                     " fits the data (needed ", need, ") but image scaling factor is ", S[std::size_t(d)]);
          else if (need > double(setting) * 1.001)
            stats().cls("fixed scale too small: raised by find_scale_factor");
        }
      // The quantisation step itself (domain audit AUD_B: it used to be taken from the header the library wrote, so any step
      // was "within half a step").  Documented: scale 0 -> "the output will be rescaled such that the maximum range of the
      // output type of numbers is used" (OutputFileFormat.h, set_scale_to_write_data; convert_array.h: "the maximum range of T2
      // is used"), and a fixed scale that does not fit -> "the same scale_factor is used as in the 0 case".  The harness's own
      // statement: the step is at most 1.05 x (largest value / largest number of the type) (the library takes 1.01), unless that
      // is below the smallest normalised float (documented lower bound of a non-zero scale factor).
      if (t.is_int)
        {
          const double need0 = needed_scale(data[std::size_t(d)], t, t.tmax);
          if (need0 > 0 && (setting == 0.F || need0 * 1.01 > double(setting) * 1.001))
            {
              const double hi = std::max(need0 * 1.05, double(FLT_MIN) * (1 + TOL_HDR));
              if (need0 * 1.05 > double(FLT_MIN))
                stats().maxi("automatic scale / (max value / type max)", S[std::size_t(d)] / need0);
              stats().cls("scale: maximum range of the type demanded");
              VF_CHECK(S[std::size_t(d)] <= hi, "data set ", d + 1, ": image scaling factor ", S[std::size_t(d)], " but the largest value needs only ", need0,
                       " for type ", t.name, " (scale_to_write_data ", setting, "): the maximum range of the output type is not used");
            }
        }
    }

  // ---- read back ---------------------------------------------------------------------------------------------------------------
  ReadBack rb;
  VF_CHECK(read_back(container, written, rb), "read_from_file returned a null pointer for a complete file");
  VF_CHECK(int(rb.sets.size()) == D, "wrote ", D, " data sets, read ", rb.sets.size());
  double worst_val = 0, worst_pos = 0;
  for (int d = 0; d < D; ++d)
    {
      const DataSet& ds = rb.sets[std::size_t(d)];
      VF_CHECK(ds.n[0] == g.n[0] && ds.n[1] == g.n[1] && ds.n[2] == g.n[2], "data set ", d + 1, ": sizes written ", g.n[0], "x", g.n[1], "x", g.n[2], " read ",
               ds.n[0], "x", ds.n[1], "x", ds.n[2]);
      const std::vector<float>& v = data[std::size_t(d)];
      const double Sd = S[std::size_t(d)];
      long i = 0;
      for (int dz = 0; dz < g.n[0]; ++dz)
        for (int dy = 0; dy < g.n[1]; ++dy)
          for (int dx = 0; dx < g.n[2]; ++dx, ++i)
            {
              // positions: reference in double from the Case
              const int idx[3] = { g.mn[0] + dz, g.mn[1] + dy, g.mn[2] + dx };
              for (int a = 0; a < 3; ++a)
                {
                  const double want = double(g.vs[a]) * idx[a] + double(g.origin[a]);
                  const double off = double(g.vs[a]) * g.mn[a] + double(g.origin[a]); // first pixel offset
                  const double ext = double(g.vs[a]) * (g.n[a] - 1);
                  const double mag = std::fabs(double(g.origin[a])) + double(g.vs[a]) * std::max(std::abs(g.mn[a]), std::abs(g.mn[a] + g.n[a] - 1)) + std::fabs(off) + ext;
                  const double tol = TOL_HDR * (std::fabs(off) + ext) + 1e-6 * mag + 1e-30;
                  const double err = std::fabs(double(ds.pos[std::size_t(i)][std::size_t(a)]) - want);
                  worst_pos = std::max(worst_pos, err / tol);
                  VF_CHECK(err <= tol, "data set ", d + 1, " voxel (", idx[0], ",", idx[1], ",", idx[2], ") axis ", "zyx"[a], ": written at ", want, " mm, read back at ",
                           ds.pos[std::size_t(i)][std::size_t(a)], " mm (tolerance ", tol, ")");
                }
              // values
              const float x = v[std::size_t(i)];
              const float y = ds.vals[std::size_t(i)];
              // OutputFileFormat.h: automatic scale: "except for floats and doubles in which case no rescaling occurs"
              if (t.id == NumericType::FLOAT || (t.id == NumericType::DOUBLE && (Sd == 1. || setting == 0.F)))
                VF_CHECK(same_bits(x, y) || (x == 0 && y == 0 && t.id == NumericType::DOUBLE), "data set ", d + 1, " voxel ", i, ": wrote ", x, " read ", y,
                         " (floating point output must be exact)");
              else
                {
                  const double want = (t.is_int && !t.is_signed && x < 0) ? 0. : double(x);
                  const double tol = (t.is_int ? std::fabs(Sd) / 2 : 0.) + TOL_HDR * std::fabs(want) + TINY;
                  const double err = std::fabs(double(y) - want);
                  worst_val = std::max(worst_val, err / tol);
                  VF_CHECK(err <= tol, "data set ", d + 1, " voxel ", i, ": wrote ", x, " read ", y, " type ", t.name, " image scaling factor ", Sd, " (tolerance ", tol, ")");
                }
            }
    }
  stats().maxi("position err / tolerance", worst_pos);
  stats().maxi("value err / (scale/2 + 6e-6|v|)", worst_val);

  // the reference positions agree with what the original object reports (sanity of the reference, float rounding only)
  {
    const VoxelsOnCartesianGrid<float>* o = single ? single.get() : (dyn ? dynamic_cast<const VoxelsOnCartesianGrid<float>*>(&dyn->get_density(1)) : nullptr);
    if (o)
      {
        const CartesianCoordinate3D<float> p = o->get_physical_coordinates_for_indices(make_coordinate(g.mn[0] + g.n[0] - 1, g.mn[1], g.mn[2] + g.n[2] - 1));
        const int idx[3] = { g.mn[0] + g.n[0] - 1, g.mn[1], g.mn[2] + g.n[2] - 1 };
        for (int a = 0; a < 3; ++a)
          {
            const double want = double(g.vs[a]) * idx[a] + double(g.origin[a]);
            VF_CHECK(std::fabs(double(p[a + 1]) - want) <= 4 * FLT_EPSILON * (std::fabs(double(g.vs[a]) * idx[a]) + std::fabs(double(g.origin[a]))) + 1e-30,
                     "reference position and get_physical_coordinates_for_indices of the original image disagree on axis ", a);
          }
      }
  }

  // ---- exam information --------------------------------------------------------------------------------------------------------
  {
    std::vector<std::pair<double, double>> expect_frames = es.frames;
    if (container == PAR_MULTI && expect_frames.size() > 1)
      expect_frames.resize(1); // documented by read_interfile_image: "Only the first will be kept"
    Result r = compare_exam(es, expect_frames, *rb.exam, "exam info");
    if (r.failed())
      return r;
    for (std::size_t f = 0; f < rb.set_exams.size(); ++f)
      {
        std::vector<std::pair<double, double>> one(1, es.frames[f]);
        r = compare_exam(es, one, *rb.set_exams[f], cat("exam info of frame ", f + 1));
        if (r.failed())
          return r;
      }
  }

  // ---- faults: the data file shorter than announced -------------------------------------------------------------------------------
  const json& tr = c["trunc"];
  if (tr["mode"].get<int>() != 0)
    {
      stats().cls("truncation case");
      const FileSet& victim = multi ? files[std::size_t(tr["file"].get<int>() % D)] : files[0];
      std::vector<unsigned char> full;
      VF_CHECK(read_bytes(victim.data_file, full), "cannot re-read data file");
      const long size = long(full.size());
      const std::vector<long> lengths = truncation_lengths(size, tr["mode"].get<int>() == 2, multi ? 1 : D);
      long n_tried = 0;
      for (auto it = lengths.rbegin(); it != lengths.rend(); ++it)
        {
          const long L = *it;
          if (truncate(victim.data_file.c_str(), off_t(L)) != 0)
            throw std::logic_error("harness: truncate() failed");
          bool got_image = false;
          stir_verif::asserts_on = false; // Release behaviour: only error()/exceptions and null count as "reported"
          try
            {
              ReadBack tmp;
              got_image = read_back(container, written, tmp);
            }
          catch (const std::exception&)
            {
              got_image = false;
            }
          stir_verif::asserts_on = true;
          ++n_tried;
          VF_CHECK(!got_image, "data file truncated to ", L, " of ", size, " bytes (", victim.data_file.substr(victim.data_file.rfind('/') + 1),
                   ") but read_from_file returned an image");
        }
      stats().count("truncated lengths tried", n_tried);
      // longer than announced is legal: same result as the complete file
      const int extra = tr["extra"].get<int>();
      std::vector<unsigned char> longer(full);
      for (int k = 0; k < extra; ++k)
        longer.push_back(static_cast<unsigned char>(0xA5 ^ k));
      unlink(victim.data_file.c_str()); // a fresh file (rewriting a file truncated to 0 makes ext4 flush synchronously)
      VF_CHECK(write_bytes(victim.data_file, longer.data(), longer.size()), "cannot rewrite data file");
      ReadBack again;
      VF_CHECK(read_back(container, written, again), "data file ", extra, " bytes longer than announced: read_from_file returned null");
      VF_CHECK(again.sets.size() == rb.sets.size(), "longer data file: number of data sets differs");
      // Interfile containers keep all data sets in one file: the extra bytes are at the end, nothing moves
      for (std::size_t d = 0; d < rb.sets.size(); ++d)
        for (std::size_t i = 0; i < rb.sets[d].vals.size(); ++i)
          VF_CHECK(same_bits(again.sets[d].vals[i], rb.sets[d].vals[i]), "data file ", extra, " bytes longer than announced: data set ", d + 1, " voxel ", i, " read as ",
                   again.sets[d].vals[i], " instead of ", rb.sets[d].vals[i]);
    }
  return Result::pass();
}

// ---- generator ------------------------------------------------------------------------------------------------------------------------
inline void
stats_frame_before_zero(double end)
{
  vf::stats().cls(end < 0 ? "exam: frame ends before time 0" : (end == 0 ? "exam: frame ends at time 0" : "exam: frame starts before time 0"));
}

json
gen_exam(Src& s, int container)
{
  json e;
  static const std::vector<int> mods = { 1, 1, 1, 1, 2, 2, 2, 0, 0, 3, 4, 5, 6 }; // PT, NM, Unknown, MR, CT, US, Optical
  e["mod"] = s.pick(mods);
  e["orient"] = int(s.range(0, 3));
  e["rot"] = int(s.range(0, 5));
  // time frames: precondition of TimeFrameDefinitions(vector<pair>): in sequence, start <= end (error() otherwise)
  int nframes;
  if (container == SINGLE)
    nframes = int(s.range(0, 1));
  else if (container == DYN_INTERFILE || container == DYN_MULTI)
    nframes = int(s.small(1, 4));
  else if (container == PAR_INTERFILE)
    nframes = int(s.range(0, 3));
  else
    nframes = int(s.range(0, 1));
  json frames = json::array();
  double tcur = s.chance(1, 3) ? 0. : s.nice_real(0., 3000.);
  // frames before the reference time (negative start, e.g. a background frame before injection; TimeFrameDefinitions only demands start <= end
  // and frames in sequence): frames that end before, AT and after time 0 (round 4: the writer's "is there a frame" guard looked at the end time)
  const int neg = int(s.range(0, 7));
  if (neg == 0)
    tcur = -s.nice_real(0.5, 3000.);
  for (int f = 0; f < nframes; ++f)
    {
      double dur = s.nice_real(0.5, 2000.);
      if (neg == 1 && f == 0)
        { // a frame that ends exactly at time 0
          tcur = -dur;
        }
      frames.push_back(json::array({ tcur, dur }));
      if (tcur < 0)
        stats_frame_before_zero(tcur + dur);
      tcur += dur + (s.coin() ? 0. : s.nice_real(0., 100.));
    }
  e["frames"] = frames;
  json rn;
  rn["kind"] = int(s.range(0, 2));
  rn["idx"] = int(s.range(0, 6 * 7 - 1)); // modulo 7 (PET), 4 (nucmed), 6 (free text)
  rn["hl"] = s.chance(1, 4) ? -1. : s.nice_real(1., 100000.);
  rn["br"] = s.chance(1, 3) ? -1. : s.real(0.01, 1.);
  e["rn"] = rn;
  json en;
  en["kind"] = s.chance(1, 10) ? 2 : int(s.range(0, 1)); // kind 2: window with lower level 0
  en["low"] = s.nice_real(50., 500.);
  en["high"] = en["low"].get<double>() + s.nice_real(1., 400.);
  e["en"] = en;
  static const std::vector<double> calibs = { -1., -1., 1., 0.5, 12345.678, 3.25e-7, 8.1e8 };
  e["calib"] = s.coin() ? s.pick(calibs) : s.real(0.001, 1000.);
  e["sys"] = s.chance(1, 10) ? int(s.pick(std::vector<int>{ 0, 3 })) : int(s.pick(std::vector<int>{ 1, 2, 4, 5 }));
  e["t0"] = s.chance(1, 6) ? double(s.range(1000000000L, 1700000000L)) : 0.;
  return e;
}

json
gen(Src& s, int size)
{
  json c;
  static const std::vector<int> conts = { SINGLE, SINGLE, SINGLE, SINGLE, SINGLE, SINGLE, DYN_INTERFILE, DYN_INTERFILE, DYN_MULTI, PAR_INTERFILE, PAR_INTERFILE, PAR_MULTI };
  const int container = s.pick(conts);
  c["container"] = container;
  // grid
  const int maxn = size < 15 ? 3 : (size < 50 ? 7 : 12);
  json g;
  int n[3], mn[3];
  double vsz[3], org[3];
  const bool default_range = s.chance(1, 5);
  for (int a = 0; a < 3; ++a)
    {
      n[a] = int(s.range(1, maxn));
      mn[a] = default_range ? (a == 0 ? 0 : -(n[a] / 2)) : int(s.range(-15, 15));
      vsz[a] = s.nice_real(0.25, 8.);
    }
  if (s.chance(1, 3))
    vsz[1] = vsz[2];
  const bool zero_origin = s.chance(1, 4);
  for (int a = 0; a < 3; ++a)
    org[a] = zero_origin ? 0. : double(float(vsz[a])) * s.nice_real(-200., 200.);
  g["min"] = { mn[0], mn[1], mn[2] };
  g["size"] = { n[0], n[1], n[2] };
  g["vs"] = { double(float(vsz[0])), double(float(vsz[1])), double(float(vsz[2])) };
  g["origin"] = { double(float(org[0])), double(float(org[1])), double(float(org[2])) };
  c["grid"] = g;
  // format
  json f;
  static const std::vector<int> types = { T_FLOAT, T_FLOAT, T_FLOAT, T_SHORT, T_SHORT, T_SHORT, T_USHORT, T_USHORT, T_SCHAR, T_UCHAR, T_INT, T_INT, T_UINT, T_LONG, T_ULONG, T_DOUBLE };
  const int type = s.pick(types);
  f["type"] = type;
  f["big_endian"] = s.coin();
  int mode = int(s.pick(std::vector<int>{ 0, 0, 0, 1, 1, 2 }));
  f["scale_idx"] = int(s.range(0, 7));
  f["via_parser"] = s.chance(1, 4);
  f["multi_default"] = s.chance(1, 4);
  c["trunc"] = { { "mode", s.chance(1, 12) ? 1 : 0 }, { "file", int(s.range(0, 3)) }, { "extra", int(s.range(1, 64)) } };
  // values
  json v;
  int kind = int(s.range(0, 7));
  const bool is_unsigned = type == T_UCHAR || type == T_USHORT || type == T_UINT || type == T_ULONG;
  bool neg = s.coin();
  if (is_unsigned && s.chance(2, 3))
    { // negatives into unsigned types stay a labelled minority
      if (kind == 0 || kind == 5)
        kind = 1;
      neg = false;
    }
  v["kind"] = kind;
  v["neg"] = neg;
  v["exp"] = int(s.range(0, N_EXPONENTS - 1));
  v["seed"] = s.seed64();
  c["vals"] = v;
  f["scale_mode"] = mode;
  c["fmt"] = f;
  c["exam"] = gen_exam(s, container);
  // known finding F5 (work/notes/C10_findings.md), excluded by construction; VERIF_NO_EXCLUDE=1 switches this off
  if (!g_no_exclude && container == PAR_INTERFILE && type != T_FLOAT && c["exam"]["frames"].size() >= 2 && !s.chance(1, 4))
    c["exam"]["frames"].erase(c["exam"]["frames"].begin() + 1, c["exam"]["frames"].end()); // F5
  // ---- domain audit AUD_B: boundaries the quantifier covers that the draws above (practically) never produce; drawn LAST so that
  // the earlier part of the random stream is unchanged
  // (a) the data sets of one container need different scale factors / one of them is all zero
  if (container != SINGLE && s.chance(1, 3))
    c["vals"]["dspread"] = int(s.range(1, 4));
  // (b) degenerate grids: sizes are drawn from 1..12 per axis, so one voxel had probability 1/1728 and one plane / row / column ~8 %
  if (s.chance(1, 20))
    {
      const int which = int(s.range(0, 4));
      for (int a = 0; a < 3; ++a)
        if (which == 0 || which == a + 1 || (which == 4 && a > 0))
          c["grid"]["size"][a] = 1; // 0: one voxel, 1..3: one plane / row / column of voxels, 4: a single column along z
    }
  return c;
}

// ---- known findings: signatures (computed from the Case; "" when the case is outside every known class) -----------------------------------
//! the scale factor find_scale_factor (convert_range.inl) arrives at, replicated in the same arithmetic
float
predict_scale(const TInfo& t, float setting, const std::vector<float>& v)
{
  if (t.id == NumericType::FLOAT)
    return 1.F;
  double mx = -DBL_MAX, mn = DBL_MAX;
  for (float x : v)
    {
      mx = std::max(mx, double(x));
      mn = std::min(mn, double(x));
    }
  if (!t.is_signed && mx < 0)
    mx = 0; // negative numbers are ignored when the output type is unsigned
  const double tmax = t.is_int ? double(t.tmax) : DBL_MAX, tmin = t.is_int ? double(t.tmin) : -DBL_MAX;
  double tmp = mx / tmax;
  if (t.is_signed)
    tmp = std::max(tmp, mn / tmin);
  tmp *= 1.01;
  float scale = setting;
  if (scale == 0 && !t.is_int)
    scale = 1.F; // floating point output is not rescaled to the maximum range
  if (scale == 0 || tmp > scale)
    scale = float(tmp);
  if ((tmp > 0 || scale > 0) && scale < FLT_MIN)
    scale = FLT_MIN; // a non-zero scale factor is never smaller than the smallest normalised value
  return scale;
}

std::string
known_signature(const json& c)
{
  if (g_no_exclude)
    return "";
  const int container = c["container"].get<int>();
  // F5: parametric Interfile image whose exam info has >= 2 time frames and identical scale factors != 1:
  //     'quantification units' is written, the reader then expects frames x parameters identical factors
  if (container != PAR_INTERFILE || c["exam"]["frames"].size() < 2)
    return "";
  const TInfo& t = TYPES[c["fmt"]["type"].get<int>()];
  if (t.id == NumericType::FLOAT)
    return "";
  const int D = num_datasets(c);
  const long nv = grid_of(c["grid"]).nvox();
  std::vector<std::vector<float>> data;
  for (int d = 0; d < D; ++d)
    data.push_back(make_values(c["vals"], nv, d));
  const float setting = scale_setting(c, data);
  const float S0 = predict_scale(t, setting, data[0]), S1 = predict_scale(t, setting, data[1]);
  if (S0 == S1 && S0 != 1.F)
    return "C10:parametric-interfile-multiple-time-frames-quantification-units";
  return "";
}

bool
nontrivial(const json& c)
{
  const Grid g = grid_of(c["grid"]);
  const bool multi_default = is_multi_default(c);
  const bool non_float = !multi_default && c["fmt"]["type"].get<int>() != T_FLOAT;
  return !g.default_range() || !g.zero_origin() || non_float || c["trunc"]["mode"].get<int>() != 0;
}

json
base_case()
{
  json c;
  c["container"] = SINGLE;
  c["grid"] = { { "min", { -2, 3, -7 } }, { "size", { 2, 3, 4 } }, { "vs", { 2.5, 1.25, 0.75 } }, { "origin", { 12.5, -30., 7.125 } } };
  c["fmt"] = { { "type", T_FLOAT }, { "big_endian", false }, { "scale_mode", 0 }, { "scale_idx", 0 }, { "via_parser", false }, { "multi_default", false } };
  c["vals"] = { { "kind", 0 }, { "neg", true }, { "exp", 5 }, { "seed", 12345 } };
  c["trunc"] = { { "mode", 0 }, { "file", 0 }, { "extra", 7 } };
  c["exam"] = { { "mod", 1 },
                { "orient", 0 },
                { "rot", 0 },
                { "frames", json::array({ json::array({ 10.5, 60. }) }) },
                { "rn", { { "kind", 1 }, { "idx", 0 }, { "hl", -1. }, { "br", -1. } } },
                { "en", { { "kind", 1 }, { "low", 350. }, { "high", 650. } } },
                { "calib", 2.5 },
                { "sys", 1 },
                { "t0", 0. } };
  return c;
}

void
fit_frames(json& c)
{
  const int cont = c["container"].get<int>();
  json fr = json::array();
  const int n = cont == SINGLE || cont == PAR_MULTI ? 1 : (cont == PAR_INTERFILE ? 2 : 3);
  double t = 5.25;
  for (int k = 0; k < n; ++k)
    {
      fr.push_back(json::array({ t, 30.5 * (k + 1) }));
      t += 30.5 * (k + 1) + (k == 0 ? 2. : 0.);
    }
  c["exam"]["frames"] = fr;
}

// corner configurations always run: every patient position/modality, every byte of every type truncated
std::vector<json>
fixed_cases(int)
{
  std::vector<json> v;
  for (int orient = 0; orient < 4; ++orient)
    for (int rot = 0; rot < 6; ++rot)
      {
        json c = base_case();
        c["exam"]["orient"] = orient;
        c["exam"]["rot"] = rot;
        c["exam"]["mod"] = (orient * 6 + rot) % 7;
        v.push_back(c);
      }
  for (int type = 0; type < 10; ++type)
    for (int cont = 0; cont < 5; ++cont)
      {
        json c = base_case();
        c["container"] = cont;
        fit_frames(c);
        c["fmt"]["type"] = type;
        c["fmt"]["big_endian"] = (type + cont) % 2 == 0;
        c["fmt"]["scale_mode"] = 1;
        c["fmt"]["scale_idx"] = 4;
        c["vals"]["kind"] = (type == T_UCHAR || type == T_USHORT || type == T_UINT || type == T_ULONG) ? 1 : 0;
        c["trunc"] = { { "mode", 2 }, { "file", type % 3 }, { "extra", 1 + type } };
        v.push_back(c);
      }
  // domain audit AUD_B: data sets that need different scale factors, in every multi-data-set container, automatic and fixed scale
  for (int cont = 1; cont < 5; ++cont)
    for (int spread = 1; spread <= 4; ++spread)
      for (int type : { int(T_SHORT), int(T_UCHAR), int(T_LONG), int(T_DOUBLE) })
        {
          json c = base_case();
          c["container"] = cont;
          fit_frames(c);
          if (!g_no_exclude && cont == PAR_INTERFILE)
            c["exam"]["frames"].erase(c["exam"]["frames"].begin() + 1, c["exam"]["frames"].end()); // F5
          c["fmt"]["type"] = type;
          c["fmt"]["big_endian"] = (spread + cont) % 2 == 0;
          c["fmt"]["scale_mode"] = (spread + type) % 2;
          c["fmt"]["scale_idx"] = 2 + spread; // relative factors 1.0, 1.02, 1.5, 4 of what the largest data set needs
          c["vals"]["kind"] = type == T_UCHAR ? 1 : (spread % 2 ? 0 : 6);
          c["vals"]["exp"] = 3 + spread;      // 1e-2, 1, 1, 10
          c["vals"]["dspread"] = spread;
          if (spread == 4)
            c["trunc"] = { { "mode", 1 }, { "file", 1 }, { "extra", 3 } };
          v.push_back(c);
        }
  // one voxel, one plane, one row, one column: every type
  for (int type = 0; type < 10; ++type)
    for (int shape = 0; shape < 4; ++shape)
      {
        json c = base_case();
        c["container"] = (type + shape) % 5;
        fit_frames(c);
        if (!g_no_exclude && c["container"].get<int>() == PAR_INTERFILE)
          c["exam"]["frames"].erase(c["exam"]["frames"].begin() + 1, c["exam"]["frames"].end()); // F5
        for (int a = 0; a < 3; ++a)
          if (shape == 0 || shape == a + 1)
            c["grid"]["size"][a] = 1;
        c["fmt"]["type"] = type;
        c["fmt"]["big_endian"] = shape % 2 == 0;
        c["vals"]["kind"] = (type == T_UCHAR || type == T_USHORT || type == T_UINT || type == T_ULONG) ? 1 : (shape == 0 ? 2 : 0);
        if (type % 3 == 0) // every length of the (tiny) data file for four of the types
          c["trunc"] = { { "mode", 2 }, { "file", 0 }, { "extra", 2 } };
        v.push_back(c);
      }
  return v;
}

// bounded-exhaustive part: container x NumericType x ByteOrder x scale setting x value kind on one small non-default grid
bool
enumerate(uint64_t idx, int, json& c)
{
  CounterSrc s(idx);
  const int cont = int(s.range(0, 4));
  const int type = int(s.range(0, 9));
  const bool big = s.coin();
  const int scale_sel = int(s.range(0, 2)); // automatic, fixed and large enough, fixed and too small
  const int kind = int(s.range(0, 7));
  const bool parser = s.coin();
  if (s.leftover())
    return false;
  c = base_case();
  c["container"] = cont;
  fit_frames(c);
  c["exam"]["mod"] = 1 + int(idx % 2);
  c["exam"]["rot"] = int(idx % 2);
  if (!g_no_exclude && cont == PAR_INTERFILE && type != T_FLOAT)
    c["exam"]["frames"].erase(c["exam"]["frames"].begin() + 1, c["exam"]["frames"].end()); // F5
  c["fmt"]["type"] = type;
  c["fmt"]["big_endian"] = big;
  c["fmt"]["via_parser"] = parser;
  c["fmt"]["scale_mode"] = scale_sel == 0 ? 0 : 1;
  c["fmt"]["scale_idx"] = scale_sel == 1 ? 5 : 0;
  c["vals"]["kind"] = kind;
  c["vals"]["neg"] = (idx / 7) % 2 == 0;
  c["vals"]["exp"] = int(idx % N_EXPONENTS);
  c["vals"]["seed"] = 1000 + idx;
  return true;
}

} // namespace

const Property&
the_property()
{
  static Property p;
  p.id = "C10";
  p.gen = gen;
  p.check = check;
  p.nontrivial = nontrivial;
  p.fixed_cases = fixed_cases;
  p.enumerate = enumerate;
  p.known_signature = known_signature;
  return p;
}

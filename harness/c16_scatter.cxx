// C16 — single-scatter simulation: symmetric, linear, cache independent, history independent.
//
// A case = pools of templates / energy windows / activity images / attenuation images and a history of
// setter / set_up / process_data events on ONE SingleScatterSimulation object ("H").  After every
// process_data the output is compared with a FRESHLY constructed object that is given the settings that are
// current at that moment (model "M" kept by the interpreter); on the outputs: exchange symmetry over all
// detector pairs, non-negativity; at the end of the history: cache on == cache off, linearity in the
// activity image, zero activity -> exactly zero.
//
// Exchange clause: a detector pair and the exchanged pair are the same LOR and the same bin (C01), so the exchange is made
// in the protected per-pair function actual_scatter_estimate(result, A, B) (harness-side subclass `Sim`), for the pair that
// find_detectors reports for every bin; the stored bin value must equal estimate(A,B).
//
// ENTRY POINTS (third session: entry-point audit).  The history alphabet contains every public setter / entry point of
// ScatterSimulation and SingleScatterSimulation that changes what process_data computes or where it stores it:
//   set_activity_image_sptr / set_activity_image(filename), set_density_image_sptr / set_density_image(filename),
//   set_density_image_for_scatter_points_sptr / set_density_image_for_scatter_points(filename),
//   downsample_density_image_for_scatter_points(explicit arguments) on H itself, set_image_downsample_factors,
//   set_attenuation_threshold, set_template_proj_data_info(ProjDataInfo) / (filename) (+ downsample_scanner(r,d) or
//   set_num_downsample_scanner_rings/dets + downsample_scanner()), set_exam_info / set_exam_info_sptr,
//   set_use_cache / set_cache_enabled, downsample_images_to_scanner_size, set_up, process_data with the output given by
//   set_output_proj_data_sptr(sptr) / set_output_proj_data(filename or "") / set_output_proj_data_sptr(exam, info, filename)
//   or created by the class (downsample_scanner, parsing), the protected per-bin function scatter_estimate(bin) in a
//   generated ORDER (subclass), and the parsing route (H constructed by SingleScatterSimulation(parameter file)).
//   At the end one further object is configured through set_downsample_scanner_bool / set_num_downsample_scanner_* (or
//   the corresponding keywords) so that set_up() itself down-samples the scanner (set_up may be called only once on such an
//   object: "set_up() called twice. This is currently not supported.").
//   Oracle for all of them: after set_up the result equals that of a freshly configured simulation (configured through
//   the *_sptr setters, which the first two sessions checked) in the same or the OTHER cache mode.
//   Files are written by the harness (VERIF_TMP) and the model uses what the harness itself reads back from them.
//   Not in the alphabet: ask_parameters() (interactive), set_randomly_place_scatter_points(true) (rand() seeded with time()).
//
// Known findings (probes in known/C16/): known_signature() classifies a history on the JSON alone and such a case is
// rejected before it runs; the GENERATOR rewrites its histories so that they stay outside these classes (explicit
// scatter-point image before the set_up) and the search goes on behind them.  VERIF_NO_EXCLUDE=1 (or a list such as
// "F4,F7") switches classification and rewriting off.
//   F4 repeated automatic scatter-point down-sampling (the derived zoom factors overwrite the settings; derived image kept
//      by set_template_proj_data_info)
//   F5 a DERIVED scatter-point image is kept by downsample_images_to_scanner_size although the attenuation image changed
//   F6 a DERIVED scatter-point image is kept by set_image_downsample_factors although the factors changed
//      (F5, F6: same root cause as F4: the class does not know whether its scatter-point image is derived)
//   F7 set_attenuation_threshold after the scatter points were sampled: set_up does not re-sample them.  The threshold is not in
//      the list of the property sentence (activity image, attenuation image, scatter-point image, template, energy settings):
//      outside the property, so it is not a finding; the generator keeps rewriting around it (the threshold is set before
//      the scatter points are sampled) and counts it.
// Repaired in /repo and part of the normal search again (regression inputs replays/C16/fixed_*.json): F1 stale 511 keV
// efficiency after an energy-window change, F3 NaN from the automatic scatter-point image of single-ring scanners.
// F2 (debug self check of set_up that reads 0 < 0 for single-ring templates) was no violation of the property: see set_up_obj().
//
// Preconditions taken from the code (ScatterSimulation.cxx unless said otherwise):
//  * set_up(): error() unless template, exam info (with energy window, ExamInfo::has_energy_information:
//    both thresholds > 0), scanner energy resolution + reference energy (> 0), activity and attenuation image are set.
//  * set_template_proj_data_info(): "Can only handle non-arccorrected data"; the simulation looks up ONE detector
//    pair per bin (find_detectors), so templates are span 1, no view mashing (DESIGN C16), non-TOF.
//  * check_z_to_middle_consistent(): (min_z+max_z)*voxel_size_z/2 of attenuation / scatter-point image must agree
//    with the activity image within 0.1 mm -> all images of a case share (nz-1)*vz.
//  * downsample_density_image_for_scatter_points(): error() if zoom_z>0 and |(new_z-1)/(old_z-1) - zoom_z| > .1;
//    with a negative zoom the template must be set (it is dereferenced).  new_z >= 2 (new_z==1 gives zoom_z 0);
//    old_z >= 2 (zoom_z = (new_z-1)/(old_z-1)).
//  * set_image_downsample_factors(): error() for negative factors.
//  * process_data(): needs set_up() and an output ProjData with the template's ProjDataInfo.
//  * randomly_place_scatter_points=false (otherwise rand() seeded with time()).
#include "stir_gen.h"
#include "stir/scatter/SingleScatterSimulation.h"
#include "stir/ProjDataInMemory.h"
#include "stir/ProjDataInterfile.h"
#include "stir/ProjDataInfoCylindricalNoArcCorr.h"
#include "stir/ProjDataInfoBlocksOnCylindricalNoArcCorr.h"
#include "stir/DetectionPosition.h"
#include "stir/ExamInfo.h"
#include "stir/SegmentBySinogram.h"
#include "stir/Bin.h"
#include "stir/zoom.h"
#include "stir/ZoomOptions.h"
#include "stir/IO/write_to_file.h"
#include "stir/IO/read_from_file.h"
#include <map>
#include <tuple>
#include <cstdlib>
#include <fstream>
#include <sstream>
#include <iomanip>
#include <filesystem>
#include <unistd.h>

using namespace vf;
using namespace stir;

namespace {

const double TOL_FRESH = 1e-5; // history object vs fresh object (same arithmetic)
const double TOL_SYM = 1e-5;   // out[bin(A,B)] vs out[bin(B,A)]
const double TOL_LIN = 1e-4;   // linearity
const double TOL_CACHE = 1e-5; // cache on vs off
// fifth session (blocks geometries, per-pair clauses)
const double TOL_SYM_PAIR = 1e-6;  // |est(A,B) - est(B,A)| relative to max(|est(A,B)|, |est(B,A)|) of THAT pair (observed <= 1e-12)
const double TOL_EFF_SYM = 1e-6;   // detection_efficiency_no_scatter(A,B) vs (B,A), relative (observed 0)
const double TOL_EFF_REF = 5e-5;   // detection_efficiency_no_scatter(A,B) vs the harness' own formula, relative (float cosines; observed <= 1.4e-6 over 5 seeds)
const double TOL_COORD = 1e-4;     // detection point of the simulation vs crystal position of the template, relative to the ring radius
const double MIN_FRONT_COS = 0.02; // generator: every LOR of a blocks template enters both crystals from the front (see front_entry_ok)

//! the exclusions of the known findings are on by default;
//! VERIF_NO_EXCLUDE=1 (or "all", or a list containing the id) switches them off
bool
no_exclude(const char* id)
{
  static const char* e = std::getenv("VERIF_NO_EXCLUDE");
  if (!e)
    return false;
  const std::string v(e);
  if (v == "1" || v == "all" || v.empty())
    return true;
  return v.find(id) != std::string::npos;
}

enum Op
{
  SET_ACT = 0,
  SET_ATT = 1,
  SET_SP = 2,
  SET_TMPL = 3,
  SET_EXAM = 4,
  SET_CACHE = 5,
  SET_UP = 6,
  PROCESS = 7,
  // third session (codes 0..7 keep their meaning: saved replays use only those)
  SET_THR = 8,            // set_attenuation_threshold
  SET_ZOOM = 9,           // set_image_downsample_factors
  DOWNSAMPLE_IMAGES = 10, // downsample_images_to_scanner_size
  DOWNSAMPLE_SP = 11,     // downsample_density_image_for_scatter_points(explicit arguments) on H
  SET_CACHE_ENABLED = 12, // set_cache_enabled
  SET_EXAM_SPTR = 13,     // set_exam_info_sptr
  SET_ACT_FILE = 14,      // set_activity_image(filename)
  SET_ATT_FILE = 15,      // set_density_image(filename)
  SET_SP_FILE = 16,       // set_density_image_for_scatter_points(filename)
  SET_TMPL_FILE = 17,     // set_template_proj_data_info(filename)  (sets the exam info as well)
  EVAL_BINS = 18,         // scatter_estimate(bin) for a generated permutation / subset of the bins
  N_OPS = 19
};

bool
is_setter(int code)
{
  return code != SET_UP && code != PROCESS && code != EVAL_BINS;
}

//! access to the per-detector-pair and per-bin functions (protected in STIR); behaviour unchanged
struct Sim : SingleScatterSimulation
{
  Sim() {}
  explicit Sim(const std::string& parameter_filename)
      : SingleScatterSimulation(parameter_filename)
  {}
  using SingleScatterSimulation::actual_scatter_estimate;
  using SingleScatterSimulation::find_detectors;
  using SingleScatterSimulation::scatter_estimate;
  using SingleScatterSimulation::detection_efficiency_no_scatter;
  //! the detection point the simulation stores for a detector number reported by find_detectors
  const CartesianCoordinate3D<float>& det_point(unsigned k) const { return this->detection_points_vector.at(k); }
  //! number of scatter points (after set_up) that lie outside the detector ring: sqrt(x^2+y^2) > inner extent of the detectors.
  //! For such a point p and a detector d "behind" it (p.d > |d|^2) the factor cos_incident_angle of
  //! simulate_for_one_scatter_point, the cosine between (p - d) and the direction from d to the ring centre (0,-d.y,-d.x), is
  //! negative: its sign is that of |d_xy|^2 - p_xy.d_xy >= |d_xy| (|d_xy| - |p_xy|), so it is >= 0 for EVERY detector exactly
  //! when |p_xy| <= min over the detectors of |d_xy| (see inner_detector_radius()).
  long scatter_points_outside_ring() const
  {
    const double R = inner_detector_radius(*this->get_template_proj_data_info_sptr());
    long n = 0;
    for (const auto& sp : this->scatt_points_vector)
      if (std::hypot(double(sp.coord.x()), double(sp.coord.y())) > R)
        ++n;
    return n;
  }
  //! the geometry's own inner extent: the smallest transaxial distance of a crystal from the scanner axis.
  //! Cylindrical: the effective ring radius (every detector is at that distance).  BlocksOnCylindrical: the crystals of a
  //! bucket lie on a plane whose CENTRE is at the effective ring radius (GeometryBlocksOnCylindrical::build_crystal_maps:
  //! start_y = -get_effective_ring_radius(), crystals at transaxial offsets t symmetric about 0, then a rotation), i.e. at
  //! sqrt(R_eff^2 + t^2) >= R_eff: the minimum over the crystal map is taken (R_eff for an odd number of crystals per
  //! bucket, sqrt(R_eff^2 + (pitch/2)^2) for an even number).  Taken from the scanner's detector map, not from the simulation.
  static double inner_detector_radius(const ProjDataInfo& pdi)
  {
    const Scanner& sc = *pdi.get_scanner_ptr();
    if (!dynamic_cast<const ProjDataInfoBlocksOnCylindricalNoArcCorr*>(&pdi))
      return sc.get_effective_ring_radius();
    double r = 1e30;
    for (int t = 0; t < sc.get_num_detectors_per_ring(); ++t)
      {
        const CartesianCoordinate3D<float> d = sc.get_coordinate_for_det_pos(DetectionPosition<>(unsigned(t), 0U, 0U));
        r = std::min(r, std::hypot(double(d.x()), double(d.y())));
      }
    return r;
  }
};

//! positions of the two crystals of a bin, from the template itself and NOT through the simulation (class documentation of
//! ScatterSimulation: "detector coordinates are derived from ProjDataInfo, but areas and orientations are determined by using
//! a cylindrical scanner").  Blocks: detector pair of the bin (C01) -> crystal map of the scanner (C12); z origin arbitrary.
bool
crystal_positions(const ProjDataInfo& pdi, const Bin& bin, CartesianCoordinate3D<float>& a, CartesianCoordinate3D<float>& b)
{
  if (const auto* p = dynamic_cast<const ProjDataInfoBlocksOnCylindricalNoArcCorr*>(&pdi))
    {
      int d1 = 0, r1 = 0, d2 = 0, r2 = 0;
      p->get_det_pair_for_bin(d1, r1, d2, r2, bin);
      a = pdi.get_scanner_ptr()->get_coordinate_for_det_pos(DetectionPosition<>(unsigned(d1), unsigned(r1), 0U));
      b = pdi.get_scanner_ptr()->get_coordinate_for_det_pos(DetectionPosition<>(unsigned(d2), unsigned(r2), 0U));
      return true;
    }
  if (const auto* p = dynamic_cast<const ProjDataInfoCylindricalNoArcCorr*>(&pdi))
    {
      p->find_cartesian_coordinates_of_detection(a, b, bin);
      return true;
    }
  return false;
}

//! cosine of the angle between the line from crystal `from` to `to` and the direction from `from` to the scanner axis
//! (the orientation model of the class: radial normals, "orientations are determined by using a cylindrical scanner")
double
radial_cos(const CartesianCoordinate3D<float>& from, const CartesianCoordinate3D<float>& to)
{
  const double vx = double(to.x()) - from.x(), vy = double(to.y()) - from.y(), vz = double(to.z()) - from.z();
  const double nx = -double(from.x()), ny = -double(from.y());
  return (vx * nx + vy * ny) / std::sqrt((vx * vx + vy * vy + vz * vz) * (nx * nx + ny * ny));
}

//! Domain of the detection model (generator side, blocks templates only): the unscattered LOR of every bin enters both
//! crystals from the front, i.e. the cosine of its incidence angle against the radial normal is positive at both ends.
//! detection_efficiency_no_scatter divides by cos_incident_angle_A * cos_incident_angle_B: for two crystals of ONE flat bucket
//! (the LOR runs inside the detector plane) one cosine is 0 or negative -> the normalisation is infinite or negative.  On a
//! cylinder the product is > 0 for every pair of distinct detectors.  Such LORs do not cross the field of view and are not in a
//! scatter template; the generator limits the tangential size of a blocks template accordingly (and check_output counts and
//! skips the sign clause if one is met anyway).
bool
front_entry_ok(const ProjDataInfo& pdi, double min_cos)
{
  CartesianCoordinate3D<float> a, b;
  for (int seg = pdi.get_min_segment_num(); seg <= pdi.get_max_segment_num(); ++seg)
    for (int ax = pdi.get_min_axial_pos_num(seg); ax <= pdi.get_max_axial_pos_num(seg); ++ax)
      for (int v = pdi.get_min_view_num(); v <= pdi.get_max_view_num(); ++v)
        for (int t = pdi.get_min_tangential_pos_num(); t <= pdi.get_max_tangential_pos_num(); ++t)
          {
            if (!crystal_positions(pdi, Bin(seg, v, ax, t), a, b))
              return false;
            if (!(radial_cos(a, b) >= min_cos) || !(radial_cos(b, a) >= min_cos))
              return false;
          }
  return true;
}

typedef VoxelsOnCartesianGrid<float> Image;

//! BlocksOnCylindrical templates: VoxelsOnCartesianGrid(ProjDataInfo) (used by set_up's automatic scatter-point image,
//! downsample_density_image_for_scatter_points with a negative zoom and downsample_images_to_scanner_size) asks get_s of the
//! outermost bins, which for blocks data goes through ProjDataInfoGeneric::get_LOR -> find_LOR_intersections_with_cylinder;
//! there psi = from_min_pi_plus_pi_to_0_2pi(float(atan2(x,-y))) is -eps + 2 pi, which rounds to 2 pi in float, and the
//! debug-only self check of PointOnCylinder (assert(_psi < 2 pi), LORCoordinates.h:87) fires.  The value is a valid angle
//! (only sin/cos of it are used), builds with NDEBUG are unaffected and no clause of C16 depends on it (C12's subject):
//! as for the single-ring self check (set_up_obj), exactly these geometry calls run with STIR's internal assertions off for
//! blocks templates and their results are checked by the normal oracles (replays/C16/release_behaviour_blocks_psi_2pi.json).
struct GeomAssertsOff
{
  bool active;
  explicit GeomAssertsOff(bool blocks)
      : active(blocks)
  {
    if (active)
      {
        stir_verif::asserts_on = false;
        stats().count("geometry calls on a blocks template (internal assertions off)");
      }
  }
  ~GeomAssertsOff()
  {
    if (active)
      stir_verif::asserts_on = true;
  }
};
bool
is_blocks(const ProjDataInfo* p)
{
  return p && dynamic_cast<const ProjDataInfoBlocksOnCylindricalNoArcCorr*>(p) != nullptr;
}
typedef std::tuple<int, int, int, int> BinKey; // seg, ax, view, tang
typedef std::map<BinKey, float> Out;

const double THR_VALUES[] = { 0.01, 0.005, 0.03, 0.06, 0.02 };

// ---- temporary files (only under VERIF_TMP; removed at the end of each case) -------------------------
struct TmpDir
{
  std::string dir;
  int counter = 0;
  const std::string& path()
  {
    if (dir.empty())
      {
        static long serial = 0;
        const char* e = std::getenv("VERIF_TMP");
        const std::string base = (e && *e) ? std::string(e) : cat("/tmp/verif_", getpid());
        std::filesystem::create_directories(base);
        dir = cat(base, "/c16_", getpid(), "_", ++serial);
        std::filesystem::create_directories(dir);
      }
    return dir;
  }
  std::string file(const std::string& stem) { return cat(path(), "/", stem, "_", ++counter); }
  ~TmpDir()
  {
    if (!dir.empty())
      {
        std::error_code ec;
        std::filesystem::remove_all(dir, ec);
        if (!(std::getenv("VERIF_TMP") && *std::getenv("VERIF_TMP")))
          std::filesystem::remove(cat("/tmp/verif_", getpid()), ec); // only if empty
      }
  }
};

// ---- construction of the pooled objects ------------------------------------------------------------
shared_ptr<Image>
make_img(const json& j)
{
  const int nx = j["nx"], ny = j["ny"], nz = j["nz"];
  IndexRange3D range(0, nz - 1, -(ny / 2), -(ny / 2) + ny - 1, -(nx / 2), -(nx / 2) + nx - 1);
  shared_ptr<Image> im(new Image(range,
                                 CartesianCoordinate3D<float>(j["oz"].get<float>(), j["oy"].get<float>(), j["ox"].get<float>()),
                                 CartesianCoordinate3D<float>(j["vz"].get<float>(), j["vy"].get<float>(), j["vx"].get<float>())));
  SplitMix g(j["seed"].get<uint64_t>());
  const double lo = j["lo"], hi = j["hi"], p_low = j["p_low"], low_hi = j["low_hi"];
  for (auto it = im->begin_all(); it != im->end_all(); ++it)
    {
      const bool low = g.unit() < p_low;
      const double u = g.unit();
      *it = float(low ? low_hi * u : lo + (hi - lo) * u);
    }
  return im;
}

struct Tmpl
{
  shared_ptr<ProjDataInfo> pdi; // what is passed to set_template_proj_data_info
  bool down = false;
  int new_rings = 0, new_dets = 0;
  bool blocks = false; // BlocksOnCylindrical scanner
  int big_dets = 0;    // detectors per ring of the scanner as given
};

Tmpl
make_tmpl(const json& j)
{
  Tmpl t;
  shared_ptr<Scanner> sc = vg::make_scanner(j["scanner"]);
  sc->set_energy_resolution(j["eres"].get<float>());
  sc->set_reference_energy(j["eref"].get<float>());
  // the setters invalidate the crystal map of a BlocksOnCylindrical scanner ("Scanner: you forgot to call set_up()")
  if (sc->get_scanner_geometry() == "BlocksOnCylindrical")
    sc->set_up();
  t.pdi = vg::make_pdi(sc, j["pdi"]);
  t.down = j["kind"].get<std::string>() == "down";
  t.blocks = sc->get_scanner_geometry() == "BlocksOnCylindrical";
  t.big_dets = sc->get_num_detectors_per_ring();
  if (t.down)
    {
      t.new_rings = j["new_rings"];
      t.new_dets = j["new_dets"];
    }
  return t;
}

//! number of rings of the template the simulation works with (after downsample_scanner)
int
tmpl_rings(const json& t)
{
  return t["kind"] == "down" ? t["new_rings"].get<int>() : t["scanner"]["rings"].get<int>();
}

//! set_template_proj_data_info(ProjDataInfo) (+ downsample_scanner).  via_settings: the numbers of rings/detectors are
//! given by set_num_downsample_scanner_rings/dets and downsample_scanner() is called with its defaults
//! (downsample_scanner: "if (downsample_scanner_rings > 1) new_num_rings = downsample_scanner_rings", so only for >= 2 rings).
//! BlocksOnCylindrical: downsample_scanner() ignores set_num_downsample_scanner_dets ("by default, do not downsample the
//! detectors per ring for BlocksOnCylindrical": new_num_dets = get_num_detectors_per_ring()), so the defaults route is the
//! same request only when the template asks for the number of detectors the scanner already has.
bool
defaults_route_possible(const Tmpl& t)
{
  return t.down && t.new_rings >= 2 && (!t.blocks || t.new_dets == t.big_dets);
}

void
apply_down(SingleScatterSimulation& s, const Tmpl& t, bool via_settings)
{
  if (!t.down)
    return;
  Succeeded ok = Succeeded::yes;
  if (via_settings && defaults_route_possible(t))
    {
      s.set_num_downsample_scanner_rings(t.new_rings);
      s.set_num_downsample_scanner_dets(t.new_dets);
      ok = s.downsample_scanner();
      stats().count("downsample_scanner() with defaults from set_num_downsample_scanner_*");
    }
  else
    ok = s.downsample_scanner(t.new_rings, t.new_dets);
  if (ok != Succeeded::yes)
    error("downsample_scanner returned Succeeded::no");
}

void
apply_tmpl(SingleScatterSimulation& s, const Tmpl& t, bool via_settings = false)
{
  s.set_template_proj_data_info(*t.pdi);
  apply_down(s, t, via_settings);
}

shared_ptr<ExamInfo>
make_exam(const json& j)
{
  shared_ptr<ExamInfo> e(new ExamInfo);
  e->imaging_modality = ImagingModality::PT;
  e->set_low_energy_thres(j["low"].get<float>());
  e->set_high_energy_thres(j["high"].get<float>());
  return e;
}

// recipe for an explicit scatter-point image: attenuation image index + zoom parameters
struct SpRecipe
{
  int att = -1;
  float zxy = 1, zz = 1;
  int sxy = -1, sz = -1;
  int tmpl = -1; // only needed when zz<0
};

struct Pools
{
  std::vector<Tmpl> tmpls;
  std::vector<shared_ptr<ExamInfo>> exams;
  std::vector<shared_ptr<Image>> acts, atts;
};

//! interpret the arguments of SET_SP modulo the state (always a valid call of downsample_density_image_for_scatter_points)
SpRecipe
decode_sp(const Pools& P, int a, int b, int c, int d, int cur_tmpl)
{
  SpRecipe r;
  r.att = a % int(P.atts.size());
  const int old_z = P.atts[r.att]->get_z_size();
  const int new_z = 2 + b % (old_z + 1); // 2 .. old_z+2
  r.zxy = 0.3F + 0.1F * float(d % 10);
  const int sv = (d / 10) % 4;
  r.sxy = sv < 2 ? -1 : (sv == 2 ? 3 : 5);
  const float adjusted = static_cast<float>(new_z - 1) / (old_z - 1); // what STIR will use in the end
  int variant = c % 3;
  if (variant == 0 && cur_tmpl < 0)
    variant = 1; // a negative zoom needs the template
  if (variant == 2)
    {
      // zoom_z given, size derived: new_z' = int(old_z*zoom_z+1); must reproduce new_z and stay within .1 of the adjusted zoom
      const float zz = (float(new_z) - 0.5F) / float(old_z);
      const int nz2 = static_cast<int>(old_z * zz + 1);
      const float adj2 = static_cast<float>(nz2 - 1) / (old_z - 1);
      if (nz2 >= 2 && std::fabs(adj2 - zz) < 0.08F)
        {
          r.zz = zz;
          r.sz = -1;
          return r;
        }
      variant = 1;
    }
  if (variant == 0)
    {
      r.zz = -1.F;
      r.sz = new_z;
      r.tmpl = cur_tmpl;
    }
  else
    {
      // slightly perturbed zoom with explicit size (tolerated up to .1 by STIR)
      r.zz = adjusted + 0.01F * float((c / 3) % 5);
      r.sz = new_z;
    }
  return r;
}

shared_ptr<const DiscretisedDensity<3, float>>
make_sp(const Pools& P, const SpRecipe& r)
{
  SingleScatterSimulation h;
  h.set_randomly_place_scatter_points(false);
  if (r.tmpl >= 0)
    apply_tmpl(h, P.tmpls[r.tmpl]);
  h.set_density_image_sptr(P.atts[r.att]);
  {
    GeomAssertsOff off(r.tmpl >= 0 && P.tmpls[r.tmpl].blocks);
    h.downsample_density_image_for_scatter_points(r.zxy, r.zz, r.sxy, r.sz);
  }
  // deep copy: the helper object dies
  shared_ptr<const DiscretisedDensity<3, float>> img(h.get_density_image_for_scatter_points_sptr()->clone());
  return img;
}

// ---- zoom settings ------------------------------------------------------------------------------------
//! the arguments of set_image_downsample_factors (expl == false: never called, the defaults -1 are in force)
struct Zoom
{
  bool expl = false;
  float zxy = -1, zz = -1;
  int sxy = -1, sz = -1;
  int nz_ref = 0; // number of attenuation planes for which zz == (sz-1)/(nz_ref-1) exactly
  bool operator==(const Zoom& o) const { return expl == o.expl && zxy == o.zxy && zz == o.zz && sxy == o.sxy && sz == o.sz; }
};

//! factors that are a fixed point of downsample_density_image_for_scatter_points for an attenuation image of nz planes:
//! explicit size new_z and zoom_z = (new_z-1)/(nz-1), which is what the function stores ("adjust zoom_z to cope with ugly
//! shift to middle of scanner problem")
Zoom
exact_zoom(int zxy_code, int new_z, int sxy_code, int nz)
{
  Zoom z;
  z.expl = true;
  z.zxy = 0.3F + 0.1F * float(zxy_code % 10);
  z.zz = static_cast<float>(new_z - 1) / (nz - 1);
  const int sv = sxy_code % 4;
  z.sxy = sv < 2 ? -1 : (sv == 2 ? 3 : 5);
  z.sz = new_z;
  z.nz_ref = nz;
  return z;
}

Zoom
initial_zoom(const json& c)
{
  Zoom z;
  if (!c["auto_zoom"].is_object())
    return z;
  // explicit factors for the automatic down-sampling in set_up: exact for the (shared) number of attenuation planes
  const json& j = c["auto_zoom"];
  const int old_z = c["atts"][0]["nz"].get<int>();
  const int new_z = 2 + j["new_z"].get<int>() % old_z; // 2..old_z+1
  z.expl = true;
  z.zxy = j["zxy"].get<float>();
  z.zz = static_cast<float>(new_z - 1) / (old_z - 1);
  z.sxy = j["sxy"].get<int>();
  z.sz = new_z;
  z.nz_ref = old_z;
  return z;
}

//! SET_ZOOM event: factors exact for nz planes
Zoom
decode_zoom(int a, int b, int c, int nz)
{
  return exact_zoom(a, 2 + b % nz, c, nz); // new_z 2..nz+1
}
//! DOWNSAMPLE_SP event on an attenuation image of nz planes
Zoom
decode_dsp(int b, int d, int nz)
{
  return exact_zoom(d, 2 + b % (nz + 1), d / 10, nz); // new_z 2..nz+2
}

// ---- the plan: interpretation of a history on the JSON alone -------------------------------------------
// One interpreter decides, for check(), known_signature(), the generator and nontrivial() alike, which events are
// effective (arguments modulo the pools; events on an incomplete configuration are skipped), where set_up is called
// (before a process_data / per-bin evaluation that follows a setter, and at the end of a history that ends with a setter)
// and which set_up runs into a known finding.  For the latter it keeps what is known about the HIDDEN state of the
// history object from reading ScatterSimulation.cxx:
//  * the scatter-point image is absent / explicit / DERIVED by set_up (downsample_density_image_for_scatter_points with
//    the stored factors); set_density_image_sptr resets it; nothing else does;
//  * sample_scatter_points() runs when a scatter-point image is set or derived, with the threshold of that moment;
//  * a derivation stores the factors it derived in the zoom settings (F4).
enum Finding
{
  NONE = 0,
  F4,
  F5,
  F6,
  F7,
  N_FINDINGS
};
const char* const finding_id[] = { "", "F4", "F5", "F6", "F7" };
const char* const finding_signature[] = { "",
                                          "C16:auto-zoom-overwritten:second-automatic-downsample",
                                          "C16:derived-scatter-point-image-kept:downsample_images_to_scanner_size",
                                          "C16:derived-scatter-point-image-kept:set_image_downsample_factors",
                                          "C16:stale-scatter-points:set_attenuation_threshold-after-sampling" };

//! set to true when the repair of F7 (set_attenuation_threshold re-samples the scatter points) is committed in /repo:
//! the class is then part of the normal search (and known/C16/threshold_after_scatter_points_sampled.json moves to
//! replays/C16/fixed_threshold_after_scatter_points_sampled.json)
const bool F7_REPAIRED = false;

struct Step
{
  int code = 0, a = 0, b = 0, c = 0, d = 0;
  std::size_t index = 0;      // index of the event (== ops.size(): the set_up at the end of the history)
  bool effective = false;     // false: skipped (incomplete configuration / precondition of the call not met)
  bool set_up_before = false; // set_up is called first (SET_UP: this is all that happens)
  Finding finding = NONE;     // that set_up runs into this known finding (never set when the exclusion is lifted)
  int nz = 0;                 // SET_ZOOM / DOWNSAMPLE_SP: number of planes the factors are exact for
  int tmpl = -1, att = -1;    // pool indices current at this step (att: last pool image set)
  bool complete = false;      // configuration complete at this step
};

struct Plan
{
  std::vector<Step> steps;
  Finding first = NONE;
  std::size_t first_step = 0; // index into steps
  bool att_downsampled_at_first = false; // and it has >= 2 planes (DOWNSAMPLE_SP is possible)
};

Plan
make_plan(const json& c)
{
  Plan plan;
  const json& ops = c["ops"];
  const int nt = int(c["templates"].size()), ne = int(c["exams"].size()), na = int(c["acts"].size()), nm = int(c["atts"].size());
  if (nt == 0 || ne == 0 || na == 0 || nm == 0)
    return plan;
  const int pool_nz = c["atts"][0]["nz"].get<int>();
  // visible settings
  int tmpl = -1, att_pool = -1;
  bool tmpl_file = false, have_exam = false, have_act = false, have_att = false;
  bool dirty = true, use_cache = true;
  double thr = c["thr"].get<double>();
  Zoom zoom = initial_zoom(c);
  // attenuation image: identity, planes, grid key
  long att_id = 0;
  int att_nz = 0;
  std::string att_grid;
  bool att_downsampled = false;
  // hidden state
  enum
  {
    SP_NONE,
    SP_EXPLICIT,
    SP_DERIVED
  } sp
      = SP_NONE;
  double sampled_thr = thr;
  bool zoom_clean = true; // the stored settings are what the user set
  std::string ovw_grid;
  int ovw_tmplkey = -1;
  long der_att_id = -1;
  Zoom der_zoom;
  int der_tmplkey = -1;

  auto tmplkey = [&]() { return tmpl * 2 + (tmpl_file ? 1 : 0); };
  auto pool_grid = [&](int i, bool file) {
    const json& g = c["atts"][std::size_t(i)];
    return cat(file ? "f" : "p", ":", g["nx"].dump(), ",", g["ny"].dump(), ",", g["nz"].dump(), ",", g["vx"].dump(), ",", g["vy"].dump(), ",",
               g["vz"].dump());
  };
  auto complete = [&]() { return tmpl >= 0 && have_exam && have_act && have_att; };
  auto hit = [&](Finding f) { return f != NONE && !no_exclude(finding_id[f]); };

  // returns the known finding this set_up runs into (NONE: none, or lifted) and updates the hidden state
  auto set_up_point = [&]() -> Finding {
    Finding f = NONE;
    const bool had_image = sp != SP_NONE;
    if (sp == SP_DERIVED)
      {
        if (der_att_id != att_id)
          f = F5;
        else if (!(der_zoom == zoom))
          f = F6;
        else if (!zoom.expl && der_tmplkey != tmplkey())
          f = F4;
      }
    else if (sp == SP_NONE)
      {
        if (!zoom_clean && !(ovw_tmplkey == tmplkey() && ovw_grid == att_grid))
          f = F4;
      }
    if (hit(f))
      return f;
    if (!F7_REPAIRED && had_image && sampled_thr != thr && hit(F7))
      return F7;
    if (sp == SP_NONE)
      {
        sp = SP_DERIVED;
        der_att_id = att_id;
        der_zoom = zoom;
        der_tmplkey = tmplkey();
        sampled_thr = thr;
        if (!zoom.expl || zoom.nz_ref != att_nz)
          {
            zoom_clean = false;
            ovw_tmplkey = tmplkey();
            ovw_grid = att_grid;
          }
      }
    dirty = false;
    return NONE;
  };

  auto set_pool_att = [&](int i, bool file) {
    att_pool = i;
    have_att = true;
    ++att_id;
    att_nz = c["atts"][std::size_t(i)]["nz"].get<int>();
    att_grid = pool_grid(i, file);
    att_downsampled = false;
    sp = SP_NONE; // set_density_image_sptr: "make sure that we're not re-using a previously interpolated image for scatter points"
    dirty = true;
  };

  if (c.contains("start") && c["start"].is_object())
    {
      // H is constructed from a parameter file: complete configuration
      const json& st = c["start"];
      tmpl = st["tmpl"].get<int>() % nt;
      tmpl_file = true;
      have_exam = true;
      have_act = true;
      set_pool_att(st["att"].get<int>() % nm, true);
      if (st["sp"].is_array())
        {
          sp = SP_EXPLICIT;
          sampled_thr = thr;
        }
      use_cache = st["cache"].get<bool>();
    }

  auto finish = [&](Step& s, std::size_t k) {
    if (s.finding != NONE && plan.first == NONE)
      {
        plan.first = s.finding;
        plan.first_step = k;
        plan.att_downsampled_at_first = att_downsampled && att_nz >= 2;
      }
  };

  for (std::size_t i = 0; i < ops.size(); ++i)
    {
      Step s;
      s.index = i;
      s.code = ops[i][0].get<int>() % N_OPS;
      s.a = ops[i][1];
      s.b = ops[i][2];
      s.c = ops[i][3];
      s.d = ops[i][4];
      s.effective = true;
      switch (s.code)
        {
        case SET_ACT:
        case SET_ACT_FILE:
          have_act = true;
          dirty = true;
          break;
        case SET_ATT: set_pool_att(s.a % nm, false); break;
        case SET_ATT_FILE: set_pool_att(s.a % nm, true); break;
        case SET_SP:
        case SET_SP_FILE:
          sp = SP_EXPLICIT;
          sampled_thr = thr;
          dirty = true;
          break;
        case SET_TMPL:
          tmpl = s.a % nt;
          tmpl_file = false;
          dirty = true;
          break;
        case SET_TMPL_FILE:
          tmpl = s.a % nt;
          tmpl_file = true;
          have_exam = true;
          dirty = true;
          break;
        case SET_EXAM:
        case SET_EXAM_SPTR:
          have_exam = true;
          dirty = true;
          break;
        case SET_CACHE:
        case SET_CACHE_ENABLED:
          // the property speaks about changes "followed by set-up"; neither function invalidates the set-up itself
          if (use_cache != bool(s.a & 1))
            dirty = true;
          use_cache = bool(s.a & 1);
          break;
        case SET_THR:
          thr = THR_VALUES[s.a % 5];
          dirty = true;
          break;
        case SET_ZOOM:
          s.nz = (have_att && att_nz >= 2) ? att_nz : pool_nz;
          zoom = decode_zoom(s.a, s.b, s.c, s.nz);
          zoom_clean = true; // all four settings are overwritten
          dirty = true;
          break;
        case DOWNSAMPLE_IMAGES:
          // "if (is_null_ptr(proj_data_info_sptr)) return Succeeded::no"
          if (tmpl < 0)
            {
              s.effective = false;
              break;
            }
          if (have_att)
            {
              ++att_id;
              att_nz = 2 * tmpl_rings(c["templates"][std::size_t(tmpl)]) - 1; // VoxelsOnCartesianGrid(ProjDataInfo)
              att_grid = cat("T", tmplkey());
              att_downsampled = true;
            }
          if (have_att || have_act)
            dirty = true;
          break;
        case DOWNSAMPLE_SP:
          // "downsampling function called before attenuation image is set"; zoom_z = (new_z-1)/(old_z-1) needs old_z >= 2
          if (!have_att || att_nz < 2)
            {
              s.effective = false;
              break;
            }
          s.nz = att_nz;
          zoom = decode_dsp(s.b, s.d, s.nz); // the function stores its arguments with set_image_downsample_factors
          zoom_clean = true;
          sp = SP_EXPLICIT;
          sampled_thr = thr;
          dirty = true;
          break;
        case SET_UP:
        case PROCESS:
        case EVAL_BINS:
          if (!complete())
            {
              s.effective = false;
              break;
            }
          if (s.code == SET_UP || dirty)
            {
              s.set_up_before = true;
              s.finding = set_up_point();
            }
          break;
        default: break;
        }
      s.tmpl = tmpl;
      s.att = att_pool;
      s.complete = complete();
      plan.steps.push_back(s);
      finish(plan.steps.back(), plan.steps.size() - 1);
      if (plan.steps.back().finding != NONE)
        return plan; // nothing behind a known finding is planned
    }
  if (complete() && dirty)
    {
      Step s;
      s.index = ops.size();
      s.code = SET_UP;
      s.effective = true;
      s.set_up_before = true;
      s.finding = set_up_point();
      s.tmpl = tmpl;
      s.att = att_pool;
      s.complete = true;
      plan.steps.push_back(s);
      finish(plan.steps.back(), plan.steps.size() - 1);
    }
  return plan;
}

std::string
known_signature(const json& c)
{
  return finding_signature[make_plan(c).first];
}

//! generator side: rewrite the history so that it stays outside the known findings (the search goes on behind them):
//! give an explicit scatter-point image before the set_up (set_density_image_for_scatter_points_sptr, or, when the
//! attenuation image is a down-sampled one, downsample_density_image_for_scatter_points on the object itself, which
//! keeps the images consistent in z)
void
avoid_known_findings(json& c, Src& s)
{
  for (int guard = 0; guard < 200; ++guard)
    {
      const Plan p = make_plan(c);
      if (p.first == NONE)
        return;
      const Step& st = p.steps[p.first_step];
      json op;
      if (p.att_downsampled_at_first)
        op = { int(DOWNSAMPLE_SP), 0, int(s.range(0, 999)), 0, int(s.range(0, 999)) };
      else
        op = { int(SET_SP), std::max(st.att, 0), int(s.range(0, 999)), 1 + 3 * int(s.range(0, 4)), int(s.range(0, 999)) };
      stats().count(std::string("generator avoided known finding ") + finding_id[p.first]);
      json& ops = c["ops"];
      ops.insert(ops.begin() + std::ptrdiff_t(std::min(st.index, ops.size())), op);
    }
}

// ---- model of the current settings -------------------------------------------------------------------
struct Model
{
  int tmpl = -1; // pool index (statistics / recipes)
  bool tmpl_file = false;
  Tmpl t;                                                // template as passed to set_template_proj_data_info (+ down-sampling request)
  shared_ptr<const ProjDataInfo> eff_pdi;                // the template the simulation works with (after downsample_scanner)
  shared_ptr<ExamInfo> exam;
  shared_ptr<const Image> act, att;                      // the images as the object has them now
  bool sp_set = false;                                   // explicit scatter-point image
  shared_ptr<const DiscretisedDensity<3, float>> sp_img; // that image
  bool use_cache = true;
  bool dirty = true;
  double thr = 0.01;
  Zoom zoom;
  long version = 0; // incremented by every event that may change the output
  bool complete() const { return t.pdi && exam && act && att; }
};

shared_ptr<ProjDataInMemory>
new_output(const SingleScatterSimulation& s)
{
  shared_ptr<ProjDataInMemory> out(
      new ProjDataInMemory(s.get_exam_info_sptr(), s.get_template_proj_data_info_sptr()->create_shared_clone()));
  out->fill(-1.F); // every bin must be written
  return out;
}

Out
read_out(const ProjData& pd)
{
  Out o;
  for (int s = pd.get_min_segment_num(); s <= pd.get_max_segment_num(); ++s)
    {
      const SegmentBySinogram<float> seg = pd.get_segment_by_sinogram(s);
      for (int a = seg.get_min_axial_pos_num(); a <= seg.get_max_axial_pos_num(); ++a)
        for (int v = seg.get_min_view_num(); v <= seg.get_max_view_num(); ++v)
          for (int t = seg.get_min_tangential_pos_num(); t <= seg.get_max_tangential_pos_num(); ++t)
            o[BinKey(s, a, v, t)] = seg[a][v][t];
    }
  return o;
}

double
max_abs(const Out& o)
{
  double m = 0;
  for (auto& kv : o)
    m = std::max(m, double(std::fabs(kv.second)));
  return m;
}

//! fresh object configured from the model through the *_sptr setters
struct Fresh
{
  shared_ptr<Sim> s;
  shared_ptr<ProjDataInMemory> out;
};

void
init_obj(SingleScatterSimulation& s, const Model& M)
{
  s.set_attenuation_threshold(float(M.thr));
  s.set_randomly_place_scatter_points(false);
  if (M.zoom.expl)
    s.set_image_downsample_factors(M.zoom.zxy, M.zoom.zz, M.zoom.sxy, M.zoom.sz);
}

Fresh
configure_fresh(const Model& M, bool use_cache, shared_ptr<const DiscretisedDensity<3, float>> act, bool with_template = true)
{
  Fresh f;
  f.s.reset(new Sim);
  init_obj(*f.s, M);
  f.s->set_use_cache(use_cache);
  f.s->set_exam_info(*M.exam);
  if (with_template)
    apply_tmpl(*f.s, M.t);
  f.s->set_activity_image_sptr(act);
  f.s->set_density_image_sptr(M.att);
  if (M.sp_set)
    f.s->set_density_image_for_scatter_points_sptr(M.sp_img);
  return f;
}

//! set_up().  For a single-ring template ScatterSimulation::set_up's debug-only self check of the axial coordinate convention,
//! assert(fabs(m_last + m_first) < m_last * 10E-4), reads 0 < 0 (get_m of the only ring is 0): the assertion says nothing
//! about such a template, builds with NDEBUG are not affected and no clause of the property depends on it.  The property is
//! therefore decided on what set_up does without its internal assertions for these templates (outputs are still compared
//! with the fresh object, checked for finite / non-negative values etc.; process_data runs with assertions on).
Succeeded
set_up_obj(SingleScatterSimulation& s)
{
  const bool single_ring = s.has_template_proj_data_info() && s.get_template_proj_data_info_sptr()->get_scanner_ptr()->get_num_rings() == 1;
  if (!single_ring)
    {
      GeomAssertsOff off(s.has_template_proj_data_info() && is_blocks(s.get_template_proj_data_info_sptr().get()));
      return s.set_up();
    }
  stats().count("set_up with a single-ring template (internal assertions off)");
  struct AssertsOff
  {
    AssertsOff() { stir_verif::asserts_on = false; }
    ~AssertsOff() { stir_verif::asserts_on = true; }
  } off;
  return s.set_up();
}

Result
run(SingleScatterSimulation& s, shared_ptr<ProjDataInMemory>& out_pd, Out& out, const char* who)
{
  out_pd = new_output(s);
  s.set_output_proj_data_sptr(out_pd);
  const Succeeded ok = s.process_data();
  VF_CHECK(ok == Succeeded::yes, who, ": process_data returned Succeeded::no");
  out = read_out(*out_pd);
  return Result::pass();
}

//! max |a-b| relative to scale; keys must agree
Result
compare(const Out& got, const Out& ref, double scale, double tol, const std::string& what, const char* stat)
{
  VF_CHECK(got.size() == ref.size(), what, ": different number of bins ", got.size(), " vs ", ref.size());
  double worst = 0;
  BinKey wk;
  for (auto& kv : ref)
    {
      auto it = got.find(kv.first);
      VF_CHECK(it != got.end(), what, ": bin missing");
      const double d = std::fabs(double(it->second) - double(kv.second));
      if (!(d <= worst))
        {
          worst = d;
          wk = kv.first;
        }
    }
  if (scale > 0)
    stats().maxi(stat, worst / scale);
  if (!(worst <= tol * scale))
    return Result::fail(cat(what, ": max difference ", worst, " (", scale > 0 ? worst / scale : 0., " of max |reference| ", scale, ") at bin(seg ",
                            std::get<0>(wk), ", ax ", std::get<1>(wk), ", view ", std::get<2>(wk), ", tang ", std::get<3>(wk), ") got ",
                            got.at(wk), " reference ", ref.at(wk)));
  return Result::pass();
}

//! out >= 0 and finite; estimate(A,B) == estimate(B,A) for the detector pair of every bin (all detector pairs of the
//! down-sampled scanner that the template contains).
//! Note: a detector pair and the exchanged pair are the SAME line of response and map to the SAME bin (C01 exchange law),
//! so the exchange is made where the simulation makes the distinction: in the per-pair function
//! actual_scatter_estimate(result, det_num_A, det_num_B) that process_data evaluates for find_detectors(bin).
Result
check_output(Sim& s, const Out& out, bool nonneg_activity)
{
  const ProjDataInfo& pdi = *s.get_template_proj_data_info_sptr();
  const bool blocks = dynamic_cast<const ProjDataInfoBlocksOnCylindricalNoArcCorr*>(&pdi) != nullptr;
  if (blocks)
    stats().count("outputs checked for a BlocksOnCylindrical template");
  // Precondition of "never negative" (scope: inputs a real caller passes): the attenuating object, hence every scatter
  // point, is inside the detector ring.  The pool images are generated inside the smallest ring, but the scatter-point
  // grid STIR derives from them can be coarser than the ring itself (e.g. zoom_xy 0.3 on the 7x7 image that
  // downsample_images_to_scanner_size makes for a 10-detector ring of radius 19 mm: 3x3 voxels of 20 mm, centres at
  // +-20 mm), and a voxel whose centre is outside the ring still receives mu >= threshold from the part that overlaps
  // the object.  The incidence-angle cosine of a detector behind such a point is negative (replays/C16/
  // precondition_scatter_point_outside_ring.json).  These outputs are excluded from the non-negativity clause only and
  // counted; every other clause (fresh object, exchange, linearity, zero, cache) is still checked on them.
  // "Inside the ring" is decided with the geometry's own inner extent (Sim::inner_detector_radius).
  if (nonneg_activity && s.scatter_points_outside_ring() > 0)
    {
      nonneg_activity = false;
      stats().count("excluded from 'never negative': outputs of a simulation with a scatter point outside the detector ring");
    }
  // ---- detector pair of every bin; geometry of the pair from the template (not from the simulation) ----
  struct Pair
  {
    BinKey k;
    unsigned A = 0, B = 0;
    CartesianCoordinate3D<float> a, b;
    double cosA = 0, cosB = 0;
  };
  std::vector<Pair> prs;
  prs.reserve(out.size());
  std::map<std::pair<unsigned, unsigned>, BinKey> seen; // unordered detector pair -> bin: one bin per pair
  bool behind = false;
  for (auto& kv : out)
    {
      Pair p;
      p.k = kv.first;
      const BinKey& k = p.k;
      const Bin bin(std::get<0>(k), std::get<2>(k), std::get<1>(k), std::get<3>(k));
      s.find_detectors(p.A, p.B, bin);
      VF_CHECK(p.A != p.B, "bin(seg ", std::get<0>(k), ", ax ", std::get<1>(k), ", view ", std::get<2>(k), ", tang ", std::get<3>(k),
               ") connects a detector with itself");
      VF_CHECK(seen.insert(std::make_pair(std::make_pair(std::min(p.A, p.B), std::max(p.A, p.B)), k)).second,
               "two bins of a span-1 template share detector pair ", p.A, ",", p.B);
      VF_CHECK(crystal_positions(pdi, bin, p.a, p.b), "harness: template is neither cylindrical nor blocks-on-cylindrical");
      p.cosA = radial_cos(p.a, p.b);
      p.cosB = radial_cos(p.b, p.a);
      if (!(p.cosA > 0) || !(p.cosB > 0))
        behind = true;
      prs.push_back(p);
    }
  // (the generator keeps blocks templates inside this domain, see front_entry_ok(); on a cylinder it always holds)
  if (behind && no_exclude("F8"))
    behind = false; // VERIF_NO_EXCLUDE=F8: assert finite / non-negative values for these outputs as well
  if (behind)
    {
      nonneg_activity = false;
      stats().count("excluded from 'never negative'/'finite': outputs with an LOR that enters a crystal from behind (blocks)");
    }
  for (auto& kv : out)
    {
      if (!behind)
        VF_CHECK(std::isfinite(kv.second), "output not finite at bin(seg ", std::get<0>(kv.first), ", ax ", std::get<1>(kv.first), ", view ",
                 std::get<2>(kv.first), ", tang ", std::get<3>(kv.first), "): ", kv.second);
      if (nonneg_activity)
        VF_CHECK(kv.second >= 0.F, "negative output ", kv.second, " at bin(seg ", std::get<0>(kv.first), ", ax ", std::get<1>(kv.first), ", view ",
                 std::get<2>(kv.first), ", tang ", std::get<3>(kv.first), ")");
    }
  if (behind)
    return Result::pass(); // values may be inf/NaN: nothing below is meaningful
  const double scale = max_abs(out);
  const double Rscale = pdi.get_scanner_ptr()->get_effective_ring_radius();
  const double eff511 = s.detection_efficiency(511.F) > 0 ? double(s.detection_efficiency(511.F)) : 1.; // "Will normalise to 1"
  long pairs = 0, oblique = 0, unequal_cos = 0;
  double worst = 0, worst_direct = 0, worst_pair = 0, worst_eff_sym = 0, worst_eff_ref = 0, worst_coord = 0;
  for (const Pair& p : prs)
    {
      const BinKey& k = p.k;
      const float stored = out.at(k);
      const unsigned A = p.A, B = p.B;
      // ---- (i) the detection points of the simulation are the crystals of the bin (z up to the common axial shift) ----
      {
        const CartesianCoordinate3D<float>& sa = s.det_point(A);
        const CartesianCoordinate3D<float>& sb = s.det_point(B);
        const double dc = std::max({ std::fabs(double(sa.x()) - p.a.x()), std::fabs(double(sa.y()) - p.a.y()), std::fabs(double(sb.x()) - p.b.x()),
                                     std::fabs(double(sb.y()) - p.b.y()),
                                     std::fabs((double(sa.z()) - sb.z()) - (double(p.a.z()) - p.b.z())) });
        worst_coord = std::max(worst_coord, dc / Rscale);
        VF_CHECK(dc <= TOL_COORD * Rscale, "bin(seg ", std::get<0>(k), ", ax ", std::get<1>(k), ", view ", std::get<2>(k), ", tang ", std::get<3>(k),
                 "): the simulation places its detectors at (z,y,x) (", sa.z(), ",", sa.y(), ",", sa.x(), ") / (", sb.z(), ",", sb.y(), ",", sb.x(),
                 ") but the crystals of the bin's detector pair are at (", p.a.z(), ",", p.a.y(), ",", p.a.x(), ") / (", p.b.z(), ",", p.b.y(), ",",
                 p.b.x(), ") (z up to a common shift)");
      }
      // ---- (ii) normalisation of the pair: symmetric, and equal to the model eff511 cosA cosB / (0.75/(2 pi) rAB^2) ----
      {
        const double eab = s.detection_efficiency_no_scatter(A, B), eba = s.detection_efficiency_no_scatter(B, A);
        const double m = std::max(std::fabs(eab), std::fabs(eba));
        const double rel = m > 0 ? std::fabs(eab - eba) / m : 0;
        worst_eff_sym = std::max(worst_eff_sym, rel);
        if (!(rel <= TOL_EFF_SYM))
          return Result::fail(cat("exchange symmetry of the normalisation: bin(seg ", std::get<0>(k), ", ax ", std::get<1>(k), ", view ", std::get<2>(k),
                                  ", tang ", std::get<3>(k), ") detectors A=", A, " B=", B, ": detection_efficiency_no_scatter(A,B) = ", eab,
                                  " but (B,A) = ", eba, " (cos of incidence at A ", p.cosA, ", at B ", p.cosB, ")"));
        const double dx = double(p.a.x()) - p.b.x(), dy = double(p.a.y()) - p.b.y(), dz = double(p.a.z()) - p.b.z();
        const double ref = eff511 * p.cosA * p.cosB * 2. * 3.14159265358979323846 / (0.75 * (dx * dx + dy * dy + dz * dz));
        const double rr = std::fabs(eab - ref) / std::fabs(ref);
        worst_eff_ref = std::max(worst_eff_ref, rr);
        if (!(rr <= TOL_EFF_REF))
          return Result::fail(cat("normalisation of the pair: bin(seg ", std::get<0>(k), ", ax ", std::get<1>(k), ", view ", std::get<2>(k), ", tang ",
                                  std::get<3>(k), ") detectors A=", A, " B=", B, ": detection_efficiency_no_scatter(A,B) = ", eab,
                                  " but efficiency(511) cosA cosB / (0.75/(2 pi) |A-B|^2) = ", ref, " (cosA ", p.cosA, ", cosB ", p.cosB, ")"));
        if (std::fabs(p.cosA - p.cosB) > 1e-3 * std::max(p.cosA, p.cosB))
          ++unequal_cos;
      }
      // ---- (iii) stored value == estimate(A,B) == estimate(B,A) ----
      double ab = 0, ba = 0;
      s.actual_scatter_estimate(ab, A, B);
      s.actual_scatter_estimate(ba, B, A);
      ++pairs;
      if (std::get<0>(k) != 0)
        ++oblique;
      worst_direct = std::max(worst_direct, std::fabs(double(float(ab)) - double(stored)));
      VF_CHECK(std::fabs(double(float(ab)) - double(stored)) <= 1e-6 * scale, "process_data stored ", stored, " for bin(seg ", std::get<0>(k), ", ax ",
               std::get<1>(k), ", view ", std::get<2>(k), ", tang ", std::get<3>(k), ") but the estimate for its detector pair is ", ab);
      const double d = std::fabs(ab - ba);
      worst = std::max(worst, d);
      if (ab != ba)
        stats().count("detector pairs with estimate(A,B) != estimate(B,A) in the last bits");
      if (!(d <= TOL_SYM * scale))
        return Result::fail(cat("exchange symmetry: bin(seg ", std::get<0>(k), ", ax ", std::get<1>(k), ", view ", std::get<2>(k), ", tang ", std::get<3>(k),
                                ") detectors A=", A, " B=", B, ": estimate(A,B) = ", ab, " but estimate(B,A) = ", ba, " (max |out| ", scale, ")"));
      // per pair ("the estimate FOR A DETECTOR PAIR is unchanged"): relative to the pair's own value; pairs whose estimate is
      // below 1e-6 of the maximum are left to the absolute clause above (sums with cancelling terms of outside-ring points)
      const double pm = std::max(std::fabs(ab), std::fabs(ba));
      if (pm > 1e-6 * scale)
        {
          worst_pair = std::max(worst_pair, d / pm);
          if (!(d <= TOL_SYM_PAIR * pm))
            return Result::fail(cat("exchange symmetry (relative to the pair): bin(seg ", std::get<0>(k), ", ax ", std::get<1>(k), ", view ",
                                    std::get<2>(k), ", tang ", std::get<3>(k), ") detectors A=", A, " B=", B, ": estimate(A,B) = ", ab,
                                    " but estimate(B,A) = ", ba, " (relative difference ", d / pm, ")"));
        }
    }
  stats().count("detector pairs compared", pairs);
  stats().count("detector pairs in different rings", oblique);
  stats().count("detector pairs with different incidence cosines at the two ends (> 1e-3 relative)", unequal_cos);
  if (blocks)
    stats().count("blocks: detector pairs compared", pairs);
  stats().maxi("max rel err detection point vs crystal position (of ring radius)", worst_coord);
  stats().maxi("max rel err normalisation (A,B) vs (B,A)", worst_eff_sym);
  stats().maxi("max rel err normalisation vs own formula", worst_eff_ref);
  if (scale > 0)
    {
      stats().maxi("max rel err exchange symmetry", worst / scale);
      stats().maxi("max rel err exchange symmetry relative to the pair", worst_pair);
      stats().maxi("max rel err process_data vs per-pair estimate", worst_direct / scale);
    }
  return Result::pass();
}

//! the image downsample_images_to_scanner_size() is documented to make: "Downsamples activity and attenuation images to
//! voxel sizes appropriate for the (downsampled) scanner": zoom_image onto VoxelsOnCartesianGrid(template), activity
//! preserving projections, attenuation preserving values.  Made here with the public zoom_image (C15), not through the class.
shared_ptr<const Image>
zoom_to_template(const Image& in, const ProjDataInfo& pdi, bool activity)
{
  GeomAssertsOff off(is_blocks(&pdi));
  Image tmpl_image(pdi);
  shared_ptr<Image> out(tmpl_image.get_empty_copy());
  zoom_image(*out, in, ZoomOptions(activity ? ZoomOptions::preserve_projections : ZoomOptions::preserve_values));
  return out;
}

shared_ptr<const Image>
as_image(shared_ptr<DiscretisedDensity<3, float>> d)
{
  shared_ptr<const Image> im = std::dynamic_pointer_cast<const Image>(d);
  if (!im)
    error("file does not contain a VoxelsOnCartesianGrid<float>");
  return im;
}

std::string
float_text(float v)
{
  std::ostringstream o;
  o << std::setprecision(9) << v;
  return o.str();
}

// ---- the property ------------------------------------------------------------------------------------
Result
check(const json& c)
{
  vg::quiet();
  Pools P;
  try
    {
      for (auto& j : c["templates"])
        {
          P.tmpls.push_back(make_tmpl(j));
          // the generator only makes consistent scanners
          if (P.tmpls.back().pdi->get_scanner_ptr()->check_consistency() != Succeeded::yes)
            return Result::reject("scanner inconsistent");
        }
      for (auto& j : c["exams"])
        P.exams.push_back(make_exam(j));
      for (auto& j : c["acts"])
        P.acts.push_back(make_img(j));
      for (auto& j : c["atts"])
        P.atts.push_back(make_img(j));
    }
  catch (const std::runtime_error& e)
    {
      return Result::reject(std::string("construction rejected: ") + e.what());
    }
  const Plan plan = make_plan(c);
  TmpDir tmp;
  Model M;
  M.thr = c["thr"].get<double>();
  M.zoom = initial_zoom(c);
  if (M.zoom.expl)
    stats().cls("explicit zoom factors for set_up");

  // ---- files written by the harness; the model uses what the harness reads back from them ----
  std::map<std::string, std::pair<std::string, shared_ptr<const Image>>> image_files;
  auto image_file = [&](const std::string& key, const DiscretisedDensity<3, float>& img) -> const std::pair<std::string, shared_ptr<const Image>>& {
    auto it = image_files.find(key);
    if (it == image_files.end())
      {
        const std::string fn = write_to_file(tmp.file(key), img);
        shared_ptr<DiscretisedDensity<3, float>> rb(read_from_file<DiscretisedDensity<3, float>>(fn));
        it = image_files.insert(std::make_pair(key, std::make_pair(fn, as_image(rb)))).first;
        stats().count("image files written");
      }
    return it->second;
  };
  struct TmplFile
  {
    std::string fn;
    shared_ptr<ProjDataInfo> pdi;
    shared_ptr<ExamInfo> exam;
  };
  auto template_file = [&](int t, int e) -> TmplFile {
    TmplFile f;
    const std::string stem = tmp.file(cat("tmpl", t, "_", e));
    {
      ProjDataInterfile pd(P.exams[e], P.tmpls[t].pdi->create_shared_clone(), stem, std::ios::in | std::ios::out | std::ios::trunc);
    }
    f.fn = stem + ".hs";
    shared_ptr<ProjData> rb(ProjData::read_from_file(f.fn));
    f.pdi = rb->get_proj_data_info_sptr()->create_shared_clone();
    f.exam = rb->get_exam_info().create_shared_clone();
    stats().count("template files written");
    return f;
  };
  //! the template the simulation works with, from a helper object (not from H)
  auto effective_pdi = [&](const Tmpl& t) -> shared_ptr<const ProjDataInfo> {
    SingleScatterSimulation h;
    apply_tmpl(h, t);
    return h.get_template_proj_data_info_sptr();
  };

  // ---- the history object: default constructed, or constructed from a parameter file ----
  shared_ptr<Sim> Hs;
  bool own_output_valid = false; // H holds an output made by the class itself for the current template
  if (c.contains("start") && c["start"].is_object())
    {
      const json& st = c["start"];
      const int t = st["tmpl"].get<int>() % int(P.tmpls.size()), e = st["exam"].get<int>() % int(P.exams.size());
      const int ia = st["act"].get<int>() % int(P.acts.size()), im = st["att"].get<int>() % int(P.atts.size());
      TmplFile tf = template_file(t, e);
      const auto& fa = image_file(cat("act", ia), *P.acts[ia]);
      const auto& fm = image_file(cat("att", im), *P.atts[im]);
      M.tmpl = t;
      M.tmpl_file = true;
      M.t = P.tmpls[t];
      M.t.pdi = tf.pdi;
      M.exam = tf.exam;
      M.act = fa.second;
      M.att = fm.second;
      M.use_cache = st["cache"].get<bool>();
      std::string par = "PET Single Scatter Simulation Parameters :=\n";
      par += "template projdata filename := " + tf.fn + "\n";
      par += "attenuation image filename := " + fm.first + "\n";
      par += "activity image filename := " + fa.first + "\n";
      if (st["sp"].is_array())
        {
          const SpRecipe r = decode_sp(P, st["sp"][0], st["sp"][1], st["sp"][2], st["sp"][3], t);
          const auto& fs = image_file(cat("sp_start"), *make_sp(P, r));
          M.sp_set = true;
          M.sp_img = fs.second;
          par += "attenuation image for scatter points filename := " + fs.first + "\n";
        }
      if (M.zoom.expl)
        {
          par += "zoom XY for attenuation image for scatter points := " + float_text(M.zoom.zxy) + "\n";
          par += "zoom Z for attenuation image for scatter points := " + float_text(M.zoom.zz) + "\n";
          par += cat("XY size of downsampled image for scatter points := ", M.zoom.sxy, "\n");
          par += cat("Z size of downsampled image for scatter points := ", M.zoom.sz, "\n");
        }
      par += "attenuation threshold := " + float_text(float(M.thr)) + "\n";
      par += "randomly place scatter points := 0\n";
      par += cat("use cache := ", M.use_cache ? 1 : 0, "\n");
      if (st["outfile"].get<bool>())
        {
          par += "output filename prefix := " + tmp.file("parout") + "\n";
          own_output_valid = true;
        }
      par += "end PET Single Scatter Simulation Parameters :=\n";
      const std::string parfn = tmp.file("sss") + ".par";
      {
        std::ofstream f(parfn);
        f << par;
      }
      Hs.reset(new Sim(parfn));
      // the threshold parsed from text must be the float the model uses
      apply_down(*Hs, M.t, false);
      if (M.t.down)
        own_output_valid = true; // downsample_scanner: set_output_proj_data(output_proj_data_filename)
      M.eff_pdi = effective_pdi(M.t);
      ++M.version;
      stats().cls("history object constructed from a parameter file");
    }
  else
    {
      Hs.reset(new Sim);
      init_obj(*Hs, M);
    }
  Sim& H = *Hs;

  bool H_downsampled_in_set_up = false; // statistics only
  long n_compared = 0, n_setters_since_process = 0;
  bool had_process = false;
  shared_ptr<ProjDataInMemory> H_out_pd;
  // the output of a fresh object for the current model (reused while the model does not change)
  struct
  {
    long version = -1;
    Out out;
    shared_ptr<Sim> s;
  } fresh_cache;

  // set_up on H with the same outcome as on a fresh object; rejected: both reject the configuration
  auto do_set_up = [&](bool& rejected) -> Result {
    rejected = false;
    // (histories that run into a known finding never get here unless VERIF_NO_EXCLUDE is set: known_signature())
    if (!M.sp_set)
      {
        stats().count("set_up with automatic scatter-point down-sampling");
        if (H_downsampled_in_set_up)
          stats().count("repeated automatic down-sampling on one object");
      }
    bool h_threw = false;
    std::string h_msg;
    try
      {
        if (!M.sp_set)
          H_downsampled_in_set_up = true;
        if (set_up_obj(H) != Succeeded::yes)
          {
            h_threw = true;
            h_msg = "Succeeded::no";
          }
      }
    catch (const std::runtime_error& e)
      {
        h_threw = true;
        h_msg = e.what();
      }
    if (h_threw)
      {
        // a configuration STIR rejects: a fresh object must reject it as well
        bool f_threw = false;
        try
          {
            Fresh f = configure_fresh(M, M.use_cache, M.act);
            f_threw = set_up_obj(*f.s) != Succeeded::yes;
          }
        catch (const std::runtime_error&)
          {
            f_threw = true;
          }
        VF_CHECK(f_threw, "set_up fails after the history (", h_msg, ") but succeeds on a fresh object with the same settings");
        rejected = true;
        return Result::pass();
      }
    M.dirty = false;
    return Result::pass();
  };

  //! output of a freshly configured object for the current model
  auto fresh_output = [&](bool other_cache_mode, std::size_t i, Out& f_out, shared_ptr<Sim>& fs) -> Result {
    if (fresh_cache.version == M.version)
      {
        f_out = fresh_cache.out;
        fs = fresh_cache.s;
        stats().count("fresh output reused (model unchanged)");
        return Result::pass();
      }
    Fresh f;
    try
      {
        f = configure_fresh(M, other_cache_mode ? !M.use_cache : M.use_cache, M.act);
        if (set_up_obj(*f.s) != Succeeded::yes)
          error("set_up returned Succeeded::no");
      }
    catch (const std::runtime_error& e)
      {
        return Result::fail(cat("event ", i, ": set_up succeeded after the history but a fresh object with the same settings rejects them: ", e.what()));
      }
    Result r = run(*f.s, f.out, f_out, "fresh object");
    if (r.failed())
      return r;
    if (other_cache_mode)
      stats().count("fresh object in the OTHER cache mode");
    fresh_cache.version = M.version;
    fresh_cache.out = f_out;
    fresh_cache.s = f.s;
    fs = f.s;
    return Result::pass();
  };

  auto changed = [&]() {
    M.dirty = true;
    ++M.version;
    ++n_setters_since_process;
  };
  auto set_template_in_model = [&](int t, bool file) {
    M.tmpl = t;
    M.tmpl_file = file;
    M.eff_pdi = effective_pdi(M.t);
    own_output_valid = M.t.down; // downsample_scanner makes an output for the new template
  };

  for (const Step& s : plan.steps)
    {
      if (s.finding != NONE)
        return Result::reject(std::string("known:") + finding_signature[s.finding]); // only reached without known_signature()
      const std::size_t i = s.index;
      if (!s.effective)
        {
          if (s.code == DOWNSAMPLE_IMAGES)
            VF_CHECK(H.downsample_images_to_scanner_size() == Succeeded::no, "event ", i,
                     ": downsample_images_to_scanner_size without a template does not return Succeeded::no");
          stats().count(s.code == SET_UP || s.code == PROCESS || s.code == EVAL_BINS ? "events skipped: configuration incomplete"
                                                                                       : "events skipped: precondition of the call not met");
          continue;
        }
      const int a = s.a, b = s.b, cc = s.c, d = s.d;
      switch (s.code)
        {
        case SET_ACT:
          M.act = P.acts[a % int(P.acts.size())];
          H.set_activity_image_sptr(M.act);
          changed();
          break;
        case SET_ACT_FILE: {
          const int k = a % int(P.acts.size());
          const auto& f = image_file(cat("act", k), *P.acts[k]);
          H.set_activity_image(f.first);
          M.act = f.second;
          changed();
          stats().count("setters by file name");
          break;
        }
        case SET_ATT:
          M.att = P.atts[a % int(P.atts.size())];
          H.set_density_image_sptr(M.att);
          M.sp_set = false; // documented: "make sure that we're not re-using a previously interpolated image for scatter points"
          changed();
          break;
        case SET_ATT_FILE: {
          const int k = a % int(P.atts.size());
          const auto& f = image_file(cat("att", k), *P.atts[k]);
          H.set_density_image(f.first); // = set_density_image_sptr(read_from_file(..))
          M.att = f.second;
          M.sp_set = false;
          changed();
          stats().count("setters by file name");
          break;
        }
        case SET_SP: {
          const SpRecipe r = decode_sp(P, a, b, cc, d, M.tmpl);
          M.sp_img = make_sp(P, r);
          M.sp_set = true;
          H.set_density_image_for_scatter_points_sptr(M.sp_img);
          changed();
          break;
        }
        case SET_SP_FILE: {
          const SpRecipe r = decode_sp(P, a, b, cc, d, M.tmpl);
          const std::string fn = write_to_file(tmp.file("sp"), *make_sp(P, r));
          shared_ptr<DiscretisedDensity<3, float>> rb(read_from_file<DiscretisedDensity<3, float>>(fn));
          M.sp_img = as_image(rb);
          M.sp_set = true;
          H.set_density_image_for_scatter_points(fn);
          changed();
          stats().count("setters by file name");
          break;
        }
        case DOWNSAMPLE_SP: {
          // on H itself, from its current attenuation image; the model image comes from a helper object
          const Zoom z = decode_dsp(b, d, s.nz);
          VF_CHECK(M.att && M.att->get_z_size() == s.nz, "harness: plan and model disagree on the number of attenuation planes");
          {
            SingleScatterSimulation h;
            h.set_randomly_place_scatter_points(false);
            h.set_density_image_sptr(M.att);
            h.downsample_density_image_for_scatter_points(z.zxy, z.zz, z.sxy, z.sz);
            M.sp_img.reset(h.get_density_image_for_scatter_points_sptr()->clone());
          }
          M.sp_set = true;
          M.zoom = z; // the function stores its arguments (it calls set_image_downsample_factors)
          {
            GeomAssertsOff off(H.has_template_proj_data_info() && is_blocks(H.get_template_proj_data_info_sptr().get()));
            H.downsample_density_image_for_scatter_points(z.zxy, z.zz, z.sxy, z.sz);
          }
          changed();
          stats().count("downsample_density_image_for_scatter_points on the history object");
          break;
        }
        case SET_TMPL:
          M.t = P.tmpls[a % int(P.tmpls.size())];
          apply_tmpl(H, M.t, cc % 3 == 0);
          set_template_in_model(a % int(P.tmpls.size()), false);
          changed();
          break;
        case SET_TMPL_FILE: {
          const int t = a % int(P.tmpls.size()), e = b % int(P.exams.size());
          TmplFile f = template_file(t, e);
          M.t = P.tmpls[t];
          M.t.pdi = f.pdi;
          M.exam = f.exam;
          H.set_template_proj_data_info(f.fn); // sets the exam info of the file as well
          apply_down(H, M.t, cc % 3 == 0);
          set_template_in_model(t, true);
          changed();
          stats().count("setters by file name");
          break;
        }
        case SET_EXAM:
          M.exam = P.exams[a % int(P.exams.size())];
          H.set_exam_info(*M.exam);
          changed();
          break;
        case SET_EXAM_SPTR:
          M.exam = P.exams[a % int(P.exams.size())];
          H.set_exam_info_sptr(M.exam);
          changed();
          break;
        case SET_CACHE:
        case SET_CACHE_ENABLED:
          // the property speaks about changes "followed by set-up"; neither function invalidates the set-up itself
          // (probe for the observation in work/notes/C16_findings.md: VERIF_C16_NO_SETUP_AFTER_CACHE=1)
          if (M.use_cache != bool(a & 1) && !std::getenv("VERIF_C16_NO_SETUP_AFTER_CACHE"))
            M.dirty = true;
          M.use_cache = bool(a & 1);
          if (s.code == SET_CACHE)
            H.set_use_cache(M.use_cache);
          else
            H.set_cache_enabled(M.use_cache);
          VF_CHECK(H.get_use_cache() == M.use_cache, "event ", i, ": get_use_cache() is ", H.get_use_cache(), " after ",
                   s.code == SET_CACHE ? "set_use_cache(" : "set_cache_enabled(", M.use_cache, ")");
          ++n_setters_since_process;
          break;
        case SET_THR:
          M.thr = THR_VALUES[a % 5];
          H.set_attenuation_threshold(float(M.thr));
          changed();
          break;
        case SET_ZOOM:
          M.zoom = decode_zoom(a, b, cc, s.nz);
          H.set_image_downsample_factors(M.zoom.zxy, M.zoom.zz, M.zoom.sxy, M.zoom.sz);
          changed();
          break;
        case DOWNSAMPLE_IMAGES: {
          // model first (from the images the object has now), then the call
          if (M.act)
            M.act = zoom_to_template(*M.act, *M.eff_pdi, true);
          if (M.att)
            {
              M.att = zoom_to_template(*M.att, *M.eff_pdi, false);
              VF_CHECK(M.att->get_z_size() == 2 * M.eff_pdi->get_scanner_ptr()->get_num_rings() - 1,
                       "harness: planes of the template image");
              // an explicit scatter-point image stays (the function does not touch it)
            }
          {
            GeomAssertsOff off(is_blocks(M.eff_pdi.get()));
            VF_CHECK(H.downsample_images_to_scanner_size() == Succeeded::yes, "event ", i, ": downsample_images_to_scanner_size returned Succeeded::no");
          }
          if (M.act || M.att)
            changed();
          stats().count("downsample_images_to_scanner_size on the history object");
          break;
        }
        case SET_UP:
        case PROCESS:
        case EVAL_BINS: {
          if (s.set_up_before)
            {
              bool rejected;
              Result r = do_set_up(rejected);
              if (r.failed())
                return r;
              if (rejected)
                {
                  stats().count("histories ended by an error() of set_up");
                  if (n_compared == 0)
                    return Result::reject("set_up rejected the configuration");
                  return Result::pass();
                }
            }
          else
            VF_CHECK(!M.dirty, "harness: plan and model disagree on the need for set_up");
          if (s.code == SET_UP)
            break;
          Out f_out;
          shared_ptr<Sim> fs;
          if (s.code == EVAL_BINS)
            {
              // ---- scatter_estimate(bin) in a generated order, compared with the stored bins of a fresh object ----
              Result r = fresh_output(false, i, f_out, fs);
              if (r.failed())
                return r;
              std::vector<BinKey> bins;
              for (auto& kv : f_out)
                bins.push_back(kv.first);
              SplitMix g(uint64_t(a) * 1000003ULL + uint64_t(b));
              for (std::size_t k = bins.size(); k > 1; --k)
                std::swap(bins[k - 1], bins[std::size_t(g.range(0, long(k) - 1))]);
              if (cc % 4 == 1)
                std::reverse(bins.begin(), bins.end());
              if (cc % 4 == 0)
                {
                  std::sort(bins.begin(), bins.end());
                  std::reverse(bins.begin(), bins.end()); // exactly the reverse of the order of process_data's numbering
                }
              const std::size_t n = (cc % 3 == 2) ? 1 + std::size_t(d) % bins.size() : bins.size();
              const double scale = max_abs(f_out);
              double worst = 0;
              for (std::size_t k = 0; k < n; ++k)
                {
                  const BinKey& bk = bins[k];
                  const double est = H.scatter_estimate(Bin(std::get<0>(bk), std::get<2>(bk), std::get<1>(bk), std::get<3>(bk)));
                  const double diff = std::fabs(double(float(est)) - double(f_out.at(bk)));
                  worst = std::max(worst, diff);
                  if (!(diff <= TOL_FRESH * scale))
                    return Result::fail(cat("event ", i, ": scatter_estimate(bin) evaluated as number ", k, " of a generated order, bin(seg ", std::get<0>(bk),
                                            ", ax ", std::get<1>(bk), ", view ", std::get<2>(bk), ", tang ", std::get<3>(bk), ") = ", est,
                                            " but process_data of a freshly constructed simulation stores ", f_out.at(bk), " (max |reference| ", scale, ")"));
                }
              if (scale > 0)
                stats().maxi("max rel err per-bin evaluation in generated order vs fresh", worst / scale);
              stats().count("per-bin evaluations in a generated order", long(n));
              stats().count("EVAL_BINS events compared with fresh object");
              ++n_compared;
              break;
            }
          // ---- process_data on H (output provided through one of the public routes), compare with a fresh object ----
          shared_ptr<ProjData> h_pd;
          {
            int route = b % 7;
            if (route == 6 && !own_output_valid)
              route = 0;
            switch (route)
              {
              case 2:
                H.set_output_proj_data(std::string()); // in memory, made by the class
                break;
              case 3: H.set_output_proj_data(tmp.file("out")); break;
              case 4: H.set_output_proj_data_sptr(H.get_exam_info_sptr(), H.get_template_proj_data_info_sptr(), std::string()); break;
              case 5: H.set_output_proj_data_sptr(H.get_exam_info_sptr(), H.get_template_proj_data_info_sptr(), tmp.file("out")); break;
              case 6: break; // the output the class made itself (downsample_scanner / "output filename prefix")
              default:
                H_out_pd = new_output(H);
                H.set_output_proj_data_sptr(H_out_pd);
                break;
              }
            stats().count(cat("process_data output route ", route));
            own_output_valid = route >= 2;
            const Succeeded ok = H.process_data();
            VF_CHECK(ok == Succeeded::yes, "history object: process_data returned Succeeded::no");
            h_pd = H.get_output_proj_data_sptr();
          }
          const Out h_out = read_out(*h_pd);
          Result r = fresh_output((cc & 1) != 0, i, f_out, fs);
          if (r.failed())
            return r;
          r = compare(h_out, f_out, max_abs(f_out), TOL_FRESH, cat("event ", i, ": output after the history vs freshly constructed simulation"),
                      "max rel err history vs fresh");
          if (r.failed())
            return r;
          // other observable state that must agree with the fresh object
          VF_CHECK(H.get_num_scatter_points() == fs->get_num_scatter_points(), "event ", i, ": ", H.get_num_scatter_points(),
                   " scatter points after the history but ", fs->get_num_scatter_points(), " in a freshly constructed simulation");
          for (float e : { 511.F, 430.F, 350.F })
            VF_CHECK(H.detection_efficiency(e) == fs->detection_efficiency(e), "event ", i, ": detection_efficiency(", e, ") = ", H.detection_efficiency(e),
                     " after the history but ", fs->detection_efficiency(e), " in a freshly constructed simulation");
          r = check_output(H, h_out, true);
          if (r.failed())
            return r;
          ++n_compared;
          stats().count("process_data compared with fresh object");
          if (had_process && n_setters_since_process >= 2)
            stats().count("process_data after >=2 setters since the previous one");
          if (max_abs(f_out) > 0)
            stats().count("process_data with non-zero output");
          had_process = true;
          n_setters_since_process = 0;
          break;
        }
        }
    }

  if (!M.complete())
    return n_compared > 0 ? Result::pass() : Result::reject("history never reaches a complete configuration");
  VF_CHECK(!M.dirty, "harness: the plan ends with a set_up when the history ends with a setter");

  // ---- final state: cache on/off, linearity, zero, on ONE fresh object G (setters + set_up between the runs) ----
  {
    const json& lin = c["lin"];
    const double alpha = lin["a"], beta = lin["b"];
    shared_ptr<const Image> x1 = M.act;
    shared_ptr<Image> x2(x1->get_empty_copy());
    vg::fill_random(*x2, lin["seed"].get<uint64_t>(), 0., 2.);
    shared_ptr<Image> x3(x1->clone());
    *x3 *= float(alpha);
    {
      Image tmp_img(*x2);
      tmp_img *= float(beta);
      *x3 += tmp_img;
    }
    shared_ptr<Image> x0(x1->get_empty_copy());
    x0->fill(0.F);

    Fresh g, goff;
    Out o1, o2, o3, o0, ooff;
    try
      {
        g = configure_fresh(M, M.use_cache, x1);
        if (set_up_obj(*g.s) != Succeeded::yes)
          error("Succeeded::no");
        goff = configure_fresh(M, !M.use_cache, x1);
        if (set_up_obj(*goff.s) != Succeeded::yes)
          error("Succeeded::no");
      }
    catch (const std::runtime_error& e)
      {
        if (n_compared > 0)
          return Result::fail(cat("final state: fresh object rejects settings that were accepted before: ", e.what()));
        return Result::reject(std::string("final configuration rejected by set_up: ") + e.what());
      }
    Result r = run(*g.s, g.out, o1, "G");
    if (r.failed())
      return r;
    r = check_output(*g.s, o1, true);
    if (r.failed())
      return r;
    r = run(*goff.s, goff.out, ooff, "G (other cache mode)");
    if (r.failed())
      return r;
    r = compare(ooff, o1, max_abs(o1), TOL_CACHE, cat("cache ", !M.use_cache ? "on" : "off", " vs cache ", M.use_cache ? "on" : "off"),
                "max rel err cache on vs off");
    if (r.failed())
      return r;
    stats().count("cache on/off comparisons");

    // ---- the scanner is down-sampled by set_up itself (set_downsample_scanner_bool / keywords); one set_up only:
    //      "ScatterSimulation: set_up() called twice. This is currently not supported."
    //      "if (downsample_scanner_rings > 1) new_num_rings = downsample_scanner_rings": only for >= 2 rings ----
    if (defaults_route_possible(M.t))
      {
        shared_ptr<Sim> J;
        const bool by_keywords = (lin["seed"].get<uint64_t>() & 1) != 0;
        if (by_keywords)
          {
            std::string par = "PET Single Scatter Simulation Parameters :=\n";
            par += "downsample scanner := 1\n";
            par += cat("downsampled scanner number of rings := ", M.t.new_rings, "\n");
            par += cat("downsampled scanner number of detectors per ring := ", M.t.new_dets, "\n");
            par += "attenuation threshold := " + float_text(float(M.thr)) + "\n";
            par += "randomly place scatter points := 0\n";
            par += cat("use cache := ", M.use_cache ? 1 : 0, "\n");
            if (M.zoom.expl)
              {
                par += "zoom XY for attenuation image for scatter points := " + float_text(M.zoom.zxy) + "\n";
                par += "zoom Z for attenuation image for scatter points := " + float_text(M.zoom.zz) + "\n";
                par += cat("XY size of downsampled image for scatter points := ", M.zoom.sxy, "\n");
                par += cat("Z size of downsampled image for scatter points := ", M.zoom.sz, "\n");
              }
            par += "end PET Single Scatter Simulation Parameters :=\n";
            const std::string parfn = tmp.file("sssJ") + ".par";
            {
              std::ofstream f(parfn);
              f << par;
            }
            J.reset(new Sim(parfn));
            VF_CHECK(J->get_downsample_scanner_bool() && J->get_num_downsample_scanner_rings() == M.t.new_rings
                         && J->get_num_downsample_scanner_dets() == M.t.new_dets && J->get_use_cache() == M.use_cache,
                     "keywords for the scanner down-sampling / cache are not what the getters report");
            stats().count("set_up down-samples the scanner: configured by keywords");
          }
        else
          {
            J.reset(new Sim);
            init_obj(*J, M);
            J->set_use_cache(M.use_cache);
            J->set_downsample_scanner_bool(true);
            J->set_num_downsample_scanner_rings(M.t.new_rings);
            J->set_num_downsample_scanner_dets(M.t.new_dets);
            stats().count("set_up down-samples the scanner: configured by setters");
          }
        J->set_exam_info(*M.exam);
        J->set_template_proj_data_info(*M.t.pdi);
        J->set_activity_image_sptr(x1);
        J->set_density_image_sptr(M.att);
        if (M.sp_set)
          J->set_density_image_for_scatter_points_sptr(M.sp_img);
        VF_CHECK(set_up_obj(*J) == Succeeded::yes, "set_up with scanner down-sampling returned Succeeded::no");
        VF_CHECK(J->process_data() == Succeeded::yes, "process_data after set_up with scanner down-sampling returned Succeeded::no");
        const Out oj = read_out(*J->get_output_proj_data_sptr());
        r = compare(oj, o1, max_abs(o1), TOL_FRESH, "scanner down-sampled by set_up (downsample scanner := 1) vs downsample_scanner(rings, dets) before set_up",
                    "max rel err down-sampling in set_up vs explicit");
        if (r.failed())
          return r;
      }

    auto rerun = [&](shared_ptr<const Image> x, Out& o, const char* who) -> Result {
      g.s->set_activity_image_sptr(x);
      if (set_up_obj(*g.s) != Succeeded::yes)
        return Result::fail(cat(who, ": set_up failed after set_activity_image_sptr"));
      return run(*g.s, g.out, o, who);
    };
    r = rerun(x2, o2, "G(x2)");
    if (r.failed())
      return r;
    r = rerun(x3, o3, "G(a x1 + b x2)");
    if (r.failed())
      return r;
    r = check_output(*g.s, o3, alpha >= 0 && beta >= 0);
    if (r.failed())
      return r;
    r = rerun(x0, o0, "G(0)");
    if (r.failed())
      return r;
    for (auto& kv : o0)
      VF_CHECK(kv.second == 0.F, "zero activity gives ", kv.second, " at bin(seg ", std::get<0>(kv.first), ", ax ", std::get<1>(kv.first), ", view ",
               std::get<2>(kv.first), ", tang ", std::get<3>(kv.first), ")");
    Out expect;
    for (auto& kv : o1)
      expect[kv.first] = float(alpha * double(kv.second) + beta * double(o2.at(kv.first)));
    const double scale = std::fabs(alpha) * max_abs(o1) + std::fabs(beta) * max_abs(o2);
    r = compare(o3, expect, scale, TOL_LIN, cat("linearity: out(", alpha, " x1 + ", beta, " x2) vs ", alpha, " out(x1) + ", beta, " out(x2)"),
                "max rel err linearity");
    if (r.failed())
      return r;
    stats().count("linearity comparisons");
    if (max_abs(o1) > 0)
      stats().cls("final output non-zero");
    else
      stats().cls("final output all zero");
    stats().cls(M.use_cache ? "final state: cache on" : "final state: cache off");
    if (M.t.down)
      stats().cls("final template through downsample_scanner");
  }
  return Result::pass();
}

// ---- generator ---------------------------------------------------------------------------------------
json
gen_image_spec(Src& s, double extent_xy, double L, int nz, bool attenuation, double thr)
{
  json j;
  const int nx = int(s.range(5, 9));
  const int ny = s.chance(2, 3) ? nx : int(s.range(5, 9));
  j["nx"] = nx;
  j["ny"] = ny;
  j["nz"] = nz;
  const double ex = extent_xy * s.pick(std::vector<double>{ 1., 1., 0.8, 0.6 });
  const double ey = s.chance(3, 4) ? ex : extent_xy * s.pick(std::vector<double>{ 1., 0.8, 0.6 });
  j["vx"] = ex / nx;
  j["vy"] = ey / ny;
  j["vz"] = L / (nz - 1); // (nz-1)*vz is the same for all images: check_z_to_middle_consistent
  const bool shifted = s.chance(1, 3);
  j["ox"] = shifted ? s.nice_real(-0.1, 0.1) * extent_xy : 0.;
  j["oy"] = shifted ? s.nice_real(-0.1, 0.1) * extent_xy : 0.;
  j["oz"] = s.chance(1, 4) ? s.nice_real(-0.2, 0.2) * L : 0.;
  j["seed"] = s.seed64();
  if (attenuation)
    {
      // mu in cm^-1: mostly above the threshold, some voxels below it
      j["lo"] = thr * 1.5;
      j["hi"] = 0.18;
      j["p_low"] = s.pick(std::vector<double>{ 0., 0.2, 0.5 });
      j["low_hi"] = thr * 0.9;
    }
  else
    {
      j["lo"] = 0.1;
      j["hi"] = 1.;
      j["p_low"] = s.pick(std::vector<double>{ 0., 0.3, 0.8 });
      j["low_hi"] = 0.; // exact zeros
    }
  return j;
}

json
small_scanner(Src& s, int ndet, int rings, double bin, double ring_spacing)
{
  json j;
  j["type"] = -1;
  j["ndet"] = ndet;
  j["rings"] = rings;
  // block structure: divisors so that Scanner::check_consistency passes
  std::vector<int> da;
  for (int k : vg::divisors(ndet))
    da.push_back(k);
  const int a = s.pick(da);
  std::vector<int> db = vg::divisors(ndet / a);
  const int b = s.pick(db);
  j["tr_cryst_per_block"] = a;
  j["tr_blocks_per_bucket"] = b;
  const int d = s.pick(vg::divisors(rings));
  const int e = s.pick(vg::divisors(rings / d));
  j["ax_cryst_per_block"] = d;
  j["ax_blocks_per_bucket"] = e;
  j["singles_units"] = s.coin() ? 1 : 0;
  j["max_tang"] = ndet - 1;
  // ring radius such that the detector pitch is about `bin`
  j["radius"] = std::floor(bin * ndet / 3.14159265 * 4.) / 4.;
  j["doi"] = s.coin() ? 0. : s.nice_real(0., 5.);
  j["ring_spacing"] = ring_spacing;
  j["bin_size"] = bin * s.pick(std::vector<double>{ 1., 1., 0.8, 1.25 });
  j["tilt"] = s.chance(1, 4) ? s.real(-0.5, 0.5) : 0.;
  j["tof_poss"] = 0;
  j["geometry"] = "Cylindrical";
  return j;
}


//! fixed_cases() only: 1 = the first template is a direct BlocksOnCylindrical one with >= 3 crystals per bucket, 0 = no blocks templates
int g_fixed_geometry = -1;

//! BlocksOnCylindrical scanner: `buckets` flat buckets (a regular polygon) of `per_bucket` crystals of pitch `bin` each.
//! Restrictions taken from Scanner::check_consistency (called by GeometryBlocksOnCylindrical: "scanner configuration not
//! accepted"): transaxial crystals = crystals_per_block x blocks_per_bucket x buckets; ONE axial bucket ("num_axial_buckets
//! ... greater than 1. This is not supported yet"), so rings = axial crystals per block x axial blocks per bucket; crystal
//! spacing x crystals per block <= block spacing; block spacing x blocks per bucket >= 2 x inner radius x tan(pi/2/buckets).
//! Intrinsic tilt 0 as in vg::gen_scanner.
json
blocks_scanner(Src& s, int buckets, int per_bucket, int rings, double bin, double ring_spacing)
{
  json j;
  j["type"] = -1;
  j["ndet"] = buckets * per_bucket;
  j["rings"] = rings;
  const int a = s.pick(vg::divisors(per_bucket));
  const int b = per_bucket / a;
  j["tr_cryst_per_block"] = a;
  j["tr_blocks_per_bucket"] = b;
  const int d = s.pick(vg::divisors(rings));
  j["ax_cryst_per_block"] = d;
  j["ax_blocks_per_bucket"] = rings / d;
  j["singles_units"] = s.coin() ? 1 : 0;
  j["max_tang"] = buckets * per_bucket - 1;
  j["geometry"] = "BlocksOnCylindrical";
  j["ax_crystal_spacing"] = ring_spacing;
  j["tr_crystal_spacing"] = bin;
  j["block_gap_ax"] = s.coin() ? 0. : s.nice_real(0., 0.3) * ring_spacing;
  j["block_gap_tr"] = s.coin() ? 0. : s.nice_real(0., 0.3) * bin;
  // closed polygon: side = 2 R tan(pi/buckets); up to 1.3 times further out (gaps between the buckets; the bound of
  // check_consistency is side >= 2 R tan(pi/(2 buckets)), i.e. R up to >= 2 times the closed radius for >= 3 buckets)
  const double side = (bin * a + j["block_gap_tr"].get<double>()) * b;
  const double closed = side / (2. * std::tan(3.14159265358979323846 / buckets));
  j["radius"] = std::max(1., std::floor(0.999 * closed * s.pick(std::vector<double>{ 1., 1., 1.3 }) * 4.) / 4.);
  j["doi"] = s.coin() ? 0. : s.nice_real(0., 5.);
  j["ring_spacing"] = ring_spacing;
  j["bin_size"] = bin * s.pick(std::vector<double>{ 1., 1., 0.8, 1.25 });
  j["tilt"] = 0.;
  j["tof_poss"] = 0;
  return j;
}

//! generator side: the template is accepted by STIR (construction, set_template_proj_data_info, downsample_scanner: the
//! down-sampled blocks scanner must pass Scanner::check_consistency again) and every LOR of the template the simulation
//! works with enters both crystals from the front (front_entry_ok)
bool
blocks_template_usable(const json& t)
{
  try
    {
      vg::quiet();
      const Tmpl T = make_tmpl(t);
      if (T.pdi->get_scanner_ptr()->check_consistency() != Succeeded::yes)
        return false;
      SingleScatterSimulation h;
      apply_tmpl(h, T);
      const ProjDataInfo& eff = *h.get_template_proj_data_info_sptr();
      const bool eff_blocks = is_blocks(&eff);
      const bool ok = eff_blocks && (no_exclude("F8") || front_entry_ok(eff, MIN_FRONT_COS));
      if (std::getenv("VERIF_C16_DEBUG"))
        std::cerr << "usable? blocks " << eff_blocks << " ok " << ok << " tang " << eff.get_num_tangential_poss() << " " << t["scanner"].dump() << "\n";
      return ok;
    }
  catch (const std::runtime_error& e)
    {
      if (std::getenv("VERIF_C16_DEBUG"))
        std::cerr << "usable? exception " << e.what() << "\n";
      return false;
    }
}

//! (buckets, crystals per bucket) of the small blocks scanners; >= 3 crystals per bucket: crystals at DIFFERENT distances
//! from the axis, so that the incidence cosines at the two ends of an LOR differ (with 1 or 2 crystals per bucket all
//! crystals lie on one circle and every chord meets both ends at the same angle, as on a cylinder)
const int BLOCK_SHAPES[][2] = { { 4, 3 }, { 4, 4 }, { 3, 4 }, { 4, 3 }, { 6, 3 }, { 3, 6 }, { 5, 4 }, { 4, 5 }, { 4, 2 }, { 8, 1 }, { 6, 2 } };

//! a BlocksOnCylindrical template (direct or down-sampled by the simulation); false: none found, make a cylindrical one
bool
gen_blocks_template(Src& s, json& t, int rings, double bin, double axial_len)
{
  const int shape = int(s.range(0, g_fixed_geometry == 1 ? 7 : 10));
  const int buckets = BLOCK_SHAPES[shape][0], per_bucket = BLOCK_SHAPES[shape][1];
  const int ndet = buckets * per_bucket;
  // downsample_scanner (blocks branch): new_ring_spacing = scanner_length / (new_num_rings - 1) and
  // new_det_spacing = transaxial_bucket_width / (new_transaxial_dets_per_bucket - 1): >= 2 rings and >= 2 crystals per bucket
  const bool down = rings >= 2 && per_bucket >= 2 && s.chance(1, 3) && g_fixed_geometry != 1;
  t = json::object();
  t["eres"] = 0.15; // (overwritten by gen(); make_tmpl needs them)
  t["eref"] = 511.;
  if (!down)
    {
      t["kind"] = "direct";
      t["scanner"] = blocks_scanner(s, buckets, per_bucket, rings, bin, axial_len / rings);
      const int max_delta = s.chance(3, 4) ? rings - 1 : int(s.range(0, rings - 1));
      // largest tangential size whose LORs all enter from the front, then any size up to it
      int tang_ok = 0;
      for (int tang = ndet - 1; tang >= 2 && tang_ok == 0; --tang)
        {
          t["pdi"] = { { "span", 1 }, { "max_delta", 0 }, { "views", ndet / 2 }, { "tang", tang },
                       { "arccorr", false }, { "tof_mash", 0 }, { "trim", json::object() } };
          if (blocks_template_usable(t))
            tang_ok = tang;
        }
      if (tang_ok == 0)
        return false;
      t["pdi"]["tang"] = s.chance(1, 2) ? tang_ok : int(s.range(2, tang_ok));
      t["pdi"]["max_delta"] = max_delta;
      return true;
    }
  // a larger blocks scanner with the same buckets, reduced by downsample_scanner(rings, ndet); span 1 only: blocks data with
  // axial compression are outside what the LOR code supports (C01-H1 / C04: "does not work for data with axial compression")
  t["kind"] = "down";
  const int big_per_bucket = per_bucket * int(s.range(1, 2));
  const int big_rings = rings * int(s.range(1, 2));
  const int big_ndet = buckets * big_per_bucket;
  t["scanner"] = blocks_scanner(s, buckets, big_per_bucket, big_rings, bin * per_bucket / big_per_bucket, axial_len / big_rings);
  t["new_rings"] = rings;
  t["new_dets"] = ndet;
  const int max_delta = s.chance(1, 4) ? 0 : int(s.range(0, big_rings - 1));
  for (int tang = big_ndet - 1; tang >= 2; --tang)
    {
      // downsample_scanner: new max tangential bins = ceil(tang*new_dets/old_dets)+1, must stay <= new_dets-1 (distinct detectors)
      if (int(std::ceil(double(tang) * ndet / big_ndet)) + 1 > ndet - 1)
        continue;
      t["pdi"] = { { "span", 1 }, { "max_delta", 0 }, { "views", big_ndet / 2 }, { "tang", tang },
                   { "arccorr", false }, { "tof_mash", 0 }, { "trim", json::object() } };
      if (blocks_template_usable(t))
        {
          if (s.coin() && tang > 2)
            {
              const int smaller = int(s.range(2, tang)); // fewer bins of the big template give fewer (or as many) after the reduction
              t["pdi"]["tang"] = smaller;
            }
          t["pdi"]["max_delta"] = max_delta;
          return true;
        }
    }
  return false;
}

//! (planes-1) x plane spacing of the image downsample_images_to_scanner_size makes for a template (VoxelsOnCartesianGrid of
//! the template the simulation works with)
double
template_image_length(const json& t)
{
  vg::quiet();
  const Tmpl T = make_tmpl(t);
  SingleScatterSimulation h;
  apply_tmpl(h, T);
  GeomAssertsOff off(is_blocks(h.get_template_proj_data_info_sptr().get()));
  const Image im(*h.get_template_proj_data_info_sptr());
  return double(im.get_z_size() - 1) * im.get_voxel_size().z();
}

json
gen(Src& s, int size)
{
  json c;
  const double bin = s.nice_real(6., 24.); // detector pitch (mm) of all templates of the case
  const double axial_len = s.nice_real(30., 120.);
  c["thr"] = s.pick(std::vector<double>{ 0.01, 0.01, 0.005, 0.03, 0.06 });
  const double thr = c["thr"];
  // ---- templates ----
  const int nt = int(s.range(1, 3));
  double r_min = 1e9;
  json templates = json::array();
  for (int k = 0; k < nt; ++k)
    {
      json t;
      const int ndet = 2 * int(s.range(2, 8)); // 4..16
      const int rings = int(s.pick(std::vector<int>{ 1, 2, 2, 2, 3, 3, 3, 3 }));
      const double ring_spacing = axial_len / rings;
      // fifth session: 2 templates in 5 are BlocksOnCylindrical (set_template_proj_data_info accepts
      // ProjDataInfoBlocksOnCylindricalNoArcCorr and ProjDataInfoCylindricalNoArcCorr: "Can only handle non-arccorrected data")
      const bool want_blocks = s.chance(2, 5);
      if ((g_fixed_geometry < 0 ? want_blocks : (g_fixed_geometry == 1 && k == 0)) && gen_blocks_template(s, t, rings, bin, axial_len))
        {
          r_min = std::min(r_min, t["scanner"]["radius"].get<double>());
          stats().count(cat("generator: blocks template (", t["kind"].get<std::string>(), ")"));
        }
      else if (s.chance(2, 3))
        {
          t = json::object();
          t["kind"] = "direct";
          t["scanner"] = small_scanner(s, ndet, rings, bin, ring_spacing);
          const int tang = int(s.range(2, ndet - 1));
          const int max_delta = s.chance(3, 4) ? rings - 1 : int(s.range(0, rings - 1));
          t["pdi"] = { { "span", 1 }, { "max_delta", max_delta }, { "views", ndet / 2 }, { "tang", tang },
                       { "arccorr", false }, { "tof_mash", 0 }, { "trim", json::object() } };
          r_min = std::min(r_min, t["scanner"]["radius"].get<double>());
        }
      else
        {
          // a larger scanner, down-sampled by the simulation itself to new_rings x new_dets
          t = json::object();
          t["kind"] = "down";
          const int big_ndet = ndet * int(s.range(1, 3));
          const int big_rings = rings * int(s.range(1, 3));
          // same ring radius as a direct scanner with ndet detectors of pitch `bin`
          t["scanner"] = small_scanner(s, big_ndet, big_rings, bin * ndet / big_ndet, axial_len / big_rings);
          // downsample_scanner: new max tangential bins = ceil(tang*new_dets/old_dets)+1, must stay <= new_dets-1 (distinct detectors)
          int tang_max = 2;
          for (int tg = 2; tg <= big_ndet - 1; ++tg)
            if (int(std::ceil(double(tg) * ndet / big_ndet)) + 1 <= ndet - 1)
              tang_max = tg;
          const int tang = int(s.range(2, tang_max));
          int span = 1;
          if (big_rings > 1 && s.chance(1, 3))
            span = 2 * int(s.range(1, std::min(2, big_rings - 1))) + 1; // 3 or 5 (<= 2*rings-1)
          const int min_delta = span / 2;
          const int max_delta = s.chance(1, 4) ? min_delta : int(s.range(min_delta, big_rings - 1));
          t["pdi"] = { { "span", span }, { "max_delta", max_delta }, { "views", big_ndet / 2 }, { "tang", tang },
                       { "arccorr", false }, { "tof_mash", 0 }, { "trim", json::object() } };
          t["new_rings"] = rings;
          t["new_dets"] = ndet;
          r_min = std::min(r_min, t["scanner"]["radius"].get<double>());
        }
      t["eres"] = s.pick(std::vector<double>{ 0.1, 0.15, 0.22, 0.34 });
      t["eref"] = s.chance(3, 4) ? 511. : s.pick(std::vector<double>{ 400., 662. });
      templates.push_back(t);
    }
  c["templates"] = templates;
  // ---- energy windows ----
  const int ne = int(s.range(1, 3));
  json exams = json::array();
  for (int k = 0; k < ne; ++k)
    exams.push_back({ { "low", s.pick(std::vector<double>{ 350., 400., 425., 450., 480. }) },
                      { "high", s.pick(std::vector<double>{ 540., 600., 650., 700. }) } });
  c["exams"] = exams;
  // ---- images: inside the smallest detector ring ----
  const double extent = r_min * s.pick(std::vector<double>{ 0.6, 0.9, 1.1 });
  double L = axial_len * s.pick(std::vector<double>{ 0.5, 0.8, 1., 1.3 });
  // half of the cases: the images have the axial extent of the image downsample_images_to_scanner_size makes for the
  // first template, (2*rings-1 planes of ring_spacing/2), so that pool images and down-sampled images can be mixed
  // (check_z_to_middle_consistent)
  {
    const int r0 = tmpl_rings(templates[0]);
    if (r0 >= 2 && s.coin())
      L = templates[0]["scanner"]["geometry"] == "BlocksOnCylindrical" ? template_image_length(templates[0])
                                                                         : axial_len * double(r0 - 1) / double(r0);
  }
  const int att_nz = int(s.range(3, 9)); // shared by all attenuation images (zoom_z compatibility)
  json acts = json::array(), atts = json::array();
  const int na = int(s.range(1, 3)), nm = int(s.range(1, 3));
  for (int k = 0; k < na; ++k)
    acts.push_back(gen_image_spec(s, extent, L, int(s.range(3, 9)), false, thr));
  for (int k = 0; k < nm; ++k)
    atts.push_back(gen_image_spec(s, extent, L, att_nz, true, thr));
  c["acts"] = acts;
  c["atts"] = atts;
  if (s.chance(1, 3))
    c["auto_zoom"] = { { "zxy", 0.3 + 0.1 * double(s.range(0, 9)) }, { "new_z", int(s.range(0, 20)) }, { "sxy", int(s.pick(std::vector<int>{ -1, -1, 3, 5 })) } };
  else
    c["auto_zoom"] = nullptr;
  c["lin"] = { { "seed", s.seed64() },
               { "a", s.pick(std::vector<double>{ 1., 2., 0.5, 0.3, 3.5, -1. }) },
               { "b", s.pick(std::vector<double>{ 1., 0.25, 4., 1.7, -0.5 }) } };
  // ---- history ----
  json ops = json::array();
  auto arg = [&]() { return int(s.range(0, 999)); };
  auto push = [&](int code) { ops.push_back({ code, arg(), arg(), arg(), arg() }); };
  if (s.chance(1, 6))
    {
      // the history object is constructed from a parameter file (complete configuration)
      json st = { { "tmpl", arg() }, { "exam", arg() }, { "act", arg() }, { "att", arg() }, { "cache", s.coin() }, { "outfile", s.coin() } };
      if (s.coin())
        st["sp"] = { arg(), arg(), arg(), arg() };
      else
        st["sp"] = nullptr;
      c["start"] = st;
      if (s.coin())
        push(PROCESS);
    }
  else if (s.chance(19, 20))
    {
      // start by a complete configuration in a random order
      std::vector<int> first = { SET_ACT, SET_ATT, SET_TMPL, SET_EXAM };
      for (int k = 3; k > 0; --k)
        std::swap(first[std::size_t(k)], first[std::size_t(s.range(0, k))]);
      for (int code : first)
        {
          if (s.chance(1, 8))
            code = code == SET_ACT ? SET_ACT_FILE : code == SET_ATT ? SET_ATT_FILE : code == SET_TMPL ? SET_TMPL_FILE : SET_EXAM_SPTR;
          push(code);
        }
      if (s.coin())
        push(PROCESS);
    }
  const int len = 4 + int(s.range(0, std::max(4, size / 3)));
  int n_process = 0;
  // cumulative weights (per cent)
  static const int W[N_OPS] = { /*SET_ACT*/ 8, /*SET_ATT*/ 8, /*SET_SP*/ 9, /*SET_TMPL*/ 8, /*SET_EXAM*/ 5, /*SET_CACHE*/ 4, /*SET_UP*/ 7,
                                /*PROCESS*/ 18, /*SET_THR*/ 4, /*SET_ZOOM*/ 3, /*DOWNSAMPLE_IMAGES*/ 5, /*DOWNSAMPLE_SP*/ 4,
                                /*SET_CACHE_ENABLED*/ 3, /*SET_EXAM_SPTR*/ 2, /*SET_ACT_FILE*/ 2, /*SET_ATT_FILE*/ 2, /*SET_SP_FILE*/ 2,
                                /*SET_TMPL_FILE*/ 2, /*EVAL_BINS*/ 4 };
  for (int k = 0; k < len; ++k)
    {
      int w = int(s.range(0, 99));
      int code = 0;
      while (code < N_OPS - 1 && w >= W[code])
        w -= W[code++];
      if ((code == PROCESS || code == EVAL_BINS) && ++n_process > 5)
        code = SET_ACT;
      push(code);
      // motifs that keep line-integral caches alive across an event: a computation, ONE event, a computation
      if (code == PROCESS && s.chance(1, 4) && n_process < 5)
        {
          ++n_process;
          switch (int(s.range(0, 3)))
            {
            case 0: push(DOWNSAMPLE_IMAGES); break;
            case 1: push(SET_ACT); break;
            case 2: push(SET_THR); break;
            default: push(s.coin() ? SET_CACHE_ENABLED : SET_EXAM_SPTR); break;
            }
          push(s.coin() ? EVAL_BINS : PROCESS);
        }
      else if (code == PROCESS && s.chance(1, 8) && n_process < 5)
        {
          // a change while the cache is switched off, then on again
          ++n_process;
          ops.push_back({ s.coin() ? int(SET_CACHE_ENABLED) : int(SET_CACHE), 0, arg(), arg(), arg() });
          push(s.pick(std::vector<int>{ SET_ACT, SET_ACT, SET_ACT_FILE, DOWNSAMPLE_IMAGES, SET_EXAM }));
          ops.push_back({ s.coin() ? int(SET_CACHE_ENABLED) : int(SET_CACHE), 1, arg(), arg(), arg() });
          push(s.coin() ? EVAL_BINS : PROCESS);
        }
    }
  if (s.chance(2, 3))
    push(PROCESS);
  c["ops"] = ops;
  avoid_known_findings(c, s);
  return c;
}

// non-trivial: >= 2 effective setters between two effective process_data calls, and a template with >= 2 rings
// (detector pairs in different rings exist) used at some point
bool
nontrivial(const json& c)
{
  const Plan plan = make_plan(c);
  bool had_process = false, two_setters = false, oblique = false;
  int setters = 0;
  for (const Step& st : plan.steps)
    {
      if (!st.effective)
        continue;
      if (is_setter(st.code))
        ++setters;
      else if (st.code == PROCESS)
        {
          if (had_process && setters >= 2)
            two_setters = true;
          had_process = true;
          setters = 0;
          const json& t = c["templates"][std::size_t(st.tmpl)];
          const int rings = tmpl_rings(t);
          const int md = t["pdi"]["max_delta"].get<int>();
          // downsample_scanner: all ring differences if the original template has more than one segment, else none
          const int span = t["pdi"]["span"].get<int>();
          if (rings >= 2 && (t["kind"] == "down" ? md > span / 2 : md >= 1))
            oblique = true;
        }
    }
  return two_setters && oblique;
}

// ---- fixed cases: the sequences that keep caches / detector numbering alive across ONE event, always run -----------
//  A  explicit scatter-point image; process_data; downsample_images_to_scanner_size; process_data   (cache on)
//  B  process_data; set_activity_image_sptr; scatter_estimate(bin) in the REVERSE order; process_data
//  C  process_data; set_attenuation_threshold(same value); per-bin; set_cache_enabled(off); set_activity_image_sptr;
//     set_cache_enabled(on); per-bin; process_data
//  D  parameter-file start; process_data; set_activity_image(filename); per-bin evaluation of a subset; process_data
std::vector<json>
fixed_cases(int)
{
  std::vector<json> v;
  for (int which = 0; which < 4; ++which)
    for (int variant = 0; variant < 2; ++variant)
      {
        json c;
        for (uint64_t seed = 1 + uint64_t(variant) * 1000;; ++seed)
          {
            PrngSrc s(seed * 7919 + uint64_t(which));
            g_fixed_geometry = variant;
            c = gen(s, 30);
            g_fixed_geometry = -1;
            const json& t0 = c["templates"][0];
            const int r0 = tmpl_rings(t0);
            const double axial = t0["scanner"]["ring_spacing"].get<double>() * t0["scanner"]["rings"].get<double>();
            const double L = c["atts"][0]["vz"].get<double>() * (c["atts"][0]["nz"].get<int>() - 1);
            // two or more rings, images of the axial extent of the template image, default zoom settings;
            // fifth session: the second variant of every sequence runs on a BlocksOnCylindrical template with >= 3 crystals per bucket
            const bool blocks0 = t0["scanner"]["geometry"] == "BlocksOnCylindrical";
            if (blocks0 != (variant == 1))
              continue;
            const double Lt = blocks0 ? template_image_length(t0) : axial * (r0 - 1) / r0;
            if (r0 >= 2 && std::fabs(L - Lt) < 1e-3 * L && !c["auto_zoom"].is_object() && c["thr"].get<double>() == 0.01 && c["acts"].size() >= 2)
              break;
          }
        c.erase("start");
        json ops = json::array();
        const json cfg = { json::array({ int(SET_EXAM), 0, 0, 0, 0 }), json::array({ int(SET_TMPL), 0, 0, 1, 0 }),
                           json::array({ int(SET_ACT), 0, 0, 0, 0 }), json::array({ int(SET_ATT), 0, 0, 0, 0 }),
                           json::array({ int(SET_CACHE), 1, 0, 0, 0 }), json::array({ int(SET_SP), 0, 1 + variant, 1, 7 + variant }) };
        switch (which)
          {
          case 0:
            for (auto& o : cfg)
              ops.push_back(o);
            ops.push_back({ int(PROCESS), 0, 0, 0, 0 });
            ops.push_back({ int(DOWNSAMPLE_IMAGES), 0, 0, 0, 0 });
            ops.push_back({ int(PROCESS), 0, variant ? 3 : 0, 0, 0 });
            break;
          case 1:
            for (auto& o : cfg)
              ops.push_back(o);
            ops.push_back({ int(PROCESS), 0, 0, 0, 0 });
            ops.push_back({ int(SET_ACT), 1, 0, 0, 0 });
            ops.push_back({ int(EVAL_BINS), 5, 7, variant ? 3 : 0, 0 }); // 0: reverse order, 3: generated permutation
            ops.push_back({ int(PROCESS), 0, 2, 1, 0 });
            break;
          case 2:
            for (auto& o : cfg)
              ops.push_back(o);
            ops.push_back({ int(PROCESS), 0, 4, 0, 0 });
            ops.push_back({ int(SET_THR), 0, 0, 0, 0 }); // THR_VALUES[0] == 0.01 == c["thr"]
            ops.push_back({ int(EVAL_BINS), 2, 5, 3, 0 });
            ops.push_back({ int(SET_CACHE_ENABLED), 0, 0, 0, 0 });
            ops.push_back({ int(SET_ACT), 1, 0, 0, 0 }); // while the cache is off
            ops.push_back({ int(SET_CACHE_ENABLED), 1, 0, 0, 0 });
            ops.push_back({ int(EVAL_BINS), 11, 3, 1, 0 });
            ops.push_back({ int(PROCESS), 0, 5, 1, 0 });
            break;
          default:
            c["start"] = { { "tmpl", 0 }, { "exam", 0 }, { "act", 0 }, { "att", 0 }, { "cache", true }, { "outfile", variant == 1 } };
            c["start"]["sp"] = json::array({ 0, 2, 1, 5 });
            ops.push_back({ int(PROCESS), 0, 6, 0, 0 });
            ops.push_back({ int(SET_ACT_FILE), 1, 0, 0, 0 });
            ops.push_back({ int(EVAL_BINS), 3, 9, 2, 5 });
            ops.push_back({ int(PROCESS), 0, 3, 1, 0 });
            break;
          }
        c["ops"] = ops;
        v.push_back(c);
      }
  return v;
}

} // namespace

const Property&
the_property()
{
  static Property p;
  p.id = "C16";
  p.gen = gen;
  p.check = check;
  p.nontrivial = nontrivial;
  p.shrink_lists = { "ops" };
  p.known_signature = known_signature;
  p.fixed_cases = fixed_cases;
  return p;
}

// C16 — single-scatter simulation: symmetric, linear, cache independent, history independent.
//
// A case = pools of templates / energy windows / activity images / attenuation images and a history of
// setter / set_up / process_data events on ONE SingleScatterSimulation object ("H").  After every
// process_data the output is compared with a FRESHLY constructed object that is given the settings that are
// current at that moment (model "M" kept by the interpreter); on the outputs: exchange symmetry over all
// detector pairs, non-negativity; at the end of the history: cache on == cache off, linearity in the
// activity image, zero activity -> exactly zero.
//
// Exchange clause: a detector pair and the exchanged pair are the same LOR and the same bin (C01), so the exchange is made
// in the protected per-pair function actual_scatter_estimate(result, A, B) (harness-side subclass `Sim`), for the pair that
// find_detectors reports for every bin; the stored bin value must equal estimate(A,B).
//
// Known finding (probe in known/C16/): known_signature() classifies a history on the JSON alone (F4 repeated automatic
// scatter-point down-sampling) and such a case is rejected before it runs; the GENERATOR rewrites its histories so that they
// stay outside this class (explicit scatter-point image before the set_up) and the search goes on behind it.
// VERIF_NO_EXCLUDE=1 (or =F4) switches classification and rewriting off.
// Repaired in /repo and part of the normal search again (regression inputs replays/C16/fixed_*.json): F1 stale 511 keV
// efficiency after an energy-window change, F3 NaN from the automatic scatter-point image of single-ring scanners.
// F2 (debug self check of set_up that reads 0 < 0 for single-ring templates) was no violation of the property: see set_up_obj().
//
// Preconditions taken from the code (ScatterSimulation.cxx unless said otherwise):
//  * set_up(): error() unless template, exam info (with energy window, ExamInfo::has_energy_information:
//    both thresholds > 0), scanner energy resolution + reference energy (> 0), activity and attenuation image are set.
//  * set_template_proj_data_info(): "Can only handle non-arccorrected data"; the simulation looks up ONE detector
//    pair per bin (find_detectors), so templates are span 1, no view mashing (DESIGN C16), non-TOF.
//  * check_z_to_middle_consistent(): (min_z+max_z)*voxel_size_z/2 of attenuation / scatter-point image must agree
//    with the activity image within 0.1 mm -> all images of a case share (nz-1)*vz.
//  * downsample_density_image_for_scatter_points(): error() if zoom_z>0 and |(new_z-1)/(old_z-1) - zoom_z| > .1;
//    with a negative zoom the template must be set (it is dereferenced).  new_z >= 2 (new_z==1 gives zoom_z 0).
//  * process_data(): needs set_up() and an output ProjData with the template's ProjDataInfo.
//  * randomly_place_scatter_points=false (otherwise rand() seeded with time()).
#include "stir_gen.h"
#include "stir/scatter/SingleScatterSimulation.h"
#include "stir/ProjDataInMemory.h"
#include "stir/ProjDataInfoCylindricalNoArcCorr.h"
#include "stir/ExamInfo.h"
#include "stir/SegmentBySinogram.h"
#include "stir/Bin.h"
#include <map>
#include <tuple>
#include <cstdlib>

using namespace vf;
using namespace stir;

namespace {

const double TOL_FRESH = 1e-5; // history object vs fresh object (same arithmetic)
const double TOL_SYM = 1e-5;   // out[bin(A,B)] vs out[bin(B,A)]
const double TOL_LIN = 1e-4;   // linearity
const double TOL_CACHE = 1e-5; // cache on vs off

//! the exclusion of the known finding F4 is on by default;
//! VERIF_NO_EXCLUDE=1 (or "all", or a list containing F4) switches it off
bool
no_exclude(const char* id)
{
  static const char* e = std::getenv("VERIF_NO_EXCLUDE");
  if (!e)
    return false;
  const std::string v(e);
  if (v == "1" || v == "all" || v.empty())
    return true;
  return v.find(id) != std::string::npos;
}

enum Op
{
  SET_ACT = 0,
  SET_ATT = 1,
  SET_SP = 2,
  SET_TMPL = 3,
  SET_EXAM = 4,
  SET_CACHE = 5,
  SET_UP = 6,
  PROCESS = 7,
  N_OPS = 8
};

//! access to the per-detector-pair function (protected in STIR); behaviour unchanged
struct Sim : SingleScatterSimulation
{
  using SingleScatterSimulation::actual_scatter_estimate;
  using SingleScatterSimulation::find_detectors;
};

typedef VoxelsOnCartesianGrid<float> Image;
typedef std::tuple<int, int, int, int> BinKey; // seg, ax, view, tang
typedef std::map<BinKey, float> Out;

// ---- construction of the pooled objects ------------------------------------------------------------
shared_ptr<Image>
make_img(const json& j)
{
  const int nx = j["nx"], ny = j["ny"], nz = j["nz"];
  IndexRange3D range(0, nz - 1, -(ny / 2), -(ny / 2) + ny - 1, -(nx / 2), -(nx / 2) + nx - 1);
  shared_ptr<Image> im(new Image(range,
                                 CartesianCoordinate3D<float>(j["oz"].get<float>(), j["oy"].get<float>(), j["ox"].get<float>()),
                                 CartesianCoordinate3D<float>(j["vz"].get<float>(), j["vy"].get<float>(), j["vx"].get<float>())));
  SplitMix g(j["seed"].get<uint64_t>());
  const double lo = j["lo"], hi = j["hi"], p_low = j["p_low"], low_hi = j["low_hi"];
  for (auto it = im->begin_all(); it != im->end_all(); ++it)
    {
      const bool low = g.unit() < p_low;
      const double u = g.unit();
      *it = float(low ? low_hi * u : lo + (hi - lo) * u);
    }
  return im;
}

struct Tmpl
{
  shared_ptr<ProjDataInfo> pdi; // what is passed to set_template_proj_data_info
  bool down = false;
  int new_rings = 0, new_dets = 0;
};

Tmpl
make_tmpl(const json& j)
{
  Tmpl t;
  shared_ptr<Scanner> sc = vg::make_scanner(j["scanner"]);
  sc->set_energy_resolution(j["eres"].get<float>());
  sc->set_reference_energy(j["eref"].get<float>());
  t.pdi = vg::make_pdi(sc, j["pdi"]);
  t.down = j["kind"].get<std::string>() == "down";
  if (t.down)
    {
      t.new_rings = j["new_rings"];
      t.new_dets = j["new_dets"];
    }
  return t;
}

void
apply_tmpl(SingleScatterSimulation& s, const Tmpl& t)
{
  s.set_template_proj_data_info(*t.pdi);
  if (t.down)
    if (s.downsample_scanner(t.new_rings, t.new_dets) != Succeeded::yes)
      error("downsample_scanner returned Succeeded::no");
}

shared_ptr<ExamInfo>
make_exam(const json& j)
{
  shared_ptr<ExamInfo> e(new ExamInfo);
  e->imaging_modality = ImagingModality::PT;
  e->set_low_energy_thres(j["low"].get<float>());
  e->set_high_energy_thres(j["high"].get<float>());
  return e;
}

// recipe for an explicit scatter-point image: attenuation image index + zoom parameters
struct SpRecipe
{
  int att = -1;
  float zxy = 1, zz = 1;
  int sxy = -1, sz = -1;
  int tmpl = -1; // only needed when zz<0
};

struct Pools
{
  std::vector<Tmpl> tmpls;
  std::vector<shared_ptr<ExamInfo>> exams;
  std::vector<shared_ptr<Image>> acts, atts;
};

//! interpret the arguments of SET_SP modulo the state (always a valid call of downsample_density_image_for_scatter_points)
SpRecipe
decode_sp(const Pools& P, int a, int b, int c, int d, int cur_tmpl)
{
  SpRecipe r;
  r.att = a % int(P.atts.size());
  const int old_z = P.atts[r.att]->get_z_size();
  const int new_z = 2 + b % (old_z + 1); // 2 .. old_z+2
  r.zxy = 0.3F + 0.1F * float(d % 10);
  const int sv = (d / 10) % 4;
  r.sxy = sv < 2 ? -1 : (sv == 2 ? 3 : 5);
  const float adjusted = static_cast<float>(new_z - 1) / (old_z - 1); // what STIR will use in the end
  int variant = c % 3;
  if (variant == 0 && cur_tmpl < 0)
    variant = 1; // a negative zoom needs the template
  if (variant == 2)
    {
      // zoom_z given, size derived: new_z' = int(old_z*zoom_z+1); must reproduce new_z and stay within .1 of the adjusted zoom
      const float zz = (float(new_z) - 0.5F) / float(old_z);
      const int nz2 = static_cast<int>(old_z * zz + 1);
      const float adj2 = static_cast<float>(nz2 - 1) / (old_z - 1);
      if (nz2 >= 2 && std::fabs(adj2 - zz) < 0.08F)
        {
          r.zz = zz;
          r.sz = -1;
          return r;
        }
      variant = 1;
    }
  if (variant == 0)
    {
      r.zz = -1.F;
      r.sz = new_z;
      r.tmpl = cur_tmpl;
    }
  else
    {
      // slightly perturbed zoom with explicit size (tolerated up to .1 by STIR)
      r.zz = adjusted + 0.01F * float((c / 3) % 5);
      r.sz = new_z;
    }
  return r;
}

shared_ptr<const DiscretisedDensity<3, float>>
make_sp(const Pools& P, const SpRecipe& r)
{
  SingleScatterSimulation h;
  h.set_randomly_place_scatter_points(false);
  if (r.tmpl >= 0)
    apply_tmpl(h, P.tmpls[r.tmpl]);
  h.set_density_image_sptr(P.atts[r.att]);
  h.downsample_density_image_for_scatter_points(r.zxy, r.zz, r.sxy, r.sz);
  // deep copy: the helper object dies
  shared_ptr<const DiscretisedDensity<3, float>> img(h.get_density_image_for_scatter_points_sptr()->clone());
  return img;
}

// ---- model of the current settings -------------------------------------------------------------------
struct Model
{
  int tmpl = -1, exam = -1, act = -1, att = -1;
  bool sp_set = false;
  SpRecipe sp;
  bool use_cache = true;
  bool dirty = true;
  bool complete() const { return tmpl >= 0 && exam >= 0 && act >= 0 && att >= 0; }
};

struct Settings
{
  float thr;
  bool explicit_zoom = false;
  float zxy = -1, zz = -1;
  int sxy = -1, sz = -1;
};

void
init_obj(SingleScatterSimulation& s, const Settings& st)
{
  s.set_attenuation_threshold(st.thr);
  s.set_randomly_place_scatter_points(false);
  if (st.explicit_zoom)
    s.set_image_downsample_factors(st.zxy, st.zz, st.sxy, st.sz);
}

shared_ptr<ProjDataInMemory>
new_output(const SingleScatterSimulation& s)
{
  shared_ptr<ProjDataInMemory> out(
      new ProjDataInMemory(s.get_exam_info_sptr(), s.get_template_proj_data_info_sptr()->create_shared_clone()));
  out->fill(-1.F); // every bin must be written
  return out;
}

Out
read_out(const ProjData& pd)
{
  Out o;
  for (int s = pd.get_min_segment_num(); s <= pd.get_max_segment_num(); ++s)
    {
      const SegmentBySinogram<float> seg = pd.get_segment_by_sinogram(s);
      for (int a = seg.get_min_axial_pos_num(); a <= seg.get_max_axial_pos_num(); ++a)
        for (int v = seg.get_min_view_num(); v <= seg.get_max_view_num(); ++v)
          for (int t = seg.get_min_tangential_pos_num(); t <= seg.get_max_tangential_pos_num(); ++t)
            o[BinKey(s, a, v, t)] = seg[a][v][t];
    }
  return o;
}

double
max_abs(const Out& o)
{
  double m = 0;
  for (auto& kv : o)
    m = std::max(m, double(std::fabs(kv.second)));
  return m;
}

//! fresh object configured from the model, set up and run
struct Fresh
{
  shared_ptr<Sim> s;
  shared_ptr<ProjDataInMemory> out;
};

Fresh
configure_fresh(const Pools& P, const Settings& st, const Model& M, bool use_cache, shared_ptr<const DiscretisedDensity<3, float>> act)
{
  Fresh f;
  f.s.reset(new Sim);
  init_obj(*f.s, st);
  f.s->set_use_cache(use_cache);
  f.s->set_exam_info(*P.exams[M.exam]);
  apply_tmpl(*f.s, P.tmpls[M.tmpl]);
  f.s->set_activity_image_sptr(act);
  f.s->set_density_image_sptr(P.atts[M.att]);
  if (M.sp_set)
    f.s->set_density_image_for_scatter_points_sptr(make_sp(P, M.sp));
  return f;
}

//! set_up().  For a single-ring template ScatterSimulation::set_up's debug-only self check of the axial coordinate convention,
//! assert(fabs(m_last + m_first) < m_last * 10E-4), reads 0 < 0 (get_m of the only ring is 0): the assertion says nothing
//! about such a template, builds with NDEBUG are not affected and no clause of the property depends on it.  The property is
//! therefore decided on what set_up does without its internal assertions for these templates (outputs are still compared
//! with the fresh object, checked for finite / non-negative values etc.; process_data runs with assertions on).
Succeeded
set_up_obj(SingleScatterSimulation& s)
{
  const bool single_ring = s.has_template_proj_data_info() && s.get_template_proj_data_info_sptr()->get_scanner_ptr()->get_num_rings() == 1;
  if (!single_ring)
    return s.set_up();
  stats().count("set_up with a single-ring template (internal assertions off)");
  struct AssertsOff
  {
    AssertsOff() { stir_verif::asserts_on = false; }
    ~AssertsOff() { stir_verif::asserts_on = true; }
  } off;
  return s.set_up();
}

Result
run(SingleScatterSimulation& s, shared_ptr<ProjDataInMemory>& out_pd, Out& out, const char* who)
{
  out_pd = new_output(s);
  s.set_output_proj_data_sptr(out_pd);
  const Succeeded ok = s.process_data();
  VF_CHECK(ok == Succeeded::yes, who, ": process_data returned Succeeded::no");
  out = read_out(*out_pd);
  return Result::pass();
}

//! max |a-b| relative to scale; keys must agree
Result
compare(const Out& got, const Out& ref, double scale, double tol, const std::string& what, const char* stat)
{
  VF_CHECK(got.size() == ref.size(), what, ": different number of bins ", got.size(), " vs ", ref.size());
  double worst = 0;
  BinKey wk;
  for (auto& kv : ref)
    {
      auto it = got.find(kv.first);
      VF_CHECK(it != got.end(), what, ": bin missing");
      const double d = std::fabs(double(it->second) - double(kv.second));
      if (!(d <= worst))
        {
          worst = d;
          wk = kv.first;
        }
    }
  if (scale > 0)
    stats().maxi(stat, worst / scale);
  if (!(worst <= tol * scale))
    return Result::fail(cat(what, ": max difference ", worst, " (", scale > 0 ? worst / scale : 0., " of max |reference| ", scale, ") at bin(seg ",
                            std::get<0>(wk), ", ax ", std::get<1>(wk), ", view ", std::get<2>(wk), ", tang ", std::get<3>(wk), ") got ",
                            got.at(wk), " reference ", ref.at(wk)));
  return Result::pass();
}

//! out >= 0 and finite; estimate(A,B) == estimate(B,A) for the detector pair of every bin (all detector pairs of the
//! down-sampled scanner that the template contains).
//! Note: a detector pair and the exchanged pair are the SAME line of response and map to the SAME bin (C01 exchange law),
//! so the exchange is made where the simulation makes the distinction: in the per-pair function
//! actual_scatter_estimate(result, det_num_A, det_num_B) that process_data evaluates for find_detectors(bin).
Result
check_output(Sim& s, const Out& out, bool nonneg_activity)
{
  for (auto& kv : out)
    {
      VF_CHECK(std::isfinite(kv.second), "output not finite at bin(seg ", std::get<0>(kv.first), ", ax ", std::get<1>(kv.first), ", view ",
               std::get<2>(kv.first), ", tang ", std::get<3>(kv.first), "): ", kv.second);
      if (nonneg_activity)
        VF_CHECK(kv.second >= 0.F, "negative output ", kv.second, " at bin(seg ", std::get<0>(kv.first), ", ax ", std::get<1>(kv.first), ", view ",
                 std::get<2>(kv.first), ", tang ", std::get<3>(kv.first), ")");
    }
  const double scale = max_abs(out);
  long pairs = 0, oblique = 0;
  double worst = 0, worst_direct = 0;
  std::map<std::pair<unsigned, unsigned>, BinKey> seen; // unordered detector pair -> bin: one bin per pair
  for (auto& kv : out)
    {
      const BinKey& k = kv.first;
      const Bin bin(std::get<0>(k), std::get<2>(k), std::get<1>(k), std::get<3>(k));
      unsigned A = 0, B = 0;
      s.find_detectors(A, B, bin);
      VF_CHECK(A != B, "bin(seg ", std::get<0>(k), ", ax ", std::get<1>(k), ", view ", std::get<2>(k), ", tang ", std::get<3>(k),
               ") connects a detector with itself");
      VF_CHECK(seen.insert(std::make_pair(std::make_pair(std::min(A, B), std::max(A, B)), k)).second, "two bins of a span-1 template share detector pair ",
               A, ",", B);
      double ab = 0, ba = 0;
      s.actual_scatter_estimate(ab, A, B);
      s.actual_scatter_estimate(ba, B, A);
      ++pairs;
      if (std::get<0>(k) != 0)
        ++oblique;
      worst_direct = std::max(worst_direct, std::fabs(double(float(ab)) - double(kv.second)));
      VF_CHECK(std::fabs(double(float(ab)) - double(kv.second)) <= 1e-6 * scale, "process_data stored ", kv.second, " for bin(seg ", std::get<0>(k), ", ax ",
               std::get<1>(k), ", view ", std::get<2>(k), ", tang ", std::get<3>(k), ") but the estimate for its detector pair is ", ab);
      const double d = std::fabs(ab - ba);
      worst = std::max(worst, d);
      if (ab != ba)
        stats().count("detector pairs with estimate(A,B) != estimate(B,A) in the last bits");
      if (!(d <= TOL_SYM * scale))
        return Result::fail(cat("exchange symmetry: bin(seg ", std::get<0>(k), ", ax ", std::get<1>(k), ", view ", std::get<2>(k), ", tang ", std::get<3>(k),
                                ") detectors A=", A, " B=", B, ": estimate(A,B) = ", ab, " but estimate(B,A) = ", ba, " (max |out| ", scale, ")"));
    }
  stats().count("detector pairs compared", pairs);
  stats().count("detector pairs in different rings", oblique);
  if (scale > 0)
    {
      stats().maxi("max rel err exchange symmetry", worst / scale);
      stats().maxi("max rel err process_data vs per-pair estimate", worst_direct / scale);
    }
  return Result::pass();
}

bool
same_grid(const json& a, const json& b)
{
  for (const char* k : { "nx", "ny", "nz", "vx", "vy", "vz" })
    if (a[k] != b[k])
      return false;
  return true;
}

// ---- the property ------------------------------------------------------------------------------------
Result
check(const json& c)
{
  vg::quiet();
  Pools P;
  Settings st;
  try
    {
      for (auto& j : c["templates"])
        {
          P.tmpls.push_back(make_tmpl(j));
          // the generator only makes consistent scanners
          if (P.tmpls.back().pdi->get_scanner_ptr()->check_consistency() != Succeeded::yes)
            return Result::reject("scanner inconsistent");
        }
      for (auto& j : c["exams"])
        P.exams.push_back(make_exam(j));
      for (auto& j : c["acts"])
        P.acts.push_back(make_img(j));
      for (auto& j : c["atts"])
        P.atts.push_back(make_img(j));
    }
  catch (const std::runtime_error& e)
    {
      return Result::reject(std::string("construction rejected: ") + e.what());
    }
  st.thr = c["thr"].get<float>();
  if (c["auto_zoom"].is_object())
    {
      // explicit factors for the automatic down-sampling in set_up: exact for the (shared) number of attenuation planes
      const json& z = c["auto_zoom"];
      const int old_z = P.atts[0]->get_z_size();
      const int new_z = 2 + z["new_z"].get<int>() % old_z; // 2..old_z+1
      st.explicit_zoom = true;
      st.zxy = z["zxy"].get<float>();
      st.zz = static_cast<float>(new_z - 1) / (old_z - 1);
      st.sxy = z["sxy"].get<int>();
      st.sz = new_z;
      stats().cls("explicit zoom factors for set_up");
    }

  Sim H;
  init_obj(H, st);
  Model M;
  bool H_downsampled_in_set_up = false; // statistics only
  long n_compared = 0, n_setters_since_process = 0;
  bool had_process = false;
  shared_ptr<ProjDataInMemory> H_out_pd;

  // set_up on H with the same outcome as on a fresh object; returns false if both reject the configuration
  auto do_set_up = [&](bool& rejected) -> Result {
    rejected = false;
    // (histories that run into the known finding never get here unless VERIF_NO_EXCLUDE is set: known_signature())
    if (!M.sp_set)
      {
        stats().count("set_up with automatic scatter-point down-sampling");
        if (H_downsampled_in_set_up)
          stats().count("repeated automatic down-sampling on one object");
      }
    bool h_threw = false;
    std::string h_msg;
    try
      {
        if (!M.sp_set)
          H_downsampled_in_set_up = true;
        if (set_up_obj(H) != Succeeded::yes)
          {
            h_threw = true;
            h_msg = "Succeeded::no";
          }
      }
    catch (const std::runtime_error& e)
      {
        h_threw = true;
        h_msg = e.what();
      }
    if (h_threw)
      {
        // a configuration STIR rejects: a fresh object must reject it as well
        bool f_threw = false;
        try
          {
            Fresh f = configure_fresh(P, st, M, M.use_cache, P.acts[M.act]);
            f_threw = set_up_obj(*f.s) != Succeeded::yes;
          }
        catch (const std::runtime_error&)
          {
            f_threw = true;
          }
        VF_CHECK(f_threw, "set_up fails after the history (", h_msg, ") but succeeds on a fresh object with the same settings");
        rejected = true;
        return Result::pass();
      }
    M.dirty = false;
    return Result::pass();
  };

  const json& ops = c["ops"];
  for (std::size_t i = 0; i < ops.size(); ++i)
    {
      const int code = ops[i][0].get<int>() % N_OPS;
      const int a = ops[i][1], b = ops[i][2], cc = ops[i][3], d = ops[i][4];
      switch (code)
        {
        case SET_ACT:
          M.act = a % int(P.acts.size());
          H.set_activity_image_sptr(P.acts[M.act]);
          M.dirty = true;
          ++n_setters_since_process;
          break;
        case SET_ATT:
          M.att = a % int(P.atts.size());
          H.set_density_image_sptr(P.atts[M.att]);
          M.sp_set = false; // documented: "make sure that we're not re-using a previously interpolated image for scatter points"
          M.dirty = true;
          ++n_setters_since_process;
          break;
        case SET_SP:
          M.sp = decode_sp(P, a, b, cc, d, M.tmpl);
          M.sp_set = true;
          H.set_density_image_for_scatter_points_sptr(make_sp(P, M.sp));
          M.dirty = true;
          ++n_setters_since_process;
          break;
        case SET_TMPL:
          M.tmpl = a % int(P.tmpls.size());
          apply_tmpl(H, P.tmpls[M.tmpl]);
          M.dirty = true;
          ++n_setters_since_process;
          break;
        case SET_EXAM:
          M.exam = a % int(P.exams.size());
          H.set_exam_info(*P.exams[M.exam]);
          M.dirty = true;
          ++n_setters_since_process;
          break;
        case SET_CACHE:
          // the property speaks about changes "followed by set-up"; set_use_cache itself does not invalidate the set-up
          // (probe for the observation in work/notes/C16_findings.md: VERIF_C16_NO_SETUP_AFTER_CACHE=1)
          if (M.use_cache != bool(a & 1) && !std::getenv("VERIF_C16_NO_SETUP_AFTER_CACHE"))
            M.dirty = true;
          M.use_cache = bool(a & 1);
          H.set_use_cache(M.use_cache);
          ++n_setters_since_process;
          break;
        case SET_UP:
        case PROCESS: {
          if (!M.complete())
            {
              stats().count("events skipped: configuration incomplete");
              break;
            }
          if (code == SET_UP || M.dirty)
            {
              bool rejected;
              Result r = do_set_up(rejected);
              if (r.failed())
                return r;
              if (rejected)
                {
                  stats().count("histories ended by an error() of set_up");
                  if (n_compared == 0)
                    return Result::reject("set_up rejected the configuration");
                  return Result::pass();
                }
            }
          if (code == SET_UP)
            break;
          // ---- process_data on H, compare with a fresh object ----
          Out h_out, f_out;
          Result r = run(H, H_out_pd, h_out, "history object");
          if (r.failed())
            return r;
          Fresh f;
          try
            {
              f = configure_fresh(P, st, M, M.use_cache, P.acts[M.act]);
              if (set_up_obj(*f.s) != Succeeded::yes)
                error("set_up returned Succeeded::no");
            }
          catch (const std::runtime_error& e)
            {
              return Result::fail(cat("event ", i, ": set_up succeeded after the history but a fresh object with the same settings rejects them: ", e.what()));
            }
          r = run(*f.s, f.out, f_out, "fresh object");
          if (r.failed())
            return r;
          r = compare(h_out, f_out, max_abs(f_out), TOL_FRESH, cat("event ", i, ": output after the history vs freshly constructed simulation"),
                      "max rel err history vs fresh");
          if (r.failed())
            return r;
          r = check_output(H, h_out, true);
          if (r.failed())
            return r;
          ++n_compared;
          stats().count("process_data compared with fresh object");
          if (had_process && n_setters_since_process >= 2)
            stats().count("process_data after >=2 setters since the previous one");
          if (max_abs(f_out) > 0)
            stats().count("process_data with non-zero output");
          had_process = true;
          n_setters_since_process = 0;
          break;
        }
        }
    }

  if (!M.complete())
    return n_compared > 0 ? Result::pass() : Result::reject("history never reaches a complete configuration");

  if (M.dirty)
    {
      // bring H (and, through the exclusions, the model) to a set-up state as for a SET_UP event
      bool rejected;
      Result r = do_set_up(rejected);
      if (r.failed())
        return r;
      if (rejected)
        {
          stats().count("histories ended by an error() of set_up");
          return n_compared > 0 ? Result::pass() : Result::reject("set_up rejected the configuration");
        }
    }
  // ---- final state: cache on/off, linearity, zero, on ONE fresh object G (setters + set_up between the runs) ----
  {
    const json& lin = c["lin"];
    const double alpha = lin["a"], beta = lin["b"];
    shared_ptr<const Image> x1 = P.acts[M.act];
    shared_ptr<Image> x2(x1->get_empty_copy());
    vg::fill_random(*x2, lin["seed"].get<uint64_t>(), 0., 2.);
    shared_ptr<Image> x3(x1->clone());
    *x3 *= float(alpha);
    {
      Image tmp(*x2);
      tmp *= float(beta);
      *x3 += tmp;
    }
    shared_ptr<Image> x0(x1->get_empty_copy());
    x0->fill(0.F);

    Fresh g, goff;
    Out o1, o2, o3, o0, ooff;
    try
      {
        g = configure_fresh(P, st, M, M.use_cache, x1);
        if (set_up_obj(*g.s) != Succeeded::yes)
          error("Succeeded::no");
        goff = configure_fresh(P, st, M, !M.use_cache, x1);
        if (set_up_obj(*goff.s) != Succeeded::yes)
          error("Succeeded::no");
      }
    catch (const std::runtime_error& e)
      {
        if (n_compared > 0)
          return Result::fail(cat("final state: fresh object rejects settings that were accepted before: ", e.what()));
        return Result::reject(std::string("final configuration rejected by set_up: ") + e.what());
      }
    Result r = run(*g.s, g.out, o1, "G");
    if (r.failed())
      return r;
    r = check_output(*g.s, o1, true);
    if (r.failed())
      return r;
    r = run(*goff.s, goff.out, ooff, "G (other cache mode)");
    if (r.failed())
      return r;
    r = compare(ooff, o1, max_abs(o1), TOL_CACHE, cat("cache ", !M.use_cache ? "on" : "off", " vs cache ", M.use_cache ? "on" : "off"),
                "max rel err cache on vs off");
    if (r.failed())
      return r;
    stats().count("cache on/off comparisons");

    auto rerun = [&](shared_ptr<const Image> x, Out& o, const char* who) -> Result {
      g.s->set_activity_image_sptr(x);
      if (set_up_obj(*g.s) != Succeeded::yes)
        return Result::fail(cat(who, ": set_up failed after set_activity_image_sptr"));
      return run(*g.s, g.out, o, who);
    };
    r = rerun(x2, o2, "G(x2)");
    if (r.failed())
      return r;
    r = rerun(x3, o3, "G(a x1 + b x2)");
    if (r.failed())
      return r;
    r = check_output(*g.s, o3, alpha >= 0 && beta >= 0);
    if (r.failed())
      return r;
    r = rerun(x0, o0, "G(0)");
    if (r.failed())
      return r;
    for (auto& kv : o0)
      VF_CHECK(kv.second == 0.F, "zero activity gives ", kv.second, " at bin(seg ", std::get<0>(kv.first), ", ax ", std::get<1>(kv.first), ", view ",
               std::get<2>(kv.first), ", tang ", std::get<3>(kv.first), ")");
    Out expect;
    for (auto& kv : o1)
      expect[kv.first] = float(alpha * double(kv.second) + beta * double(o2.at(kv.first)));
    const double scale = std::fabs(alpha) * max_abs(o1) + std::fabs(beta) * max_abs(o2);
    r = compare(o3, expect, scale, TOL_LIN, cat("linearity: out(", alpha, " x1 + ", beta, " x2) vs ", alpha, " out(x1) + ", beta, " out(x2)"),
                "max rel err linearity");
    if (r.failed())
      return r;
    stats().count("linearity comparisons");
    if (max_abs(o1) > 0)
      stats().cls("final output non-zero");
    else
      stats().cls("final output all zero");
    stats().cls(M.use_cache ? "final state: cache on" : "final state: cache off");
    if (P.tmpls[M.tmpl].down)
      stats().cls("final template through downsample_scanner");
  }
  return Result::pass();
}

// ---- known finding: classification of a history without running it ----------------------------------------
// The same interpretation of the events as in check() (indices modulo the pools, set_up before a process_data that
// follows a setter, set_up at the end of a history that ends with a setter), on the JSON only.
//  F4 C16:auto-zoom-overwritten:second-automatic-downsample   set_up that has to derive the scatter-point image with the
//     default zoom settings on an object that already derived one for another template or attenuation grid
//     (incl. F4b: derived image kept by set_template_proj_data_info)
enum Finding
{
  NONE = 0,
  F4
};
const char* const finding_id[] = { "", "F4" };
const char* const finding_signature[] = { "", "C16:auto-zoom-overwritten:second-automatic-downsample" };

struct Hit
{
  Finding f = NONE;
  std::size_t op = 0; // index of the event whose set_up runs into it (== ops.size(): the set_up at the end of the history)
  int tmpl = -1, att = -1;
};

//! the first set_up of the history that runs into the known finding (unless switched off by VERIF_NO_EXCLUDE)
Hit
first_known_finding(const json& c)
{
  Hit none;
  const json& ops = c["ops"];
  const int nt = int(c["templates"].size()), ne = int(c["exams"].size()), na = int(c["acts"].size()), nm = int(c["atts"].size());
  if (nt == 0 || ne == 0 || na == 0 || nm == 0)
    return none;
  const bool explicit_zoom = c["auto_zoom"].is_object();
  int tmpl = -1, exam = -1, act = -1, att = -1;
  bool sp_set = false, use_cache = true, dirty = true, derived = false;
  int auto_tmpl = -1, auto_att = -1;
  auto set_up_point = [&](std::size_t i) -> Hit {
    Hit h;
    h.op = i;
    h.tmpl = tmpl;
    h.att = att;
    if (!sp_set && !explicit_zoom)
      {
        if (derived && !no_exclude("F4") && !(auto_tmpl == tmpl && same_grid(c["atts"][std::size_t(auto_att)], c["atts"][std::size_t(att)])))
          {
            h.f = F4;
            return h;
          }
      }
    if (!sp_set && !derived)
      {
        derived = true;
        auto_tmpl = tmpl;
        auto_att = att;
      }
    dirty = false;
    return h;
  };
  for (std::size_t i = 0; i < ops.size(); ++i)
    {
      const int code = ops[i][0].get<int>() % N_OPS;
      const int a = ops[i][1];
      switch (code)
        {
        case SET_ACT: act = a % na; dirty = true; break;
        case SET_ATT: att = a % nm; sp_set = false; dirty = true; break;
        case SET_SP: sp_set = true; dirty = true; break;
        case SET_TMPL: tmpl = a % nt; dirty = true; break;
        case SET_EXAM: exam = a % ne; dirty = true; break;
        case SET_CACHE:
          if (use_cache != bool(a & 1))
            dirty = true;
          use_cache = bool(a & 1);
          break;
        default:
          if (tmpl < 0 || exam < 0 || act < 0 || att < 0)
            break;
          if (code == SET_UP || dirty)
            {
              const Hit h = set_up_point(i);
              if (h.f != NONE)
                return h;
            }
          break;
        }
    }
  if (tmpl >= 0 && exam >= 0 && act >= 0 && att >= 0 && dirty)
    {
      const Hit h = set_up_point(ops.size());
      if (h.f != NONE)
        return h;
    }
  return none;
}

std::string
known_signature(const json& c)
{
  return finding_signature[first_known_finding(c).f];
}

//! generator side: rewrite the history so that it stays outside the known finding (the search goes on behind it):
//! F4: give an explicit scatter-point image before the set_up
void
avoid_known_findings(json& c, Src& s)
{
  for (int guard = 0; guard < 200; ++guard)
    {
      const Hit h = first_known_finding(c);
      if (h.f == NONE)
        return;
      const json op = { int(SET_SP), h.att, int(s.range(0, 999)), 1 + 3 * int(s.range(0, 4)), int(s.range(0, 999)) };
      stats().count(std::string("generator avoided known finding ") + finding_id[h.f]);
      json& ops = c["ops"];
      ops.insert(ops.begin() + std::ptrdiff_t(std::min(h.op, ops.size())), op);
    }
}

// ---- generator ---------------------------------------------------------------------------------------
json
gen_image_spec(Src& s, double extent_xy, double L, int nz, bool attenuation, double thr)
{
  json j;
  const int nx = int(s.range(5, 9));
  const int ny = s.chance(2, 3) ? nx : int(s.range(5, 9));
  j["nx"] = nx;
  j["ny"] = ny;
  j["nz"] = nz;
  const double ex = extent_xy * s.pick(std::vector<double>{ 1., 1., 0.8, 0.6 });
  const double ey = s.chance(3, 4) ? ex : extent_xy * s.pick(std::vector<double>{ 1., 0.8, 0.6 });
  j["vx"] = ex / nx;
  j["vy"] = ey / ny;
  j["vz"] = L / (nz - 1); // (nz-1)*vz is the same for all images: check_z_to_middle_consistent
  const bool shifted = s.chance(1, 3);
  j["ox"] = shifted ? s.nice_real(-0.1, 0.1) * extent_xy : 0.;
  j["oy"] = shifted ? s.nice_real(-0.1, 0.1) * extent_xy : 0.;
  j["oz"] = s.chance(1, 4) ? s.nice_real(-0.2, 0.2) * L : 0.;
  j["seed"] = s.seed64();
  if (attenuation)
    {
      // mu in cm^-1: mostly above the threshold, some voxels below it
      j["lo"] = thr * 1.5;
      j["hi"] = 0.18;
      j["p_low"] = s.pick(std::vector<double>{ 0., 0.2, 0.5 });
      j["low_hi"] = thr * 0.9;
    }
  else
    {
      j["lo"] = 0.1;
      j["hi"] = 1.;
      j["p_low"] = s.pick(std::vector<double>{ 0., 0.3, 0.8 });
      j["low_hi"] = 0.; // exact zeros
    }
  return j;
}

json
small_scanner(Src& s, int ndet, int rings, double bin, double ring_spacing)
{
  json j;
  j["type"] = -1;
  j["ndet"] = ndet;
  j["rings"] = rings;
  // block structure: divisors so that Scanner::check_consistency passes
  std::vector<int> da;
  for (int k : vg::divisors(ndet))
    da.push_back(k);
  const int a = s.pick(da);
  std::vector<int> db = vg::divisors(ndet / a);
  const int b = s.pick(db);
  j["tr_cryst_per_block"] = a;
  j["tr_blocks_per_bucket"] = b;
  const int d = s.pick(vg::divisors(rings));
  const int e = s.pick(vg::divisors(rings / d));
  j["ax_cryst_per_block"] = d;
  j["ax_blocks_per_bucket"] = e;
  j["singles_units"] = s.coin() ? 1 : 0;
  j["max_tang"] = ndet - 1;
  // ring radius such that the detector pitch is about `bin`
  j["radius"] = std::floor(bin * ndet / 3.14159265 * 4.) / 4.;
  j["doi"] = s.coin() ? 0. : s.nice_real(0., 5.);
  j["ring_spacing"] = ring_spacing;
  j["bin_size"] = bin * s.pick(std::vector<double>{ 1., 1., 0.8, 1.25 });
  j["tilt"] = s.chance(1, 4) ? s.real(-0.5, 0.5) : 0.;
  j["tof_poss"] = 0;
  j["geometry"] = "Cylindrical";
  return j;
}

json
gen(Src& s, int size)
{
  json c;
  const double bin = s.nice_real(6., 24.); // detector pitch (mm) of all templates of the case
  const double axial_len = s.nice_real(30., 120.);
  c["thr"] = s.pick(std::vector<double>{ 0.01, 0.01, 0.005, 0.03, 0.06 });
  const double thr = c["thr"];
  // ---- templates ----
  const int nt = int(s.range(1, 3));
  double r_min = 1e9;
  json templates = json::array();
  for (int k = 0; k < nt; ++k)
    {
      json t;
      const int ndet = 2 * int(s.range(2, 8)); // 4..16
      const int rings = int(s.pick(std::vector<int>{ 1, 2, 2, 2, 3, 3, 3, 3 }));
      const double ring_spacing = axial_len / rings;
      if (s.chance(2, 3))
        {
          t["kind"] = "direct";
          t["scanner"] = small_scanner(s, ndet, rings, bin, ring_spacing);
          const int tang = int(s.range(2, ndet - 1));
          const int max_delta = s.chance(3, 4) ? rings - 1 : int(s.range(0, rings - 1));
          t["pdi"] = { { "span", 1 }, { "max_delta", max_delta }, { "views", ndet / 2 }, { "tang", tang },
                       { "arccorr", false }, { "tof_mash", 0 }, { "trim", json::object() } };
          r_min = std::min(r_min, t["scanner"]["radius"].get<double>());
        }
      else
        {
          // a larger scanner, down-sampled by the simulation itself to new_rings x new_dets
          t["kind"] = "down";
          const int big_ndet = ndet * int(s.range(1, 3));
          const int big_rings = rings * int(s.range(1, 3));
          // same ring radius as a direct scanner with ndet detectors of pitch `bin`
          t["scanner"] = small_scanner(s, big_ndet, big_rings, bin * ndet / big_ndet, axial_len / big_rings);
          // downsample_scanner: new max tangential bins = ceil(tang*new_dets/old_dets)+1, must stay <= new_dets-1 (distinct detectors)
          int tang_max = 2;
          for (int tg = 2; tg <= big_ndet - 1; ++tg)
            if (int(std::ceil(double(tg) * ndet / big_ndet)) + 1 <= ndet - 1)
              tang_max = tg;
          const int tang = int(s.range(2, tang_max));
          int span = 1;
          if (big_rings > 1 && s.chance(1, 3))
            span = 2 * int(s.range(1, std::min(2, big_rings - 1))) + 1; // 3 or 5 (<= 2*rings-1)
          const int min_delta = span / 2;
          const int max_delta = s.chance(1, 4) ? min_delta : int(s.range(min_delta, big_rings - 1));
          t["pdi"] = { { "span", span }, { "max_delta", max_delta }, { "views", big_ndet / 2 }, { "tang", tang },
                       { "arccorr", false }, { "tof_mash", 0 }, { "trim", json::object() } };
          t["new_rings"] = rings;
          t["new_dets"] = ndet;
          r_min = std::min(r_min, t["scanner"]["radius"].get<double>());
        }
      t["eres"] = s.pick(std::vector<double>{ 0.1, 0.15, 0.22, 0.34 });
      t["eref"] = s.chance(3, 4) ? 511. : s.pick(std::vector<double>{ 400., 662. });
      templates.push_back(t);
    }
  c["templates"] = templates;
  // ---- energy windows ----
  const int ne = int(s.range(1, 3));
  json exams = json::array();
  for (int k = 0; k < ne; ++k)
    exams.push_back({ { "low", s.pick(std::vector<double>{ 350., 400., 425., 450., 480. }) },
                      { "high", s.pick(std::vector<double>{ 540., 600., 650., 700. }) } });
  c["exams"] = exams;
  // ---- images: inside the smallest detector ring ----
  const double extent = r_min * s.pick(std::vector<double>{ 0.6, 0.9, 1.1 });
  const double L = axial_len * s.pick(std::vector<double>{ 0.5, 0.8, 1., 1.3 });
  const int att_nz = int(s.range(3, 9)); // shared by all attenuation images (zoom_z compatibility)
  json acts = json::array(), atts = json::array();
  const int na = int(s.range(1, 3)), nm = int(s.range(1, 3));
  for (int k = 0; k < na; ++k)
    acts.push_back(gen_image_spec(s, extent, L, int(s.range(3, 9)), false, thr));
  for (int k = 0; k < nm; ++k)
    atts.push_back(gen_image_spec(s, extent, L, att_nz, true, thr));
  c["acts"] = acts;
  c["atts"] = atts;
  if (s.chance(1, 3))
    c["auto_zoom"] = { { "zxy", 0.3 + 0.1 * double(s.range(0, 9)) }, { "new_z", int(s.range(0, 20)) }, { "sxy", int(s.pick(std::vector<int>{ -1, -1, 3, 5 })) } };
  else
    c["auto_zoom"] = nullptr;
  c["lin"] = { { "seed", s.seed64() },
               { "a", s.pick(std::vector<double>{ 1., 2., 0.5, 0.3, 3.5, -1. }) },
               { "b", s.pick(std::vector<double>{ 1., 0.25, 4., 1.7, -0.5 }) } };
  // ---- history ----
  json ops = json::array();
  auto arg = [&]() { return int(s.range(0, 999)); };
  auto push = [&](int code) { ops.push_back({ code, arg(), arg(), arg(), arg() }); };
  if (s.chance(19, 20))
    {
      // start by a complete configuration in a random order
      std::vector<int> first = { SET_ACT, SET_ATT, SET_TMPL, SET_EXAM };
      for (int k = 3; k > 0; --k)
        std::swap(first[std::size_t(k)], first[std::size_t(s.range(0, k))]);
      for (int code : first)
        push(code);
      if (s.coin())
        push(PROCESS);
    }
  const int len = 4 + int(s.range(0, std::max(4, size / 3)));
  int n_process = 0;
  for (int k = 0; k < len; ++k)
    {
      const int w = int(s.range(0, 99));
      int code;
      if (w < 12)
        code = SET_ACT;
      else if (w < 24)
        code = SET_ATT;
      else if (w < 36)
        code = SET_SP;
      else if (w < 47)
        code = SET_TMPL;
      else if (w < 58)
        code = SET_EXAM;
      else if (w < 66)
        code = SET_CACHE;
      else if (w < 76)
        code = SET_UP;
      else
        code = PROCESS;
      if (code == PROCESS && ++n_process > 5)
        code = SET_ACT;
      push(code);
    }
  if (s.chance(2, 3))
    push(PROCESS);
  c["ops"] = ops;
  avoid_known_findings(c, s);
  return c;
}

// non-trivial: >= 2 effective setters between two effective process_data calls, and a template with >= 2 rings
// (detector pairs in different rings exist) used at some point
bool
nontrivial(const json& c)
{
  const int nt = int(c["templates"].size());
  bool tm = false, ex = false, ac = false, at = false;
  bool had_process = false, two_setters = false, oblique = false;
  int setters = 0, cur_t = -1;
  for (auto& op : c["ops"])
    {
      const int code = op[0].get<int>() % N_OPS;
      switch (code)
        {
        case SET_ACT: ac = true; ++setters; break;
        case SET_ATT: at = true; ++setters; break;
        case SET_SP: ++setters; break;
        case SET_TMPL: tm = true; cur_t = op[1].get<int>() % nt; ++setters; break;
        case SET_EXAM: ex = true; ++setters; break;
        case SET_CACHE: ++setters; break;
        case PROCESS:
          if (tm && ex && ac && at)
            {
              if (had_process && setters >= 2)
                two_setters = true;
              had_process = true;
              setters = 0;
              const json& t = c["templates"][std::size_t(cur_t)];
              const int rings = t["kind"] == "down" ? t["new_rings"].get<int>() : t["scanner"]["rings"].get<int>();
              const int md = t["pdi"]["max_delta"].get<int>();
              // downsample_scanner: all ring differences if the original template has more than one segment, else none
              const int span = t["pdi"]["span"].get<int>();
              if (rings >= 2 && (t["kind"] == "down" ? md > span / 2 : md >= 1))
                oblique = true;
            }
          break;
        default: break;
        }
    }
  return two_setters && oblique;
}

} // namespace

const Property&
the_property()
{
  static Property p;
  p.id = "C16";
  p.gen = gen;
  p.check = check;
  p.nontrivial = nontrivial;
  p.shrink_lists = { "ops" };
  p.known_signature = known_signature;
  return p;
}

// C17 (b) — KeyParser grammar, differential test against a reference mini-parser.
// A synthetic KeyParser with one key of every KeyArgument type that has a public add_key/add_vectorised_key,
// aliases (deprecated and not), an ignored key, start and stop key.  The generator writes a text from the
// documented grammar (KeyParser.h, interfile_keyword_functions.h, stream.h):
//   * one statement per line "keyword[index] := value"; keyword matching ignores case, and treats blank, tab,
//     '_' and '!' as white space (trimmed at both ends, runs collapsed);
//   * a line ending in '\' continues on the next line; "\r\n" line ends are accepted;
//   * the start key has to come first, parsing stops at the stop key; unknown keywords and ';' comments are ignored;
//   * "key[i]" of a vectorised key stores into element i-1; an index beyond the size, a missing index on a
//     vectorised key or an index on a scalar key is an error();  a keyword without value leaves the variable alone;
//   * an alias behaves like its target;  a bool is the integer 0 or 1;  lists are "{a, b, c}".
// The reference below interprets the generated statements directly (it never sees the text), so the comparison
// is between the generator's intent and what KeyParser stored.
// END / START OF THE TEXT (ext5): every generated text is parsed again in variants that only differ in how the text ENDS
// (final end-of-line removed, "\r\n" / "\r" as the last end-of-line, blank lines / blanks behind the last line, the stop
// key as a last line without end-of-line, NO stop key at all with and without final end-of-line) and in how it STARTS
// (start key as the only line).  KeyParser.h: "KeyParser reads input line by line and parses each line separately.  It allows
// for '\r' at the end of the line" -- the last line of a text is a line whether or not an end-of-line character follows it
// (std::getline returns it and sets eofbit), so every variant has to store exactly what the newline-terminated text stores
// and to run the same call-backs; see check_end_variants().
// Not generated (behaviour not documented, see report): blanks before a comma inside a list of strings,
// numbers with trailing garbage or out of range of their type, index 0 or negative, text before the start key.
#include "c17_common.h"
#include "stir/KeyParser.h"
#include "stir/Array.h"
#include "stir/BasicCoordinate.h"
#include "stir/stream.h"
#include <cstdio>

using namespace vf;
using namespace stir;

namespace {

enum Kind
{
  K_INT,
  K_LONG,
  K_UINT,
  K_ULONG,
  K_FLOAT,
  K_DOUBLE,
  K_BOOL,
  K_STRING,
  K_CHOICE,
  K_INTLIST,
  K_DOUBLELIST,
  K_STRINGLIST,
  K_ARRAY2,
  K_ARRAY3,
  K_COORD,
  K_COORDARRAY,
  K_IGNORED
};

struct KeyDef
{
  const char* name;
  Kind kind;
  bool vectorised;
  const char* alias_of; // non-null: this spelling is an alias of that key
  bool deprecated;
};
const int VSIZE = 3; // size of every vectorised variable

// (the last entry has a colon in its keyword: KeyParser::get_keyword documents "allow keywords containing colons")
const KeyDef KEYS[] = {
  { "an int", K_INT, false, nullptr, false },
  { "a long", K_LONG, false, nullptr, false },
  { "an unsigned", K_UINT, false, nullptr, false },
  { "an unsigned long", K_ULONG, false, nullptr, false },
  { "a float", K_FLOAT, false, nullptr, false },
  { "a double", K_DOUBLE, false, nullptr, false },
  { "a bool", K_BOOL, false, nullptr, false },
  { "a string", K_STRING, false, nullptr, false },
  { "a choice", K_CHOICE, false, nullptr, false },
  { "int list", K_INTLIST, false, nullptr, false },
  { "double list", K_DOUBLELIST, false, nullptr, false },
  { "string list", K_STRINGLIST, false, nullptr, false },
  { "array 2d", K_ARRAY2, false, nullptr, false },
  { "array 3d", K_ARRAY3, false, nullptr, false },
  { "a coordinate", K_COORD, false, nullptr, false },
  { "coordinate of arrays", K_COORDARRAY, false, nullptr, false },
  { "ignored key", K_IGNORED, false, nullptr, false },
  { "v int", K_INT, true, nullptr, false },
  { "v unsigned", K_UINT, true, nullptr, false },
  { "v unsigned long", K_ULONG, true, nullptr, false },
  { "v float", K_FLOAT, true, nullptr, false },
  { "v double", K_DOUBLE, true, nullptr, false },
  { "v string", K_STRING, true, nullptr, false },
  { "v int list", K_INTLIST, true, nullptr, false },
  { "v double list", K_DOUBLELIST, true, nullptr, false },
  { "old int", K_INT, false, "an int", true },
  { "alt float", K_FLOAT, false, "a float", false },
  { "old v int", K_INT, true, "v int", true },
  { "time (hh:mm:ss)", K_DOUBLE, false, nullptr, false },
  { "v ratio a:b", K_INT, true, nullptr, false },
  // (ext5) a key with its own call-back (KeyParser.h: "add a keyword to the list, together with its call_back function"):
  // the call-back counts its calls and then does what set_variable() does
  { "counted int", K_INT, false, nullptr, false },
};
const int NKEYS = int(sizeof(KEYS) / sizeof(KEYS[0]));
const std::vector<std::string> CHOICES = { "alpha", "beta gamma", "Delta_x" };

int
target_of(int k)
{
  if (!KEYS[k].alias_of)
    return k;
  for (int i = 0; i < NKEYS; ++i)
    if (std::string(KEYS[i].name) == KEYS[k].alias_of)
      return i;
  return k;
}

// ---- the variables ---------------------------------------------------------------------------
struct Vars
{
  int i = -7;
  long l = -8;
  unsigned u = 9;
  unsigned long ul = 10;
  float f = 1.5F;
  double d = 2.5;
  bool b = false;
  std::string s = "dflt";
  int choice = 0;
  std::vector<int> il = { 1 };
  std::vector<double> dl = { 1. };
  std::vector<std::string> sl = { "x" };
  Array<2, float> a2;
  Array<3, float> a3;
  BasicCoordinate<3, float> co;
  BasicCoordinate<3, Array<3, float>> coa;
  std::vector<int> vi = std::vector<int>(VSIZE, -1);
  std::vector<unsigned> vu = std::vector<unsigned>(VSIZE, 1);
  std::vector<unsigned long> vul = std::vector<unsigned long>(VSIZE, 2);
  std::vector<float> vf_ = std::vector<float>(VSIZE, 0.5F);
  std::vector<double> vd = std::vector<double>(VSIZE, 0.25);
  std::vector<std::string> vs = std::vector<std::string>(VSIZE, "e");
  std::vector<std::vector<int>> vil = std::vector<std::vector<int>>(VSIZE);
  std::vector<std::vector<double>> vdl = std::vector<std::vector<double>>(VSIZE);
  double t = 0.;
  std::vector<int> vr = std::vector<int>(VSIZE, -2);
  int counted = -3; // variable of the call-back key
  int calls = 0;    // number of times the call-back of "counted int" ran
  Vars() { co = make_coordinate(0.F, 0.F, 0.F); }
};

struct Synthetic : KeyParser
{
  Vars v;
  Synthetic()
  {
    add_start_key("Synthetic Parameters");
    add_key("an int", &v.i);
    add_key("a long", &v.l);
    add_key("an unsigned", &v.u);
    add_key("an unsigned long", &v.ul);
    add_key("a float", &v.f);
    add_key("a double", &v.d);
    add_key("a bool", &v.b);
    add_key("a string", &v.s);
    add_key("a choice", &v.choice, &CHOICES);
    add_key("int list", &v.il);
    add_key("double list", &v.dl);
    add_key("string list", &v.sl);
    add_key("array 2d", &v.a2);
    add_key("array 3d", &v.a3);
    add_key("a coordinate", &v.co);
    add_key("coordinate of arrays", &v.coa);
    ignore_key("ignored key");
    add_vectorised_key("v int", &v.vi);
    add_vectorised_key("v unsigned", &v.vu);
    add_vectorised_key("v unsigned long", &v.vul);
    add_vectorised_key("v float", &v.vf_);
    add_vectorised_key("v double", &v.vd);
    add_vectorised_key("v string", &v.vs);
    add_vectorised_key("v int list", &v.vil);
    add_vectorised_key("v double list", &v.vdl);
    add_alias_key("an int", "old int", true);
    add_alias_key("a float", "alt float", false);
    add_alias_key("v int", "old v int", true);
    add_key("time (hh:mm:ss)", &v.t);
    add_vectorised_key("v ratio a:b", &v.vr);
    add_key("counted int", KeyArgument::INT, static_cast<KeywordProcessor>(&Synthetic::count_and_set), &v.counted);
    add_stop_key("End Synthetic Parameters");
  }
  //! call-back of "counted int"
  void count_and_set()
  {
    ++v.calls;
    set_variable();
  }
};

// ---- the Case: statements ----------------------------------------------------------------------
// statement = [type, key, index, value-json, fmt-seed]
//   type 0 assignment, 1 comment, 2 unknown keyword, 3 blank-only line, 4 keyword without value,
//        5 error: index out of range, 6 error: vectorised key without index, 7 error: index on a scalar key
// value json: number | string | list of numbers/strings | nested lists (arrays)

json
gen_value(Src& s, Kind k)
{
  auto small_int = [&]() { return long(s.range(-1000, 1000)); };
  auto gen_real = [&]() -> json {
    // decimal text with few digits, several spellings; stored as text so that the reference sees the token
    const long m = s.range(-99999, 99999);
    const int e = int(s.range(-6, 6));
    char buf[64];
    switch (s.range(0, 4))
      {
      case 0:
        std::snprintf(buf, sizeof buf, "%ld", m);
        break;
      case 1:
        std::snprintf(buf, sizeof buf, "%ld.%ld", m / 100, std::labs(m) % 100);
        break;
      case 2:
        std::snprintf(buf, sizeof buf, "%lde%d", m, e);
        break;
      case 3:
        std::snprintf(buf, sizeof buf, "%ld.%ldE%+d", m / 1000, std::labs(m) % 1000, e);
        break;
      default:
        std::snprintf(buf, sizeof buf, "%s.%ld", m < 0 ? "-" : (s.coin() ? "+" : ""), std::labs(m) % 1000);
        break;
      }
    return std::string(buf);
  };
  auto gen_word = [&](bool allow_space) {
    static const char* alphabet = "abcXYZ019./-_()%";
    std::string w;
    const int n = int(s.range(1, 8));
    for (int i = 0; i < n; ++i)
      {
        if (allow_space && i > 0 && i < n - 1 && s.chance(1, 5))
          w += ' ';
        else
          w += alphabet[s.range(0, 15)];
      }
    return w;
  };
  switch (k)
    {
    case K_INT:
    case K_LONG:
      return small_int() * (s.chance(1, 5) ? 100000 : 1);
    case K_UINT:
    case K_ULONG:
      return long(s.range(0, 100000));
    case K_BOOL:
      return long(s.range(0, 1));
    case K_FLOAT:
    case K_DOUBLE:
      return gen_real();
    case K_STRING:
      return gen_word(true);
    case K_CHOICE:
      return long(s.range(0, 3)); // 3 = a word that is not in the list
    case K_INTLIST:
      {
        json l = json::array();
        const int n = int(s.range(0, 4));
        for (int i = 0; i < n; ++i)
          l.push_back(small_int());
        return l;
      }
    case K_DOUBLELIST:
      {
        json l = json::array();
        const int n = int(s.range(0, 4));
        for (int i = 0; i < n; ++i)
          l.push_back(gen_real());
        return l;
      }
    case K_STRINGLIST:
      {
        json l = json::array();
        const int n = int(s.range(1, 4));
        for (int i = 0; i < n; ++i)
          l.push_back(gen_word(false));
        return l;
      }
    case K_ARRAY2:
      {
        json a = json::array();
        const int n1 = int(s.range(1, 3)), n2 = int(s.range(1, 3));
        for (int i = 0; i < n1; ++i)
          {
            json r = json::array();
            for (int j = 0; j < n2; ++j)
              r.push_back(gen_real());
            a.push_back(r);
          }
        return a;
      }
    case K_ARRAY3:
      {
        json a = json::array();
        const int n1 = int(s.range(1, 2)), n2 = int(s.range(1, 2)), n3 = int(s.range(1, 3));
        for (int i = 0; i < n1; ++i)
          {
            json r = json::array();
            for (int j = 0; j < n2; ++j)
              {
                json q = json::array();
                for (int l = 0; l < n3; ++l)
                  q.push_back(gen_real());
                r.push_back(q);
              }
            a.push_back(r);
          }
        return a;
      }
    case K_COORD:
      return json::array({ gen_real(), gen_real(), gen_real() });
    case K_COORDARRAY:
      {
        json c = json::array();
        for (int d = 0; d < 3; ++d)
          c.push_back(json::array({ json::array({ json::array({ gen_real(), gen_real() }) }) })); // 1x1x2 array
        return c;
      }
    default:
      return std::string("anything at all");
    }
}

json
gen(Src& s, int size)
{
  json c;
  json st = json::array();
  const int n = int(s.range(1, 3 + size / 3));
  bool have_error = false;
  for (int i = 0; i < n; ++i)
    {
      int type = 0;
      const long r = s.range(0, 99);
      if (r < 72)
        type = 0;
      else if (r < 77)
        type = 1;
      else if (r < 82)
        type = 2;
      else if (r < 87)
        type = 3;
      else if (r < 93)
        type = 4;
      else
        type = 5 + int(s.range(0, 2));
      if (type >= 5 && (have_error || i < n / 2))
        type = 0; // at most one error statement, in the second half (so that earlier statements are checked too)
      int key = int(s.range(0, NKEYS - 1));
      if (type == 5 || type == 6)
        while (!KEYS[key].vectorised)
          key = int(s.range(0, NKEYS - 1));
      if (type == 7)
        while (KEYS[key].vectorised || KEYS[key].kind == K_IGNORED)
          key = int(s.range(0, NKEYS - 1));
      int index = 0;
      if (KEYS[key].vectorised)
        index = int(s.range(1, VSIZE));
      if (type == 5)
        index = VSIZE + int(s.range(1, 3));
      if (type == 6)
        index = 0;
      if (type == 7)
        index = int(s.range(1, 3));
      if (type >= 5)
        have_error = true;
      // the value is derived from a seed with the kind of the (effective) key: any sub-sequence / zeroed argument stays valid
      st.push_back({ type, key, index, long(s.range(0, (1L << 31) - 1)), long(s.range(0, (1L << 31) - 1)) });
    }
  c["st"] = st;
  c["crlf"] = s.chance(1, 6);
  c["start"] = s.chance(1, 20) ? 0 : 1; // 0: start key missing (parse has to fail)
  c["fmt"] = long(s.range(0, (1L << 31) - 1));
  c["remove"] = s.chance(1, 6) ? long(s.range(0, NKEYS - 1)) : -1L;
  return c;
}

// ---- decoding of a statement: arguments are interpreted modulo the state so that every tuple is meaningful
struct Stmt
{
  int type, key, index;
  json value;
  uint64_t fmt;
};
Stmt
decode(const json& st)
{
  Stmt d;
  d.type = int(((st[0].get<long>() % 8) + 8) % 8);
  d.key = int(((st[1].get<long>() % NKEYS) + NKEYS) % NKEYS);
  const long idx = std::labs(st[2].get<long>());
  if (d.type == 5 || d.type == 6)
    while (!KEYS[d.key].vectorised)
      d.key = (d.key + 1) % NKEYS;
  if (d.type == 7)
    while (KEYS[d.key].vectorised || KEYS[d.key].kind == K_IGNORED)
      d.key = (d.key + 1) % NKEYS;
  if (d.type == 5)
    d.index = VSIZE + 1 + int(idx % 3);
  else if (d.type == 6)
    d.index = 0;
  else if (d.type == 7)
    d.index = 1 + int(idx % 3);
  else
    d.index = KEYS[d.key].vectorised ? 1 + int((idx + VSIZE - 1) % VSIZE) : 0;
  PrngSrc vs{ uint64_t(st[3].get<long>()) * 2654435761ULL + 17 };
  d.value = gen_value(vs, KEYS[d.key].kind);
  d.fmt = uint64_t(st[4].get<long>());
  return d;
}

// ---- text rendering ------------------------------------------------------------------------------
std::string
noisy_keyword(const std::string& key, SplitMix& g)
{
  std::string o;
  if (g.range(0, 3) == 0)
    o += "!";
  if (g.range(0, 3) == 0)
    o += (g.range(0, 1) ? " " : "\t");
  for (char ch : key)
    {
      if (ch == ' ')
        {
          static const char* alt[] = { " ", "  ", "\t", "_", " _", "! ", " \t " };
          o += alt[g.range(0, 6)];
        }
      else if (isalpha((unsigned char)ch) && g.range(0, 2) == 0)
        o += char(isupper((unsigned char)ch) ? tolower((unsigned char)ch) : toupper((unsigned char)ch));
      else
        o += ch;
    }
  if (g.range(0, 2) == 0)
    o += (g.range(0, 1) ? " " : "\t");
  return o;
}

std::string
num_text(const json& v)
{
  if (v.is_string())
    return v.get<std::string>();
  return std::to_string(v.get<long>());
}

std::string
list_text(const json& v, SplitMix& g)
{
  if (!v.is_array())
    return num_text(v);
  std::string o = "{";
  if (g.range(0, 2) == 0)
    o += " ";
  for (std::size_t i = 0; i < v.size(); ++i)
    {
      if (i)
        o += (g.range(0, 1) ? ", " : ",");
      o += list_text(v[i], g);
    }
  // (no blank between the last element and '}' for strings: not documented whether it belongs to the element)
  o += "}";
  return o;
}

std::string
value_text(const KeyDef& k, const json& v, SplitMix& g)
{
  switch (k.kind)
    {
    case K_CHOICE:
      {
        const long i = v.get<long>();
        if (i >= long(CHOICES.size()))
          return "not in the list";
        return noisy_keyword(CHOICES[std::size_t(i)], g); // documented: compared after standardisation
      }
    case K_INTLIST:
    case K_DOUBLELIST:
    case K_STRINGLIST:
    case K_ARRAY2:
    case K_ARRAY3:
    case K_COORD:
    case K_COORDARRAY:
      return list_text(v, g);
    default:
      return num_text(v);
    }
}

//! the logical lines of the text: [start key line] + one line per statement (a continuation line holds "\\\n" inside);
//! \a stop gets the stop key line
std::vector<std::string>
render_lines(const json& c, std::string& stop)
{
  SplitMix gf{ uint64_t(c["fmt"].get<long>()) };
  std::vector<std::string> lines;
  if (c["start"].get<int>() != 0)
    lines.push_back(noisy_keyword("Synthetic Parameters", gf) + ":=");
  for (const auto& st : c["st"])
    {
      const Stmt d = decode(st);
      SplitMix g{ d.fmt };
      const int type = d.type;
      const KeyDef& k = KEYS[d.key];
      const int index = d.index;
      std::string line;
      if (type == 1)
        line = "; a comment := 5";
      else if (type == 2)
        line = "unknown keyword " + std::to_string(g.range(0, 99)) + " := 17";
      else if (type == 3)
        line = g.range(0, 1) ? " \t " : "\t";
      else
        {
          line = noisy_keyword(k.name, g);
          if (index > 0)
            line += (g.range(0, 2) == 0 ? " [" : "[") + std::to_string(index) + (g.range(0, 3) == 0 ? " ]" : "]") + (g.range(0, 2) == 0 ? " " : "");
          line += ":=";
          if (type != 4)
            {
              line += (g.range(0, 3) == 0 ? "" : (g.range(0, 3) == 0 ? " \t" : " "));
              line += value_text(k, d.value, g);
              if (g.range(0, 3) == 0)
                line += (g.range(0, 1) ? "  " : "\t");
            }
          else if (g.range(0, 1))
            line += "  ";
          // continuation: cut the line anywhere behind the first character; the pieces are joined verbatim
          if (g.range(0, 4) == 0 && line.size() > 2)
            {
              const std::size_t cut = std::size_t(g.range(1, long(line.size()) - 1));
              line = line.substr(0, cut) + "\\\n" + line.substr(cut);
            }
        }
      lines.push_back(line);
    }
  stop = noisy_keyword("End Synthetic Parameters", gf) + ":=";
  return lines;
}

//! every physical line of \a lines followed by an end-of-line ("\r\n" if \a crlf)
std::string
join_text(const std::vector<std::string>& lines, const bool crlf)
{
  std::string t;
  for (const std::string& l : lines)
    {
      if (crlf)
        {
          // every physical line ends in \r\n (documented: '\r' at the end of a line is allowed)
          std::string x;
          for (char ch : l)
            {
              if (ch == '\n')
                x += "\r\n";
              else
                x += ch;
            }
          t += x + "\r\n";
        }
      else
        t += l + "\n";
    }
  return t;
}

const char* const TRAILER = "an int := 424242"; // behind the stop key: must not be looked at

std::string
render(const json& c)
{
  std::string stop;
  std::vector<std::string> lines = render_lines(c, stop);
  lines.push_back(stop);
  lines.push_back(TRAILER);
  return join_text(lines, c["crlf"].get<bool>());
}

// ---- reference ---------------------------------------------------------------------------------------
float
ref_float(const json& v)
{
  return v.is_string() ? std::strtof(v.get<std::string>().c_str(), nullptr) : float(v.get<long>());
}
double
ref_double(const json& v)
{
  return v.is_string() ? std::strtod(v.get<std::string>().c_str(), nullptr) : double(v.get<long>());
}

struct Expect
{
  Vars v;        // scalar part is used directly
  json a2, a3, co, coa; // arrays as the JSON lists last assigned (null = untouched)
  bool error = false;
};

void
apply(Expect& e, const json& st_json)
{
  const Stmt st = decode(st_json);
  const int type = st.type;
  // (a keyword without value: the call-back runs -- KeyParser::process_key() calls it for every recognised keyword -- and
  //  "if the keyword had no value, set_variable will do nothing")
  if (type == 4 && std::string(KEYS[target_of(st.key)].name) == "counted int")
    e.v.calls++;
  if (type == 1 || type == 2 || type == 3 || type == 4)
    return;
  if (type >= 5)
    {
      e.error = true;
      return;
    }
  const int key = target_of(st.key);
  const KeyDef& k = KEYS[key];
  const std::size_t ix = std::size_t(std::max(0, st.index - 1));
  const json& v = st.value;
  const std::string name = k.name;
  auto ints = [&](const json& l) {
    std::vector<int> r;
    for (auto& x : l)
      r.push_back(int(x.get<long>()));
    return r;
  };
  auto doubles = [&](const json& l) {
    std::vector<double> r;
    for (auto& x : l)
      r.push_back(ref_double(x));
    return r;
  };
  if (name == "an int")
    e.v.i = int(v.get<long>());
  else if (name == "a long")
    e.v.l = v.get<long>();
  else if (name == "an unsigned")
    e.v.u = unsigned(v.get<long>());
  else if (name == "an unsigned long")
    e.v.ul = (unsigned long)(v.get<long>());
  else if (name == "a float")
    e.v.f = ref_float(v);
  else if (name == "a double")
    e.v.d = ref_double(v);
  else if (name == "a bool")
    e.v.b = v.get<long>() != 0;
  else if (name == "a string")
    e.v.s = v.get<std::string>();
  else if (name == "a choice")
    e.v.choice = v.get<long>() >= long(CHOICES.size()) ? -1 : int(v.get<long>());
  else if (name == "int list")
    e.v.il = ints(v);
  else if (name == "double list")
    e.v.dl = doubles(v);
  else if (name == "string list")
    {
      e.v.sl.clear();
      for (auto& x : v)
        e.v.sl.push_back(x.get<std::string>());
    }
  else if (name == "array 2d")
    e.a2 = v;
  else if (name == "array 3d")
    e.a3 = v;
  else if (name == "a coordinate")
    e.co = v;
  else if (name == "coordinate of arrays")
    e.coa = v;
  else if (name == "v int")
    e.v.vi[ix] = int(v.get<long>());
  else if (name == "v unsigned")
    e.v.vu[ix] = unsigned(v.get<long>());
  else if (name == "v unsigned long")
    e.v.vul[ix] = (unsigned long)(v.get<long>());
  else if (name == "v float")
    e.v.vf_[ix] = ref_float(v);
  else if (name == "v double")
    e.v.vd[ix] = ref_double(v);
  else if (name == "v string")
    e.v.vs[ix] = v.get<std::string>();
  else if (name == "v int list")
    e.v.vil[ix] = ints(v);
  else if (name == "v double list")
    e.v.vdl[ix] = doubles(v);
  else if (name == "time (hh:mm:ss)")
    e.v.t = ref_double(v);
  else if (name == "v ratio a:b")
    e.v.vr[ix] = int(v.get<long>());
  else if (name == "counted int")
    {
      e.v.counted = int(v.get<long>());
      e.v.calls++;
    }
}

template <class A>
bool
same_array1(const A& a, const json& j)
{
  if (std::size_t(a.get_length()) != j.size())
    return false;
  for (std::size_t i = 0; i < j.size(); ++i)
    if (a[a.get_min_index() + int(i)] != ref_float(j[i]))
      return false;
  return true;
}
bool
same_array2(const Array<2, float>& a, const json& j)
{
  if (std::size_t(a.get_length()) != j.size())
    return false;
  for (std::size_t i = 0; i < j.size(); ++i)
    if (!same_array1(a[a.get_min_index() + int(i)], j[i]))
      return false;
  return true;
}
bool
same_array3(const Array<3, float>& a, const json& j)
{
  if (std::size_t(a.get_length()) != j.size())
    return false;
  for (std::size_t i = 0; i < j.size(); ++i)
    if (!same_array2(a[a.get_min_index() + int(i)], j[i]))
      return false;
  return true;
}

template <class T>
std::string
show(const std::vector<T>& v)
{
  std::ostringstream s;
  s.precision(17);
  s << "{";
  for (auto& x : v)
    s << x << "|";
  s << "}";
  return s.str();
}

//! "" if two sets of variables are equal, else the name of the first that differs
std::string
first_difference(const Vars& a, const Vars& x)
{
  if (a.i != x.i) return "an int";
  if (a.l != x.l) return "a long";
  if (a.u != x.u) return "an unsigned";
  if (a.ul != x.ul) return "an unsigned long";
  if (a.f != x.f) return "a float";
  if (a.d != x.d) return "a double";
  if (a.b != x.b) return "a bool";
  if (a.s != x.s) return "a string";
  if (a.choice != x.choice) return "a choice";
  if (a.il != x.il) return "int list";
  if (a.dl != x.dl) return "double list";
  if (a.sl != x.sl) return "string list";
  if (!(a.a2 == x.a2)) return "array 2d";
  if (!(a.a3 == x.a3)) return "array 3d";
  if (!(a.co == x.co)) return "a coordinate";
  for (int d = 1; d <= 3; ++d)
    if (!(a.coa[d] == x.coa[d])) return "coordinate of arrays";
  if (a.vi != x.vi) return "v int";
  if (a.vu != x.vu) return "v unsigned";
  if (a.vul != x.vul) return "v unsigned long";
  if (a.vf_ != x.vf_) return "v float";
  if (a.vd != x.vd) return "v double";
  if (a.vs != x.vs) return "v string";
  if (a.vil != x.vil) return "v int list";
  if (a.vdl != x.vdl) return "v double list";
  if (a.t != x.t) return "time (hh:mm:ss)";
  if (a.vr != x.vr) return "v ratio a:b";
  if (a.counted != x.counted) return "counted int";
  if (a.calls != x.calls) return "counted int (number of call-back calls)";
  return "";
}

//! index of the key that is removed with remove_key() before parsing (-1: none).  Keys with aliases and the ignored key are left alone.
int
removed_key(const json& c)
{
  if (!c.contains("remove"))
    return -1;
  const long r = c["remove"].get<long>();
  if (r < 0)
    return -1;
  int k = int(r % NKEYS);
  for (int guard = 0; guard < NKEYS; ++guard, k = (k + 1) % NKEYS)
    {
      bool has_alias = KEYS[k].alias_of != nullptr || KEYS[k].kind == K_IGNORED;
      for (int i = 0; i < NKEYS; ++i)
        if (KEYS[i].alias_of && std::string(KEYS[i].alias_of) == KEYS[k].name)
          has_alias = true;
      if (!has_alias)
        return k;
    }
  return -1;
}


// ---- (ext5) how a text ENDS and STARTS ------------------------------------------------------------------
// KeyParser.h: "KeyParser reads input line by line and parses each line separately.  It allows for '\r' at the end of the
// line (as in files originating in DOS/Windows)."  A line is what std::getline returns; the last line of a text is a line
// whether or not an end-of-line character follows it.  Hence, with B = the generated text (every line terminated):
//   (E1) B with the stop key as LAST line and no end-of-line behind it,
//   (E2) the same with "\r\n" (or, for a "\r\n" text, a bare "\n") as the last end-of-line,
//   (E3) the same followed by blank lines / blanks / a blank last line without end-of-line,
//   (E4) B (a line behind the stop key) with its final end-of-line removed
//        have to store what B stores, run the same call-backs, and return / throw what B returns / throws
//        ("add a keyword that when encountered, will stop the parsing": nothing behind the stop key is looked at);
//   (N1) B without the stop key line (every line terminated),
//   (N2) N1 with the final end-of-line removed: the last line is a real "key := value" line without end-of-line,
//   (N3) N1 with a bare "\r" behind the last line (a DOS file cut between '\r' and '\n'),
//   (N4) N1 followed by blank lines / blanks without final end-of-line,
//   (N5) N1 with "\r\n" (resp. "\n") as the last end-of-line
//        have to store what B stores and run the same call-backs (every line of N* is a line of B in front of B's stop key).
//        What parse() RETURNS without a stop key is not documented (the code: read_and_parse_line() warns "early EOF or bad
//        file", calls stop_parsing(), and parse_header() returns Succeeded::yes): only demanded is that N2..N5 return / throw
//        what N1 returns / throws -- whether an end-of-line follows the last line cannot matter.
//   (S1) the start key line alone + end-of-line, (S2) the start key line alone without end-of-line:
//        same return value, all variables keep their defaults.
// The variants go through the three parse() overloads in turn (string, std::istream&, file name).
struct Run
{
  bool ok = false, threw = false;
  std::string what;
  Vars v;
};
Run
run_text(const std::string& text, const int removed, const int how)
{
  Run r;
  Synthetic q;
  if (removed >= 0)
    (void)q.remove_key(c17::ref_standardise(KEYS[removed].name));
  c17::AllocGuard guard;
  try
    {
      if (how % 3 == 0)
        r.ok = q.parse(text, false);
      else if (how % 3 == 1)
        {
          std::istringstream in(text);
          r.ok = q.parse(in, false);
        }
      else
        {
          const std::string fn = c17::scratch_dir() + "/kpv.par";
          c17::write_file(fn, text);
          r.ok = q.parse(fn.c_str(), false);
        }
    }
  catch (const stir_verif::AssertionFailure&)
    {
      throw;
    }
  catch (const std::exception& ex)
    {
      r.threw = true;
      r.what = ex.what();
    }
  guard.stop();
  r.v = q.v;
  return r;
}

std::string
without_last_eol(std::string t)
{
  if (!t.empty() && t.back() == '\n')
    t.pop_back();
  if (!t.empty() && t.back() == '\r')
    t.pop_back();
  return t;
}

Result
check_end_variants(const json& c, const int removed, const Vars& base_v, const bool base_ok, const bool base_threw)
{
  std::string stop;
  const std::vector<std::string> body = render_lines(c, stop);
  std::vector<std::string> with_stop = body;
  with_stop.push_back(stop);
  const bool crlf = c["crlf"].get<bool>();
  const std::string S = join_text(with_stop, crlf); // ... stop key line, terminated
  const std::string N = join_text(body, crlf);      // no stop key, terminated
  const std::string other_eol = crlf ? "\n" : "\r\n";
  SplitMix g{ uint64_t(c["fmt"].get<long>()) * 31 + 7 };
  static const char* const TAILS[] = { "\n", " ", "  \n\t\n", "\n   ", "\r\n\r\n", "\t", " \r\n\t", "\n\n\n" };
  const std::string tail_s = TAILS[g.range(0, 7)], tail_n = TAILS[g.range(0, 7)];
  struct V
  {
    const char* name;
    std::string text;
    bool stop;
  };
  const std::vector<V> variants = {
    { "E1 stop key is the last line, no end-of-line behind it", without_last_eol(S), true },
    { "E2 stop key is the last line, other end-of-line convention behind it", without_last_eol(S) + other_eol, true },
    { "E3 blank lines / blanks behind the stop key line", S + tail_s, true },
    { "E4 line behind the stop key, final end-of-line removed", without_last_eol(S + TRAILER + "\n"), true },
    { "N1 no stop key, every line terminated", N, false },
    { "N2 no stop key, final end-of-line removed", without_last_eol(N), false },
    { "N3 no stop key, bare '\\r' behind the last line", without_last_eol(N) + "\r", false },
    { "N4 no stop key, blank lines / blanks behind the last line", N + tail_n, false },
    { "N5 no stop key, other end-of-line convention behind the last line", without_last_eol(N) + other_eol, false },
  };
  const int how0 = int(g.range(0, 2));
  Run n1;
  for (std::size_t i = 0; i < variants.size(); ++i)
    {
      const V& v = variants[i];
      // (N2, the central variant, goes through all three overloads over the cases; file-based for one variant in three)
      const int how = how0 + int(i);
      const Run r = run_text(v.text, removed, how);
      const std::string ctx = cat("\n  variant: ", v.name, "; overload: ", how % 3 == 0 ? "parse(string)" : how % 3 == 1 ? "parse(istream&)" : "parse(filename)",
                                  "\n--- text of the variant:\n", c17::enc(v.text), "<end of text>");
      const std::string diff = first_difference(r.v, base_v);
      VF_CHECK(diff.empty(), "the end of the text changes what is stored: '", diff,
               "' differs from what the same lines store in the text whose lines are all terminated and followed by the stop key", ctx);
      if (v.stop)
        VF_CHECK(r.ok == base_ok && r.threw == base_threw, "the end of the text changes the result of parse(): returns ", r.ok, "/threw ", r.threw,
                 ", the newline-terminated text gave ", base_ok, "/threw ", base_threw, ctx);
      else if (i == 4)
        {
          n1 = r;
          VF_CHECK(r.threw == base_threw, "without the stop key line parse() threw ", r.threw, ", with it ", base_threw, ctx);
          stats().cls(r.threw ? "no stop key: error() as with the stop key" : r.ok ? "no stop key: parse() returns true" : "no stop key: parse() returns false");
        }
      else
        VF_CHECK(r.ok == n1.ok && r.threw == n1.threw, "no stop key: the end-of-line behind the LAST line changes the result of parse(): returns ", r.ok,
                 "/threw ", r.threw, ", with every line terminated ", n1.ok, "/threw ", n1.threw, ctx);
    }
  c17::clean_scratch();
  // ---- the start of the text: the start key as the only line
  {
    const std::string first = join_text({ body[0] }, crlf); // (body[0] is the start key line: this function is only called with one)
    const Run s1 = run_text(first, removed, how0 + 1), s2 = run_text(without_last_eol(first), removed, how0 + 1);
    const std::string ctx = cat("\n--- text: ", c17::enc(first));
    VF_CHECK(!s1.threw && !s2.threw, "a text that consists of the start key line raised an exception: ", s1.what, s2.what, ctx);
    VF_CHECK(s1.ok == s2.ok, "start key line alone: parse() returns ", s1.ok, " with and ", s2.ok, " without end-of-line", ctx);
    const Vars dflt;
    VF_CHECK(first_difference(s1.v, dflt).empty() && first_difference(s2.v, dflt).empty(), "start key line alone: the variable '",
             first_difference(s1.v, dflt), first_difference(s2.v, dflt), "' lost its default", ctx);
    // not documented what a BOM / an empty first line / a blank first line do: observed only, with the clause
    // "parsed faithfully or rejected": if parse() accepts such a text it has to have stored what B stores
    static const char* const PREFIX[] = { "\xEF\xBB\xBF", "\n", " \t\n", "\r\n" };
    static const char* const PREFIX_NAME[] = { "UTF-8 BOM", "empty first line", "blank first line", "empty first line (\\r\\n)" };
    const int pi = int(g.range(0, 3));
    const Run rp = run_text(PREFIX[pi] + S, removed, how0);
    stats().cls(std::string("start of text | ") + PREFIX_NAME[pi] + (rp.threw ? " -> error()" : rp.ok ? " -> accepted" : " -> rejected (false)"));
    if (rp.ok && !rp.threw)
      VF_CHECK(first_difference(rp.v, base_v).empty(), "a text with a ", PREFIX_NAME[pi], " in front of the start key is accepted but '",
               first_difference(rp.v, base_v), "' is not what the text says", ctx);
  }
  stats().cls("end-of-text / start-of-text variants compared (9 + 3 parses)");
  return Result::pass();
}

Result
check(const json& c)
{
  c17::quiet();
  const std::string text = render(c);
  // remove_key(): "Removes a keyword from the list of keywords; returns true if it was found".  Lines with a removed keyword are
  // lines with an unknown keyword: ignored (KeyParser.h), whatever their index or value.
  const int removed = removed_key(c);
  Expect e;
  std::size_t n_before_error = 0;
  for (const auto& st : c["st"])
    {
      if (removed >= 0 && decode(st).type != 1 && decode(st).type != 2 && decode(st).type != 3 && target_of(decode(st).key) == removed)
        {
          ++n_before_error;
          continue;
        }
      apply(e, st);
      if (e.error)
        break;
      ++n_before_error;
    }
  const bool with_start = c["start"].get<int>() != 0;

  Synthetic p;
  if (removed >= 0)
    {
      stats().cls("a key removed with remove_key() before parsing");
      // (the keymap holds standardised keywords and remove_key() compares verbatim: the standardised spelling is what is documented to work)
      VF_CHECK(p.remove_key(c17::ref_standardise(KEYS[removed].name)), "remove_key() does not find the registered keyword '", KEYS[removed].name, "'");
      VF_CHECK(!p.remove_key(c17::ref_standardise(KEYS[removed].name)), "remove_key() finds the keyword '", KEYS[removed].name, "' a second time");
    }
  bool threw = false;
  bool ok = false;
  std::string what;
  {
    c17::AllocGuard guard;
    try
      {
        ok = p.parse(text, false);
      }
    catch (const stir_verif::AssertionFailure&)
      {
        throw;
      }
    catch (const std::exception& ex)
      {
        threw = true;
        what = ex.what();
      }
    guard.stop();
    VF_CHECK(guard.refused() == 0, "allocation of ", guard.refused(), " bytes while parsing a text of ", text.size(), " bytes");
  }
  const std::string ctx = "\n--- text:\n" + c17::enc(text);
  if (!with_start)
    {
      stats().cls("start key missing");
      // (rejection = false or, when the first line is itself erroneous, error())
      VF_CHECK(threw || !ok, "the start key is missing but parse() returned true", ctx);
      // (the first line is processed before the status test, so a variable may already be set: not excluded by the documentation)
      return Result::pass();
    }
  if (e.error)
    {
      stats().cls("error statement (bad index)");
      VF_CHECK(threw, "an index error (statement ", n_before_error, ") was not reported with error(); parse returned ", ok, ctx);
    }
  else
    {
      VF_CHECK(!threw, "valid text raised an exception: ", what, ctx);
      VF_CHECK(ok, "valid text: parse() returned false", ctx);
    }
  // all statements in front of the error (or all) must have been stored
  const Vars& a = p.v;
  const Vars& x = e.v;
  VF_CHECK(a.i == x.i, "an int: ", a.i, " expected ", x.i, ctx);
  VF_CHECK(a.l == x.l, "a long: ", a.l, " expected ", x.l, ctx);
  VF_CHECK(a.u == x.u, "an unsigned: ", a.u, " expected ", x.u, ctx);
  VF_CHECK(a.ul == x.ul, "an unsigned long: ", a.ul, " expected ", x.ul, ctx);
  VF_CHECK(a.f == x.f, "a float: ", a.f, " expected ", x.f, ctx);
  VF_CHECK(a.d == x.d, "a double: ", a.d, " expected ", x.d, ctx);
  VF_CHECK(a.b == x.b, "a bool: ", a.b, " expected ", x.b, ctx);
  VF_CHECK(a.s == x.s, "a string: '", a.s, "' expected '", x.s, "'", ctx);
  VF_CHECK(a.choice == x.choice, "a choice: ", a.choice, " expected ", x.choice, ctx);
  VF_CHECK(a.il == x.il, "int list: ", show(a.il), " expected ", show(x.il), ctx);
  VF_CHECK(a.dl == x.dl, "double list: ", show(a.dl), " expected ", show(x.dl), ctx);
  VF_CHECK(a.sl == x.sl, "string list: ", show(a.sl), " expected ", show(x.sl), ctx);
  VF_CHECK(a.vi == x.vi, "v int: ", show(a.vi), " expected ", show(x.vi), ctx);
  VF_CHECK(a.vu == x.vu, "v unsigned: ", show(a.vu), " expected ", show(x.vu), ctx);
  VF_CHECK(a.vul == x.vul, "v unsigned long: ", show(a.vul), " expected ", show(x.vul), ctx);
  VF_CHECK(a.vf_ == x.vf_, "v float: ", show(a.vf_), " expected ", show(x.vf_), ctx);
  VF_CHECK(a.vd == x.vd, "v double: ", show(a.vd), " expected ", show(x.vd), ctx);
  VF_CHECK(a.vs == x.vs, "v string: ", show(a.vs), " expected ", show(x.vs), ctx);
  VF_CHECK(a.vil == x.vil, "v int list differs", ctx);
  VF_CHECK(a.vdl == x.vdl, "v double list differs", ctx);
  VF_CHECK(a.t == x.t, "time (hh:mm:ss): ", a.t, " expected ", x.t, ctx);
  VF_CHECK(a.vr == x.vr, "v ratio a:b: ", show(a.vr), " expected ", show(x.vr), ctx);
  VF_CHECK(a.counted == x.counted, "counted int (call-back key): ", a.counted, " expected ", x.counted, ctx);
  if (!e.error) // (an index on this scalar key is an error() raised from inside the call-back)
    VF_CHECK(a.calls == x.calls, "the call-back of 'counted int' ran ", a.calls, " times, expected ", x.calls, ctx);
  if (!e.a2.is_null())
    VF_CHECK(same_array2(a.a2, e.a2), "array 2d differs from ", e.a2.dump(), ctx);
  if (!e.a3.is_null())
    VF_CHECK(same_array3(a.a3, e.a3), "array 3d differs from ", e.a3.dump(), ctx);
  if (!e.co.is_null())
    VF_CHECK(a.co[1] == ref_float(e.co[0]) && a.co[2] == ref_float(e.co[1]) && a.co[3] == ref_float(e.co[2]), "a coordinate differs from ",
             e.co.dump(), ctx);
  if (!e.coa.is_null())
    for (int d = 1; d <= 3; ++d)
      VF_CHECK(same_array3(a.coa[d], e.coa[std::size_t(d - 1)]), "coordinate of arrays, component ", d, " differs", ctx);

  // ---- the sibling overloads parse(std::istream&) and parse(const char* filename) give what parse(const std::string&) gives
  {
    Synthetic ps, pf;
    if (removed >= 0)
      {
        (void)ps.remove_key(c17::ref_standardise(KEYS[removed].name));
        (void)pf.remove_key(c17::ref_standardise(KEYS[removed].name));
      }
    bool oks = false, okf = false, threws = false, threwf = false;
    try
      {
        std::istringstream in(text);
        oks = ps.parse(in, false);
      }
    catch (const stir_verif::AssertionFailure&)
      {
        throw;
      }
    catch (const std::exception&)
      {
        threws = true;
      }
    const std::string fn = c17::scratch_dir() + "/kp.par";
    c17::write_file(fn, text);
    try
      {
        okf = pf.parse(fn.c_str(), false);
      }
    catch (const stir_verif::AssertionFailure&)
      {
        throw;
      }
    catch (const std::exception&)
      {
        threwf = true;
      }
    c17::clean_scratch();
    VF_CHECK(oks == ok && threws == threw, "parse(istream&) returns ", oks, "/threw ", threws, ", parse(string) returned ", ok, "/threw ", threw, ctx);
    VF_CHECK(okf == ok && threwf == threw, "parse(filename) returns ", okf, "/threw ", threwf, ", parse(string) returned ", ok, "/threw ", threw, ctx);
    VF_CHECK(first_difference(ps.v, p.v).empty(), "parse(istream&) stores another value than parse(string) in '", first_difference(ps.v, p.v), "'", ctx);
    VF_CHECK(first_difference(pf.v, p.v).empty(), "parse(filename) stores another value than parse(string) in '", first_difference(pf.v, p.v), "'", ctx);
    stats().cls("overloads parse(istream&) / parse(filename) compared with parse(string)");
  }

  // ---- (ext5) the same lines with other ends / starts of the text
  {
    const Result r = check_end_variants(c, removed, p.v, ok, threw);
    if (r.failed())
      return r;
  }

  // ---- the synthetic parser's own print must be re-parsable and idempotent after one round
  if (!e.error)
    {
      const std::string t1 = p.parameter_info();
      Synthetic q;
      if (removed >= 0)
        (void)q.remove_key(c17::ref_standardise(KEYS[removed].name));
      bool ok2 = false;
      try
        {
          ok2 = q.parse(t1, false);
        }
      catch (const stir_verif::AssertionFailure&)
        {
          throw;
        }
      catch (const std::exception& ex)
        {
          return Result::fail(cat("parameter_info() of the synthetic parser is not parsable: ", ex.what(), "\n", c17::enc(t1)));
        }
      VF_CHECK(ok2, "parameter_info() of the synthetic parser is refused\n", c17::enc(t1));
      const std::string t2 = q.parameter_info();
      VF_CHECK(t1 == t2, "parameter_info() not reproduced after re-parsing\n--- first:\n", c17::enc(t1), "\n--- second:\n", c17::enc(t2));
      // integers, strings and lists survive exactly
      VF_CHECK(q.v.i == a.i && q.v.l == a.l && q.v.u == a.u && q.v.ul == a.ul && q.v.b == a.b && q.v.choice == a.choice && q.v.il == a.il
                   && q.v.vi == a.vi && q.v.vu == a.vu && q.v.vul == a.vul && q.v.vil == a.vil && q.v.vs == a.vs && q.v.s == a.s,
               "integer/string values change in the print/parse round trip\n", c17::enc(t1));
    }
  return Result::pass();
}

bool
nontrivial(const json& c)
{
  if (c["start"].get<int>() == 0)
    return false;
  for (const auto& st : c["st"])
    {
      const Stmt d = decode(st);
      if (d.type == 0 && (KEYS[d.key].vectorised || KEYS[d.key].alias_of))
        return true;
    }
  return false;
}

} // namespace

const Property&
the_property()
{
  static Property p;
  p.id = "C17";
  p.gen = gen;
  p.check = check;
  p.nontrivial = nontrivial;
  p.shrink_lists = { "st" };
  p.rule = "";
  return p;
}

// C04 — matched projector pairs are linear, adjoint and additive over pieces.
//
// A Case = geometry (cylindrical or blocks-on-cylindrical scanner, sampling, image grid) + the matrix
// (ray tracing with any symmetry/cache/LOR/FOV switches, or interpolation on cylindrical data) + seeds for
// signed images x, x' and signed data y, y' + scalars a, b + num_subsets + sub-ranges.
// ProjectorByBinPairUsingProjMatrixByBin is driven through its public interface only.
//
// Oracles
//  (1) explicit matrix: P is assembled row by row (one get per bin, z-clipped as ProjMatrixElemsForOneBin::
//      forward_project/back_project document) from a SECOND, fresh matrix object with the same options and the
//      cache disabled; forward data == P x, back image == P^T y (double reference).  When all symmetry switches
//      are off this is the symmetry-free "computed directly" matrix.  (With symmetries on, rows of the few
//      rounding-tie bins legitimately differ from symmetry-free rows - that is C03's subject and screen - so the
//      symmetry-free P is compared as a statistic only.)
//  (2) adjoint identity for the whole data, every subset, every related-viewgram group, sub-range calls
//  (3) linearity of A and A^T
//  (4) pieces: subsets partition the projection; zero=false leaves other bins bit-identical and overwrites the
//      subset; zero=true zeroes the rest; a sub-range call fills exactly the sub-range; accumulation of back
//      projections and idempotent get_output
//  Additional projector kinds (check_onthefly / check_interp_backprojector, second half of this file):
//  (3'),(4') the forward-side clauses - linearity, subsets (zero=true/false into pre-filled data), related-viewgram groups, and
//      sub-range calls (ALL (min,max) axial x tangential combinations when they fit the budget, else every structural class + a
//      cycling sample; junk outside the requested range must stay bit-identical, inside == the full call) - for the on-the-fly
//      ForwardProjectorByBinUsingRayTracing; the back-side clauses (linearity, subsets, groups, accumulation) for
//      BackProjectorByBinUsingInterpolation (no adjointness: not a matched pair)
//  (5) last sentence of the property: ForwardProjectorByBinUsingRayTracing == P x with P from a symmetry-free, cache-free
//      ProjMatrixByBinUsingRayTracing with the same settings (1 tangential LOR, same FOV switch), for every bin that is not a tie
//      (c04_tiescreen.h), tolerance max(2e-5, 6e-5 kappa) of max(max|P x|, max|x|)
//  Known findings C04-F3 .. F9 are excluded exactly (see the comments at each excl("Fn")), each with a probe under known/C04/.
#include "explicit_p.h"
#include "stir/recon_buildblock/ProjectorByBinPairUsingProjMatrixByBin.h"
#include "stir/recon_buildblock/ForwardProjectorByBin.h"
#include "stir/recon_buildblock/ForwardProjectorByBinUsingProjMatrixByBin.h"
#include "stir/recon_buildblock/BackProjectorByBin.h"
#include "stir/recon_buildblock/ProjMatrixByBinUsingInterpolation.h"
#include "stir/recon_buildblock/ForwardProjectorByBinUsingRayTracing.h"
#include "stir/recon_buildblock/BackProjectorByBinUsingInterpolation.h"
#include "c04_tiescreen.h"
#include "stir/recon_buildblock/DataSymmetriesForBins.h"
#include "stir/RelatedViewgrams.h"
#include "stir/ViewSegmentNumbers.h"
#include "stir/ExamInfo.h"
#include "stir/ProjDataInMemory.h"
#include "stir/ProjDataInfoSubsetByView.h"
#include <sstream>
#include <iostream>
#include <set>
#include <array>

using namespace vf;
using namespace stir;

namespace {

double
tol(const char* name, double dflt)
{
  const char* e = std::getenv(name);
  return e ? std::atof(e) : dflt;
}
// calibrated tolerances (see props.d/C04.py); all relative to the maximum magnitude of the compared object
const double TOL_EXPLICIT = tol("C04_TOL_EXPLICIT", 2e-5); // projector output vs explicit P (float accumulation vs double)
const double TOL_ADJOINT = tol("C04_TOL_ADJOINT", 1e-5);   // |<Ax,y> - <x,A^T y>| <= tol * || |A||x| || ||y||  (see abs_forward_norm)
const double TOL_LINEAR = tol("C04_TOL_LINEAR", 2e-5);
const double TOL_PIECES = tol("C04_TOL_PIECES", 1e-5);

struct Setup
{
  shared_ptr<Scanner> sc;
  shared_ptr<ProjDataInfo> pdi;
  shared_ptr<VoxelsOnCartesianGrid<float>> img;
  shared_ptr<ExamInfo> exam;
};

std::string
interp_par(const json& c, bool cache, bool only_basic, bool with_sym)
{
  std::ostringstream s;
  const json& sym = c["sym"];
  auto on = [&](int k) { return with_sym && sym[std::size_t(k)].get<int>() != 0 ? 1 : 0; };
  s << "Interpolation Matrix Parameters:=\n"
    << "use_piecewise_linear_interpolation:=" << (c["interp"]["pli"].get<bool>() ? 1 : 0) << "\n"
    << "use_exact_Jacobian:=" << (c["interp"]["exact_jac"].get<bool>() ? 1 : 0) << "\n"
    << "disable caching:=" << (cache ? 0 : 1) << "\n"
    << "store_only_basic_bins_in_cache:=" << (only_basic ? 1 : 0) << "\n"
    << "do_symmetry_90degrees_min_phi:=" << on(0) << "\n"
    << "do_symmetry_180degrees_min_phi:=" << on(1) << "\n"
    << "do_symmetry_swap_segment:=" << on(2) << "\n"
    << "do_symmetry_swap_s:=" << on(3) << "\n"
    << "do_symmetry_shift_z:=" << on(4) << "\n"
    << "End Interpolation Matrix Parameters:=\n";
  return s.str();
}

//! matrix with the options of the case; cache_mode -1 = as in the case
shared_ptr<ProjMatrixByBin>
make_case_matrix(const json& c, int cache_mode, bool with_sym)
{
  const int cm = cache_mode < 0 ? c["cache"].get<int>() : cache_mode;
  if (c["matrix"].get<std::string>() == "interp")
    {
      shared_ptr<ProjMatrixByBinUsingInterpolation> m(new ProjMatrixByBinUsingInterpolation());
      std::istringstream is(interp_par(c, cm != 0, cm == 1, with_sym));
      if (!m->parse(is))
        error("harness: cannot parse the interpolation matrix parameters");
      return m;
    }
  vp::MatrixOpts o;
  o.num_tangential_LORs = c["lors"].get<int>();
  o.restrict_to_cylindrical_FOV = c["cyl_fov"].get<bool>();
  o.use_actual_detector_boundaries = false;
  const json& sym = c["sym"];
  auto on = [&](int k) { return with_sym && sym[std::size_t(k)].get<int>() != 0; };
  return vp::make_matrix(o, on(0), on(1), on(2), on(3), on(4), cm != 0, cm == 1);
}

struct BadRow
{
  std::string msg;
};
std::string show_bin(const Bin& b);

//! explicit sparse P from an (already set up) matrix: one request per bin
vp::ExplicitP
build_P(const shared_ptr<ProjMatrixByBin>& m, const shared_ptr<const ProjDataInfo>& pdi, const shared_ptr<const VoxelsOnCartesianGrid<float>>& image)
{
  vp::ExplicitP P;
  P.pdi = pdi;
  P.image = image;
  image->get_regular_range(P.imin, P.imax);
  P.nz = P.imax[1] - P.imin[1] + 1;
  P.ny = P.imax[2] - P.imin[2] + 1;
  P.nx = P.imax[3] - P.imin[3] + 1;
  vp::ExplicitP::enumerate_bins(*pdi, P.bins);
  P.rows.resize(P.bins.size());
  ProjMatrixElemsForOneBin row;
  for (std::size_t i = 0; i < P.bins.size(); ++i)
    {
      const Bin& b = P.bins[i];
      m->get_proj_matrix_elems_for_one_bin(row, Bin(b.segment_num(), b.view_num(), b.axial_pos_num(), b.tangential_pos_num(), b.timing_pos_num()));
      // the projectors index image[z][y][x] with z range-checked only: an element outside the x/y range is an out-of-bounds access
      for (auto it = row.begin(); it != row.end(); ++it)
        if (it->coord2() < P.imin[2] || it->coord2() > P.imax[2] || it->coord3() < P.imin[3] || it->coord3() > P.imax[3])
          throw BadRow{ cat("matrix row of ", show_bin(b), " has an element at (z,y,x)=(", it->coord1(), ",", it->coord2(), ",", it->coord3(), "), outside the image x/y range y ", P.imin[2], "..",
                            P.imax[2], " x ", P.imin[3], "..", P.imax[3], " (value ", it->get_value(), "): the projectors would read/write outside the image") };
      P.rows[i] = vp::ExplicitP::clip_row(P, row, &P.num_clipped);
    }
  return P;
}

//! sqrt( sum_{b in mask} (sum_i |P_bi| |x_i|)^2 ): magnitude of the forward projection without cancellation (conditioning of <Ax,y>)
double
abs_forward_norm(const vp::ExplicitP& P, const std::vector<double>& x, const std::vector<char>* mask)
{
  double s2 = 0;
  for (std::size_t b = 0; b < P.rows.size(); ++b)
    {
      if (mask && !(*mask)[b])
        continue;
      double acc = 0;
      for (auto& e : P.rows[b])
        acc += std::fabs(e.second) * std::fabs(x[std::size_t(e.first)]);
      s2 += acc * acc;
    }
  return std::sqrt(s2);
}

//! max_b sum_i |P_bi| |x_i|: the magnitude the float accumulation of one bin works with; with mixed-sign images and few bins max|P x| can be
//! far below it by cancellation, and the rounding error of the projector scales with this, not with the cancelled value
double
abs_forward_max(const vp::ExplicitP& P, const std::vector<double>& x)
{
  double m = 0;
  for (std::size_t b = 0; b < P.rows.size(); ++b)
    {
      double acc = 0;
      for (auto& e : P.rows[b])
        acc += std::fabs(e.second) * std::fabs(x[std::size_t(e.first)]);
      m = std::max(m, acc);
    }
  return m;
}

double
max_abs(const std::vector<double>& v)
{
  double m = 0;
  for (double x : v)
    m = std::max(m, std::fabs(x));
  return m;
}
double
dot(const std::vector<double>& a, const std::vector<double>& b)
{
  double s = 0;
  for (std::size_t i = 0; i < a.size(); ++i)
    s += a[i] * b[i];
  return s;
}
double
norm2(const std::vector<double>& a)
{
  return std::sqrt(dot(a, a));
}
//! max |a-b| and where
double
max_diff(const std::vector<double>& a, const std::vector<double>& b, std::size_t* where = nullptr)
{
  double m = 0;
  for (std::size_t i = 0; i < a.size(); ++i)
    if (std::fabs(a[i] - b[i]) > m)
      {
        m = std::fabs(a[i] - b[i]);
        if (where)
          *where = i;
      }
  return m;
}

std::string
show_bin(const Bin& b)
{
  return cat("bin(seg=", b.segment_num(), ",view=", b.view_num(), ",ax=", b.axial_pos_num(), ",tang=", b.tangential_pos_num(), ",tof=", b.timing_pos_num(), ")");
}

void
fill_pd(ProjDataInMemory& pd, const vp::ExplicitP& P, uint64_t seed, double lo, double hi, std::vector<double>& v)
{
  SplitMix g(seed);
  v.resize(P.bins.size());
  for (double& x : v)
    {
      x = double(float(g.real(lo, hi)));
      if (g.range(0, 9) == 0)
        x = 0; // exact zeros exercise the "skip zero bins" shortcut of the back projector
    }
  P.vec_to_projdata(pd, v);
}

struct Ctx
{
  const json& c;
  Setup S;
  shared_ptr<ProjectorByBinPairUsingProjMatrixByBin> pair;
  shared_ptr<ForwardProjectorByBin> fwd;
  shared_ptr<BackProjectorByBin> bck;
  shared_ptr<DataSymmetriesForViewSegmentNumbers> sym; // clone of the pair's symmetries
  vp::ExplicitP P;
  std::string desc;
  explicit Ctx(const json& cc) : c(cc) {}

  shared_ptr<ProjDataInMemory> new_pd(float fill = 0.F) const
  {
    shared_ptr<ProjDataInMemory> pd(new ProjDataInMemory(S.exam, S.pdi));
    if (fill != 0.F)
      pd->fill(fill);
    return pd;
  }
  shared_ptr<VoxelsOnCartesianGrid<float>> new_img() const
  {
    shared_ptr<VoxelsOnCartesianGrid<float>> im(S.img->get_empty_copy());
    im->fill(0.F);
    return im;
  }
  shared_ptr<VoxelsOnCartesianGrid<float>> random_img(uint64_t seed, std::vector<double>& v) const
  {
    shared_ptr<VoxelsOnCartesianGrid<float>> im = new_img();
    vg::fill_random(*im, seed, -1., 1.);
    v = P.image_to_vec(*im);
    return im;
  }
  //! view/segment pairs of subset k of n: related groups of the basic pairs whose view is k (mod n)   [ForwardProjectorByBin.cxx: find_basic_vs_nums_in_subset]
  std::vector<char> subset_mask(int k, int n) const
  {
    std::vector<char> mask(P.bins.size(), 0);
    const DataSymmetriesForViewSegmentNumbers& sy = *sym;
    for (std::size_t i = 0; i < P.bins.size(); ++i)
      {
        ViewSegmentNumbers vs(P.bins[i].view_num(), P.bins[i].segment_num());
        sy.find_basic_view_segment_numbers(vs);
        if ((vs.view_num() - S.pdi->get_min_view_num()) % n == k)
          mask[i] = 1;
      }
    return mask;
  }
};

#define C04_DO(expr)                                                                                                             \
  do                                                                                                                             \
    {                                                                                                                            \
      const Result r_ = (expr);                                                                                                  \
      if (r_.kind != Result::PASS)                                                                                               \
        return r_;                                                                                                               \
    }                                                                                                                            \
  while (0)

// ---- clause 1 + 3: explicit matrix, linearity -------------------------------------------------------------
Result
check_explicit_and_linear(Ctx& X)
{
  const json& c = X.c;
  std::vector<double> x, x2, y, y2;
  auto imx = X.random_img(c["seed_x"].get<uint64_t>(), x);
  auto imx2 = X.random_img(c["seed_x"].get<uint64_t>() ^ 0x5555aaaaULL, x2);
  const double a = c["a"].get<double>(), b = c["b"].get<double>();

  // forward
  auto pd = X.new_pd(), pd2 = X.new_pd(), pd3 = X.new_pd();
  X.fwd->forward_project(*pd, *imx);
  const std::vector<double> Ax = X.P.projdata_to_vec(*pd);
  const std::vector<double> ref = X.P.forward(x);
  const double scale = std::max(std::max(max_abs(ref), abs_forward_max(X.P, x)), 1e-30);
  {
    std::size_t w = 0;
    const double d = max_diff(Ax, ref, &w);
    stats().maxi("(1) max |A x - P x| / max|P x|", d / scale);
    VF_CHECK(d <= TOL_EXPLICIT * scale, "(1) forward projection differs from the explicit matrix at ", show_bin(X.P.bins[w]), ": projector ", Ax[w], ", P x ", ref[w], ", max|P x| ",
             scale, " ", X.desc);
  }
  // linearity of A
  X.fwd->forward_project(*pd2, *imx2);
  auto comb = X.new_img();
  {
    auto it = comb->begin_all();
    auto i1 = imx->begin_all_const();
    auto i2 = imx2->begin_all_const();
    for (; it != comb->end_all(); ++it, ++i1, ++i2)
      *it = float(a * double(*i1) + b * double(*i2));
  }
  std::vector<double> xc = X.P.image_to_vec(*comb);
  X.fwd->forward_project(*pd3, *comb);
  {
    const std::vector<double> Ax2 = X.P.projdata_to_vec(*pd2), Axc = X.P.projdata_to_vec(*pd3);
    std::vector<double> lin(Ax.size());
    for (std::size_t i = 0; i < lin.size(); ++i)
      lin[i] = a * Ax[i] + b * Ax2[i];
    std::size_t w = 0;
    // cancellation-free magnitude as in (1): with few bins both projections can be small by cancellation (mixed-sign images)
    const double sc = std::max(std::max(max_abs(lin), std::fabs(a) * std::max(max_abs(Ax), abs_forward_max(X.P, x))
                                                          + std::fabs(b) * std::max(max_abs(Ax2), abs_forward_max(X.P, x2))),
                               1e-30);
    const double d = max_diff(Axc, lin, &w);
    stats().maxi("(3) max |A(ax+bx') - aAx - bAx'| / scale", d / sc);
    VF_CHECK(d <= TOL_LINEAR * sc, "(3) forward projection not linear at ", show_bin(X.P.bins[w]), ": A(ax+bx')=", Axc[w], " aAx+bAx'=", lin[w], " scale ", sc, " a=", a, " b=", b, " ",
             X.desc);
  }
  // back
  auto pdy = X.new_pd(), pdy2 = X.new_pd(), pdyc = X.new_pd();
  fill_pd(*pdy, X.P, c["seed_y"].get<uint64_t>(), -1., 1., y);
  fill_pd(*pdy2, X.P, c["seed_y"].get<uint64_t>() ^ 0x33cc33ccULL, -1., 1., y2);
  auto out = X.new_img(), out2 = X.new_img(), outc = X.new_img();
  X.bck->back_project(*out, *pdy);
  const std::vector<double> Aty = X.P.image_to_vec(*out);
  const std::vector<double> refb = X.P.back(y);
  const double scb = std::max(max_abs(refb), 1e-30);
  {
    std::size_t w = 0;
    const double d = max_diff(Aty, refb, &w);
    stats().maxi("(1) max |A^T y - P^T y| / max|P^T y|", d / scb);
    VF_CHECK(d <= TOL_EXPLICIT * scb, "(1) back projection differs from the explicit matrix at voxel index ", w, ": projector ", Aty[w], ", P^T y ", refb[w], ", max ", scb, " ", X.desc);
  }
  // whole-data adjoint identity
  {
    const double lhs = dot(Ax, y), rhs = dot(x, Aty);
    // scale: |A||x| instead of |Ax| (float accumulation errors are relative to the sum without cancellation)
    const double sc = std::max(abs_forward_norm(X.P, x, nullptr) * norm2(y), 1e-30);
    stats().maxi("(2) whole data |<Ax,y>-<x,A^T y>| / (|A||x| |y|)", std::fabs(lhs - rhs) / sc);
    VF_CHECK(std::fabs(lhs - rhs) <= TOL_ADJOINT * sc, "(2) adjoint identity violated for the whole data: <Ax,y>=", lhs, " <x,A^T y>=", rhs, " |A||x| |y|=", sc, " ", X.desc);
  }
  // linearity of A^T
  {
    std::vector<double> yc(y.size());
    for (std::size_t i = 0; i < yc.size(); ++i)
      yc[i] = double(float(a * y[i] + b * y2[i]));
    X.P.vec_to_projdata(*pdyc, yc);
    X.bck->back_project(*out2, *pdy2);
    X.bck->back_project(*outc, *pdyc);
    const std::vector<double> Aty2 = X.P.image_to_vec(*out2), Atyc = X.P.image_to_vec(*outc);
    std::vector<double> lin(Aty.size());
    for (std::size_t i = 0; i < lin.size(); ++i)
      lin[i] = a * Aty[i] + b * Aty2[i];
    const double sc = std::max(std::fabs(a) * max_abs(Aty) + std::fabs(b) * max_abs(Aty2), 1e-30);
    std::size_t w = 0;
    const double d = max_diff(Atyc, lin, &w);
    stats().maxi("(3) max |A^T(ay+by') - aA^Ty - bA^Ty'| / scale", d / sc);
    VF_CHECK(d <= TOL_LINEAR * sc, "(3) back projection not linear at voxel index ", w, ": ", Atyc[w], " vs ", lin[w], " scale ", sc, " ", X.desc);
  }
  return Result::pass();
}

// ---- clauses 2 + 4 over subsets ----------------------------------------------------------------------------
Result
check_subsets(Ctx& X)
{
  const json& c = X.c;
  const int n = std::max(1, std::min(c["num_subsets"].get<int>(), X.S.pdi->get_num_views()));
  std::vector<double> x, y;
  auto imx = X.random_img(c["seed_x"].get<uint64_t>() + 17, x);
  auto pdy = X.new_pd();
  fill_pd(*pdy, X.P, c["seed_y"].get<uint64_t>() + 17, -1., 1., y);
  // one-shot
  auto whole = X.new_pd();
  X.fwd->forward_project(*whole, *imx);
  const std::vector<double> Ax = X.P.projdata_to_vec(*whole);
  auto whole_b = X.new_img();
  X.bck->back_project(*whole_b, *pdy);
  const std::vector<double> Aty = X.P.image_to_vec(*whole_b);
  const double scf = std::max(max_abs(Ax), 1e-30), scb = std::max(max_abs(Aty), 1e-30);

  std::vector<double> sum_f(Ax.size(), 0.), sum_b(Aty.size(), 0.);
  std::vector<int> covered(Ax.size(), 0);
  const float prefill = 7.25F;
  // (AUD_C) the subset membership is an INPUT of the oracle: subset_mask() asks the symmetries object of the code under test.
  // The harness's own statement where it needs no knowledge of the symmetry code: none of the supported symmetries other than the
  // two "minus phi" ones changes the view of a bin (swap_segment, swap_s and shift_z act inside a view: DataSymmetriesForBins_PET_
  // CartesianGrid.h), so when neither do_symmetry_90degrees_min_phi nor do_symmetry_180degrees_min_phi is requested, subset k of n
  // is exactly the set of bins of the views min_view + k, min_view + k + n, ... (ForwardProjectorByBin.h / find_basic_vs_nums_in_subset).
  const bool own_subsets = c["sym"][std::size_t(0)].get<int>() == 0 && c["sym"][std::size_t(1)].get<int>() == 0;
  if (own_subsets)
    stats().cls("subset membership: the harness's own statement (no minus-phi symmetry requested)");
  for (int k = 0; k < n; ++k)
    {
      const std::vector<char> mask = X.subset_mask(k, n);
      if (own_subsets)
        for (std::size_t i = 0; i < mask.size(); ++i)
          {
            const bool own = (X.P.bins[i].view_num() - X.S.pdi->get_min_view_num()) % n == k;
            VF_CHECK(own == (mask[i] != 0), "(4) subset ", k, "/", n, ": the symmetries put ", show_bin(X.P.bins[i]), mask[i] ? " into" : " outside",
                     " the subset, but no view symmetry is requested and its view is ", own ? "" : "not ", "k modulo n ", X.desc);
          }
      long inside = 0;
      for (char m : mask)
        inside += m;
      // zero = true
      auto pz = X.new_pd(prefill); // pre-filled with junk: zeroing (n>1) or overwriting must remove it
      X.fwd->forward_project(*pz, *imx, k, n, true);
      const std::vector<double> vz = X.P.projdata_to_vec(*pz);
      // zero = false into pre-filled data
      auto pk = X.new_pd(prefill);
      X.fwd->forward_project(*pk, *imx, k, n, false);
      const std::vector<double> vk = X.P.projdata_to_vec(*pk);
      for (std::size_t i = 0; i < mask.size(); ++i)
        {
          if (mask[i])
            {
              covered[i]++;
              VF_CHECK(std::fabs(vz[i] - Ax[i]) <= TOL_PIECES * scf, "(4) subset ", k, "/", n, " zero=true: ", show_bin(X.P.bins[i]), " = ", vz[i], " but one-shot projection gives ", Ax[i], " ",
                       X.desc);
              VF_CHECK(std::fabs(vk[i] - Ax[i]) <= TOL_PIECES * scf, "(4) subset ", k, "/", n, " zero=false: ", show_bin(X.P.bins[i]), " inside the subset = ", vk[i],
                       " (pre-filled with ", prefill, "), one-shot projection gives ", Ax[i], " ", X.desc);
              stats().maxi("(4) max |subset piece - one-shot| / max", std::max(std::fabs(vz[i] - Ax[i]), std::fabs(vk[i] - Ax[i])) / scf);
            }
          else
            {
              if (n > 1)
                VF_CHECK(vz[i] == 0., "(4) subset ", k, "/", n, " zero=true: ", show_bin(X.P.bins[i]), " outside the subset is ", vz[i], " instead of 0 ", X.desc);
              else
                VF_CHECK(false, "(4) n=1 but ", show_bin(X.P.bins[i]), " is not in the only subset ", X.desc);
              VF_CHECK(vk[i] == double(prefill), "(4) subset ", k, "/", n, " zero=false: ", show_bin(X.P.bins[i]), " outside the subset changed from ", prefill, " to ", vk[i], " ", X.desc);
            }
          sum_f[i] += vz[i];
        }
      // back projection of the subset, and the adjoint identity on it
      auto bk = X.new_img();
      X.bck->back_project(*bk, *pdy, k, n);
      const std::vector<double> vb = X.P.image_to_vec(*bk);
      for (std::size_t i = 0; i < vb.size(); ++i)
        sum_b[i] += vb[i];
      double lhs = 0, nAx = 0, ny = 0;
      for (std::size_t i = 0; i < mask.size(); ++i)
        if (mask[i])
          {
            lhs += vz[i] * y[i];
            nAx += vz[i] * vz[i];
            ny += y[i] * y[i];
          }
      const double rhs = dot(x, vb);
      (void)nAx;
      const double sc = std::max(abs_forward_norm(X.P, x, &mask) * std::sqrt(ny), 1e-30);
      if (inside > 0)
        {
          stats().maxi("(2) subsets |<Ax,y>-<x,A^T y>| / (|A||x| |y|)", std::fabs(lhs - rhs) / sc);
          VF_CHECK(std::fabs(lhs - rhs) <= TOL_ADJOINT * sc, "(2) adjoint identity violated on subset ", k, "/", n, ": <Ax,y>=", lhs, " <x,A^T y>=", rhs, " |A||x| |y|=", sc, " ", X.desc);
        }
      else
        VF_CHECK(max_abs(vb) == 0., "(2) empty subset ", k, "/", n, " back projects to a non-zero image ", X.desc);
    }
  for (std::size_t i = 0; i < covered.size(); ++i)
    VF_CHECK(covered[i] == 1, "(4) ", show_bin(X.P.bins[i]), " belongs to ", covered[i], " of the ", n, " subsets ", X.desc);
  {
    std::size_t w = 0;
    const double d = max_diff(sum_f, Ax, &w);
    VF_CHECK(d <= TOL_PIECES * scf, "(4) sum over ", n, " subsets of forward projections != one-shot at ", show_bin(X.P.bins[w]), ": ", sum_f[w], " vs ", Ax[w], " ", X.desc);
    const double db = max_diff(sum_b, Aty, &w);
    stats().maxi("(4) max |sum of subset back projections - one-shot| / max", db / scb);
    VF_CHECK(db <= TOL_LINEAR * scb, "(4) sum over ", n, " subsets of back projections != one-shot at voxel index ", w, ": ", sum_b[w], " vs ", Aty[w], " max ", scb, " ", X.desc);
  }
  stats().count("subset calls checked", n);
  return Result::pass();
}

// ---- (AUD_C) clauses 1 + 4 for a data set that is SMALLER than the geometry the projectors were set up for -----------------
// ForwardProjectorByBin::check / BackProjectorByBin::check accept any data with "*set_up_proj_data_info >= *data's info"
// (ProjDataInfo::operator>=: fewer segments, fewer tangential positions, fewer axial positions; views and TOF identical), and
// src/test/test_proj_data_info_subsets.cxx uses it (reduced segment range).  Case key "smaller" = [segments cut on each side,
// tangential cut low, high, axial cut low, high]; segment ranges stay symmetric (find_basic_vs_nums_in_subset asserts that the
// related view/segment pairs stay inside the segment range) and +-segment get the same axial cut (a related-viewgram group has one
// axial range).  Every bin of the smaller data must equal the bin of the whole-data projection (subset k of n, zero = true / false
// into pre-filled data), and its back projection must be P^T applied to the data extended by zeros.
Result
check_smaller_data(Ctx& X)
{
  const json& c = X.c;
  if (!c.contains("smaller") || !c["smaller"].is_array() || c["smaller"].size() < 5)
    return Result::pass();
  auto cut = [&](std::size_t k) { return int(std::max(0L, c["smaller"][k].get<long>())); };
  const ProjDataInfo& p = *X.S.pdi;
  shared_ptr<ProjDataInfo> p2(p.clone());
  {
    const int ms = std::min(p.get_max_segment_num(), -p.get_min_segment_num());
    const int keep = std::max(0, ms - cut(0));
    if (p.get_max_segment_num() == -p.get_min_segment_num() && keep < ms)
      p2->reduce_segment_range(-keep, keep);
    int t0 = p.get_min_tangential_pos_num() + cut(1), t1 = p.get_max_tangential_pos_num() - cut(2);
    if (t0 > t1)
      t0 = t1 = std::max(p.get_min_tangential_pos_num(), std::min(p.get_max_tangential_pos_num(), 0));
    p2->set_min_tangential_pos_num(t0);
    p2->set_max_tangential_pos_num(t1);
    for (int sg = 0; sg <= p2->get_max_segment_num(); ++sg)
      {
        if (p.get_min_axial_pos_num(sg) != p.get_min_axial_pos_num(-sg) || p.get_max_axial_pos_num(sg) != p.get_max_axial_pos_num(-sg))
          continue;
        int a0 = p.get_min_axial_pos_num(sg) + cut(3), a1 = p.get_max_axial_pos_num(sg) - cut(4);
        if (a0 > a1)
          a0 = a1 = p.get_min_axial_pos_num(sg);
        for (int s2 : { sg, -sg })
          {
            p2->set_min_axial_pos_num(a0, s2);
            p2->set_max_axial_pos_num(a1, s2);
          }
      }
  }
  if (*p2 == p)
    {
      stats().cls("smaller data: requested, nothing to cut");
      return Result::pass();
    }
  if (!(p >= *p2))
    { // (does not happen for the cuts above; the documented precondition of the calls below)
      stats().cls("smaller data: not >= (skipped)");
      return Result::pass();
    }
  stats().cls("smaller data: exercised");
  if (p2->get_num_segments() != p.get_num_segments())
    stats().cls("smaller data: fewer segments");
  if (p2->get_num_tangential_poss() != p.get_num_tangential_poss())
    stats().cls(p2->get_min_tangential_pos_num() + p2->get_max_tangential_pos_num() == p.get_min_tangential_pos_num() + p.get_max_tangential_pos_num()
                    ? "smaller data: fewer tangential positions, cut equally"
                    : "smaller data: fewer tangential positions, cut unequally");
  if (p2->get_num_tangential_poss() == 1)
    stats().cls("smaller data: a single tangential position");
  if (p2->get_num_axial_poss(0) != p.get_num_axial_poss(0))
    stats().cls("smaller data: fewer axial positions");

  std::vector<Bin> bins2;
  vp::ExplicitP::enumerate_bins(*p2, bins2);
  std::vector<double> x, yfull(X.P.bins.size(), 0.);
  auto imx = X.random_img(c["seed_x"].get<uint64_t>() + 53, x);
  const std::vector<double> Ax = X.P.forward(x);
  const double scf = std::max(std::max(max_abs(Ax), abs_forward_max(X.P, x)), 1e-30);
  // y on the smaller data (exact zeros included), its extension by zeros on the full data
  ProjDataInMemory y2(X.S.exam, p2);
  {
    SplitMix g(c["seed_y"].get<uint64_t>() + 53);
    for (int k = p2->get_min_tof_pos_num(); k <= p2->get_max_tof_pos_num(); ++k)
      for (int sg = p2->get_min_segment_num(); sg <= p2->get_max_segment_num(); ++sg)
        for (int v = p2->get_min_view_num(); v <= p2->get_max_view_num(); ++v)
          {
            Viewgram<float> vg2 = y2.get_empty_viewgram(v, sg, false, k);
            for (int a = p2->get_min_axial_pos_num(sg); a <= p2->get_max_axial_pos_num(sg); ++a)
              for (int t = p2->get_min_tangential_pos_num(); t <= p2->get_max_tangential_pos_num(); ++t)
                {
                  float val = float(g.real(-1., 1.));
                  if (g.range(0, 9) == 0)
                    val = 0.F;
                  vg2[a][t] = val;
                  yfull[std::size_t(X.P.bin_index(Bin(sg, v, a, t, k)))] = double(val);
                }
            y2.set_viewgram(vg2);
          }
  }
  const int n = std::max(1, std::min(c["num_subsets"].get<int>(), p.get_num_views()));
  std::set<int> ks = { 0, n - 1, int((c["seed_x"].get<uint64_t>() >> 7) % uint64_t(n)) };
  const float prefill = -3.5F;
  for (int k : ks)
    {
      const std::vector<char> mask = X.subset_mask(k, n);
      for (int zero = 0; zero < 2; ++zero)
        {
          ProjDataInMemory out(X.S.exam, p2);
          out.fill(prefill);
          X.fwd->forward_project(out, *imx, k, n, zero != 0);
          for (int kk = p2->get_min_tof_pos_num(); kk <= p2->get_max_tof_pos_num(); ++kk)
            for (int sg = p2->get_min_segment_num(); sg <= p2->get_max_segment_num(); ++sg)
              for (int v = p2->get_min_view_num(); v <= p2->get_max_view_num(); ++v)
                {
                  const Viewgram<float> vg2 = out.get_viewgram(v, sg, false, kk);
                  for (int a = p2->get_min_axial_pos_num(sg); a <= p2->get_max_axial_pos_num(sg); ++a)
                    for (int t = p2->get_min_tangential_pos_num(); t <= p2->get_max_tangential_pos_num(); ++t)
                      {
                        const Bin b(sg, v, a, t, kk);
                        const std::size_t bi = std::size_t(X.P.bin_index(b));
                        const double got = vg2[a][t];
                        if (mask[bi])
                          {
                            stats().maxi("(1) smaller data: max |A x - P x| / max|P x|", std::fabs(got - Ax[bi]) / scf);
                            VF_CHECK(std::fabs(got - Ax[bi]) <= TOL_EXPLICIT * scf, "(1) data smaller than the set_up geometry (segments ", p2->get_min_segment_num(), "..", p2->get_max_segment_num(),
                                     ", tang ", p2->get_min_tangential_pos_num(), "..", p2->get_max_tangential_pos_num(), ", ax of segment 0 ", p2->get_min_axial_pos_num(0), "..",
                                     p2->get_max_axial_pos_num(0), "), subset ", k, "/", n, " zero=", zero, ": ", show_bin(b), " = ", got, " but P x = ", Ax[bi], " ", X.desc);
                          }
                        else
                          {
                            const double want = (zero && n > 1) ? 0. : double(prefill);
                            VF_CHECK(got == want, "(4) data smaller than the set_up geometry, subset ", k, "/", n, " zero=", zero, ": ", show_bin(b), " outside the subset is ", got, " instead of ",
                                     want, " ", X.desc);
                          }
                      }
                }
        }
      auto bk = X.new_img();
      bk->fill(2.5F); // back_project(image, data) "overwrites the data already present in the volume" (BackProjectorByBin.h:81)
      X.bck->back_project(*bk, y2, k, n);
      const std::vector<double> vb = X.P.image_to_vec(*bk);
      const std::vector<double> ref = X.P.back(yfull, &mask);
      const double scb = std::max(std::max(max_abs(ref), max_abs(X.P.back(yfull))), 1e-30);
      std::size_t w = 0;
      const double d = max_diff(vb, ref, &w);
      stats().maxi("(1) smaller data: max |A^T y - P^T y| / max", d / scb);
      VF_CHECK(d <= TOL_EXPLICIT * scb, "(1) back projection of data smaller than the set_up geometry, subset ", k, "/", n, ", differs from P^T (y extended by zeros) at voxel index ", w, ": ",
               vb[w], " vs ", ref[w], ", max ", scb, " ", X.desc);
    }
  stats().count("smaller-data subset calls checked", long(ks.size()));
  return Result::pass();
}

// ---- clauses 2 + 4 over related-viewgram groups and sub-ranges ------------------------------------------------
Result
check_groups(Ctx& X)
{
  const json& c = X.c;
  const ProjDataInfo& p = *X.S.pdi;
  std::vector<double> x, y;
  auto imx = X.random_img(c["seed_x"].get<uint64_t>() + 31, x);
  auto pdy = X.new_pd();
  fill_pd(*pdy, X.P, c["seed_y"].get<uint64_t>() + 31, -1., 1., y);
  auto whole = X.new_pd();
  X.fwd->forward_project(*whole, *imx);
  const std::vector<double> Ax = X.P.projdata_to_vec(*whole);
  const double scf = std::max(max_abs(Ax), 1e-30);
  X.fwd->set_input(*imx);
  // (AUD_C) viewgrams handed to forward_project(RelatedViewgrams&, ...) are not empty: junk inside must be overwritten, junk
  // outside a requested sub-range must stay bit-identical ("projects ... into the viewgrams, overwrites the data already present")
  const bool prefill_vg = c.value("prefill_vg", false);
  const float vg_junk = -7.25F;
  stats().cls(prefill_vg ? "group / sub-range calls: viewgrams pre-filled with junk" : "group / sub-range calls: empty viewgrams");

  // sub-ranges (interpreted modulo the axial range of each segment / the tangential range)
  const json& sr = c["subranges"];
  std::vector<int> group_of_bin(X.P.bins.size(), -1);
  int ngroups = 0;
  std::vector<double> bp_first, bp_second; // for the accumulation clause
  std::vector<RelatedViewgrams<float>> keep;
  for (int k = p.get_min_tof_pos_num(); k <= p.get_max_tof_pos_num(); ++k)
    for (int seg = p.get_min_segment_num(); seg <= p.get_max_segment_num(); ++seg)
      for (int view = p.get_min_view_num(); view <= p.get_max_view_num(); ++view)
        {
          const ViewSegmentNumbers vs(view, seg);
          if (!X.sym->is_basic(vs))
            continue;
          ++ngroups;
          // ---- whole viewgrams of the group
          RelatedViewgrams<float> rv = whole->get_empty_related_viewgrams(vs, X.sym, false, k);
          if (prefill_vg) // (AUD_C) "it overwrites the data already present in the viewgram" (ForwardProjectorByBin.h:111)
            for (auto it = rv.begin(); it != rv.end(); ++it)
              it->fill(vg_junk);
          stats().maxi("largest related-viewgram group", double(rv.get_num_viewgrams()));
          if (rv.get_num_viewgrams() > 1)
            stats().count("related-viewgram groups of size > 1");
          X.fwd->forward_project(rv);
          const RelatedViewgrams<float> ry = pdy->get_related_viewgrams(vs, X.sym, false, k);
          double lhs = 0, nAx = 0, ny = 0;
          std::vector<char> gmask(X.P.bins.size(), 0);
          auto iy = ry.begin();
          for (auto it = rv.begin(); it != rv.end(); ++it, ++iy)
            {
              VF_CHECK(it->get_view_num() == iy->get_view_num() && it->get_segment_num() == iy->get_segment_num() && it->get_timing_pos_num() == k && iy->get_timing_pos_num() == k,
                       "related viewgrams of data and of the empty copy disagree (view/segment/TOF) ", X.desc);
              for (int a = p.get_min_axial_pos_num(it->get_segment_num()); a <= p.get_max_axial_pos_num(it->get_segment_num()); ++a)
                for (int t = p.get_min_tangential_pos_num(); t <= p.get_max_tangential_pos_num(); ++t)
                  {
                    const Bin b(it->get_segment_num(), it->get_view_num(), a, t, k);
                    const long bi = X.P.bin_index(b);
                    VF_CHECK(group_of_bin[std::size_t(bi)] == -1, show_bin(b), " occurs in two related-viewgram groups ", X.desc);
                    group_of_bin[std::size_t(bi)] = ngroups;
                    gmask[std::size_t(bi)] = 1;
                    const double v = (*it)[a][t];
                    VF_CHECK(std::fabs(v - Ax[std::size_t(bi)]) <= TOL_PIECES * scf, "(4) related-viewgram call gives ", v, " at ", show_bin(b), ", whole-data projection ", Ax[std::size_t(bi)],
                             " ", X.desc);
                    lhs += v * double((*iy)[a][t]);
                    nAx += v * v;
                    ny += double((*iy)[a][t]) * double((*iy)[a][t]);
                  }
            }
          X.bck->start_accumulating_in_new_target();
          X.bck->back_project(ry);
          auto out = X.new_img();
          X.bck->get_output(*out);
          const std::vector<double> vb = X.P.image_to_vec(*out);
          {
            const double rhs = dot(x, vb);
            (void)nAx;
            const double sc = std::max(abs_forward_norm(X.P, x, &gmask) * std::sqrt(ny), 1e-30);
            stats().maxi("(2) related groups |<Ax,y>-<x,A^T y>| / (|A||x| |y|)", std::fabs(lhs - rhs) / sc);
            VF_CHECK(std::fabs(lhs - rhs) <= TOL_ADJOINT * sc, "(2) adjoint identity violated on the related-viewgram group of view ", view, " segment ", seg, " TOF ", k, " (", rv.get_num_viewgrams(),
                     " viewgrams): <Ax,y>=", lhs, " <x,A^T y>=", rhs, " |A||x| |y|=", sc, " ", X.desc);
          }
          if (keep.size() < 2)
            {
              keep.push_back(ry);
              (keep.size() == 1 ? bp_first : bp_second) = vb;
            }
          // ---- sub-range calls on this group
          for (const json& r : sr)
            {
              const int seg_min_ax = p.get_min_axial_pos_num(seg), nax = p.get_num_axial_poss(seg);
              const int ntg = p.get_num_tangential_poss();
              int a0 = seg_min_ax + int(r[0].get<long>() % nax), a1 = seg_min_ax + int(r[1].get<long>() % nax);
              int t0 = p.get_min_tangential_pos_num() + int(r[2].get<long>() % ntg), t1 = p.get_min_tangential_pos_num() + int(r[3].get<long>() % ntg);
              if (a0 > a1)
                std::swap(a0, a1);
              if (t0 > t1)
                std::swap(t0, t1);
              // all viewgrams of a group have the same axial range for the generated data (checked: the call below would throw otherwise)
              RelatedViewgrams<float> sub = whole->get_empty_related_viewgrams(vs, X.sym, false, k);
              bool same_range = true;
              for (auto it = sub.begin(); it != sub.end(); ++it)
                same_range = same_range && p.get_min_axial_pos_num(it->get_segment_num()) == seg_min_ax && p.get_num_axial_poss(it->get_segment_num()) == nax;
              if (!same_range)
                continue;
              if (prefill_vg)
                for (auto it = sub.begin(); it != sub.end(); ++it)
                  it->fill(vg_junk);
              X.fwd->forward_project(sub, a0, a1, t0, t1);
              double l2 = 0, nA2 = 0, ny2 = 0;
              std::vector<char> rmask(X.P.bins.size(), 0);
              auto iy2 = ry.begin();
              RelatedViewgrams<float> ycut = ry; // y restricted to the sub-range (what back_project with a range uses)
              auto ic = ycut.begin();
              for (auto it = sub.begin(); it != sub.end(); ++it, ++iy2, ++ic)
                for (int a = seg_min_ax; a < seg_min_ax + nax; ++a)
                  for (int t = p.get_min_tangential_pos_num(); t <= p.get_max_tangential_pos_num(); ++t)
                    {
                      const Bin b(it->get_segment_num(), it->get_view_num(), a, t, k);
                      const bool in = a >= a0 && a <= a1 && t >= t0 && t <= t1;
                      const double v = (*it)[a][t];
                      if (in)
                        {
                          const double w = Ax[std::size_t(X.P.bin_index(b))];
                          rmask[std::size_t(X.P.bin_index(b))] = 1;
                          VF_CHECK(std::fabs(v - w) <= TOL_PIECES * scf, "(4) sub-range call ax ", a0, "..", a1, " tang ", t0, "..", t1, " gives ", v, " at ", show_bin(b), ", whole-data projection ", w,
                                   " ", X.desc);
                          l2 += v * double((*iy2)[a][t]);
                          nA2 += v * v;
                          ny2 += double((*iy2)[a][t]) * double((*iy2)[a][t]);
                        }
                      else
                        {
                          VF_CHECK(v == (prefill_vg ? double(vg_junk) : 0.), "(4) sub-range call ax ", a0, "..", a1, " tang ", t0, "..", t1, " wrote ", v, " outside the sub-range at ", show_bin(b),
                                   " (was ", prefill_vg ? double(vg_junk) : 0., ") ", X.desc);
                          (*ic)[a][t] = 0.F;
                        }
                    }
              X.bck->start_accumulating_in_new_target();
              X.bck->back_project(ry, a0, a1, t0, t1);
              auto o2 = X.new_img();
              X.bck->get_output(*o2);
              const std::vector<double> vb2 = X.P.image_to_vec(*o2);
              const double rhs2 = dot(x, vb2);
              (void)nA2;
              const double sc2 = std::max(abs_forward_norm(X.P, x, &rmask) * std::sqrt(ny2), 1e-30);
              stats().maxi("(2) sub-ranges |<Ax,y>-<x,A^T y>| / (|A||x| |y|)", std::fabs(l2 - rhs2) / sc2);
              VF_CHECK(std::fabs(l2 - rhs2) <= TOL_ADJOINT * sc2, "(2) adjoint identity violated on sub-range ax ", a0, "..", a1, " tang ", t0, "..", t1, " of the group of view ", view, " segment ", seg,
                       " TOF ", k, ": <Ax,y>=", l2, " <x,A^T y>=", rhs2, " |A||x| |y|=", sc2, " ", X.desc);
              // the same back projection through whole viewgrams that are zero outside the sub-range
              X.bck->start_accumulating_in_new_target();
              X.bck->back_project(ycut);
              auto o3 = X.new_img();
              X.bck->get_output(*o3);
              const std::vector<double> vb3 = X.P.image_to_vec(*o3);
              const double scb = std::max(std::max(max_abs(vb2), max_abs(vb3)), 1e-30);
              std::size_t w = 0;
              const double d = max_diff(vb2, vb3, &w);
              VF_CHECK(d <= TOL_LINEAR * scb, "(4) back projection of sub-range ax ", a0, "..", a1, " tang ", t0, "..", t1, " != back projection of the data zeroed outside it, voxel index ", w, ": ",
                       vb2[w], " vs ", vb3[w], " ", X.desc);
              stats().count("sub-range calls checked");
            }
        }
  for (std::size_t i = 0; i < group_of_bin.size(); ++i)
    VF_CHECK(group_of_bin[i] > 0, show_bin(X.P.bins[i]), " is in no related-viewgram group ", X.desc);
  stats().count("related-viewgram groups checked", ngroups);

  // ---- accumulation: bp(v1) then bp(v2) == bp(v1)+bp(v2) in either order; get_output idempotent --------------
  if (keep.size() == 2)
    {
      std::vector<double> want(bp_first.size());
      for (std::size_t i = 0; i < want.size(); ++i)
        want[i] = bp_first[i] + bp_second[i];
      const double sc = std::max(max_abs(bp_first) + max_abs(bp_second), 1e-30);
      for (int order = 0; order < 2; ++order)
        {
          X.bck->start_accumulating_in_new_target();
          X.bck->back_project(keep[std::size_t(order)]);
          X.bck->back_project(keep[std::size_t(1 - order)]);
          auto o1 = X.new_img();
          o1->fill(3.F); // get_output must overwrite its argument
          X.bck->get_output(*o1);
          auto o2 = X.new_img();
          X.bck->get_output(*o2);
          const std::vector<double> g1 = X.P.image_to_vec(*o1), g2 = X.P.image_to_vec(*o2);
          std::size_t w = 0;
          VF_CHECK(max_diff(g1, g2, &w) == 0., "(4) get_output is not idempotent: voxel index ", w, " ", g1[w], " then ", g2[w], " ", X.desc);
          const double d = max_diff(g1, want, &w);
          stats().maxi("(4) max |accumulated - (bp1+bp2)| / scale", d / sc);
          VF_CHECK(d <= TOL_LINEAR * sc, "(4) accumulated back projection (order ", order, ") != bp(v1)+bp(v2) at voxel index ", w, ": ", g1[w], " vs ", want[w], " ", X.desc);
        }
      // a new target forgets earlier contributions
      X.bck->start_accumulating_in_new_target();
      auto o0 = X.new_img();
      o0->fill(3.F);
      X.bck->get_output(*o0);
      VF_CHECK(max_abs(X.P.image_to_vec(*o0)) == 0., "(4) start_accumulating_in_new_target does not give a zero target ", X.desc);
    }
  return Result::pass();
}

// =====================================================================================================================
// Additional projector kinds.  The sentences "projection is linear", "projecting piecewise and adding the pieces equals
// projecting at once", "forward projecting a subset leaves all other bins unchanged / zero" and "every ... axial or
// tangential sub-range that can be requested" speak about forward (back) projection in general, so they are also decided
// for the hand-optimised on-the-fly projector ForwardProjectorByBinUsingRayTracing (all its in-line symmetry branches) and,
// for back projection (linearity, pieces, accumulation - NOT adjointness, it has no matched forward projector here), for
// BackProjectorByBinUsingInterpolation.  Clause 5 (last sentence of the property) is decided in check_onthefly().
// =====================================================================================================================
inline bool
no_exclude()
{
  static const bool v = std::getenv("VERIF_NO_EXCLUDE") != nullptr;
  return v;
}

//! is the exclusion of known finding \a id ("F3", "F5", ...) active?  VERIF_NO_EXCLUDE=1 switches all of them off (probes),
//! C04_NO_EXCLUDE_<id>=1 a single one (to confirm a repair of exactly that defect before the exclusion is deleted)
//! A probe file names its finding in the case ("probe": "F3"): with VERIF_NO_EXCLUDE=1 only THAT exclusion is then off, so that the
//! probe keeps failing for its own defect only (and stops failing when exactly that defect is repaired).
std::string g_probe;
//! findings that have been repaired in /repo: their exclusions are dead (the input class is part of the normal search again).
//! After committing work/fixes/C04_ext/01 (F3), 02 (F4), 03 (F9) add the ids here and move the probes to replays/C04/fixed_*.json.
const std::set<std::string> C04_REPAIRED = { "F3", "F4", "F9" };
inline bool
excl(const char* id)
{
  if (C04_REPAIRED.count(id))
    return false;
  if (std::getenv((std::string("C04_NO_EXCLUDE_") + id).c_str()) != nullptr)
    return false;
  if (no_exclude())
    return !(g_probe.empty() || g_probe == id);
  return true;
}

const double TOL_OTF = tol("C04_TOL_OTF", 2e-5); // clause 5: on-the-fly projector vs explicit matrix (float accumulation vs double), rel. to max|P x|
const double TOL_OTF_KAPPA = tol("C04_TOL_OTF_KAPPA", 6e-5); // ... times the conditioning kappa of the ray (calibrated, see props.d/C04.py)
const double TOL_OTF_CAP = tol("C04_TOL_OTF_CAP", 2e-2);     // bins whose tolerance would exceed this are not decided (counted)
const double TOL_BPI = tol("C04_TOL_BPI", 1e-5); // interpolating back projector: linearity / pieces (incremental float arithmetic), rel. to the max of the image

shared_ptr<VoxelsOnCartesianGrid<float>>
combine(const Ctx& X, const VoxelsOnCartesianGrid<float>& i1, const VoxelsOnCartesianGrid<float>& i2, double a, double b)
{
  auto comb = X.new_img();
  auto it = comb->begin_all();
  auto p1 = i1.begin_all_const();
  auto p2 = i2.begin_all_const();
  for (; it != comb->end_all(); ++it, ++p1, ++p2)
    *it = float(a * double(*p1) + b * double(*p2));
  return comb;
}

//! bins of subset k of n for the symmetries \a sy (ForwardProjectorByBin.cxx / BackProjectorByBin.cxx: find_basic_vs_nums_in_subset)
std::vector<char>
subset_mask_for(const Ctx& X, const DataSymmetriesForViewSegmentNumbers& sy, int k, int n)
{
  std::vector<char> mask(X.P.bins.size(), 0);
  for (std::size_t i = 0; i < X.P.bins.size(); ++i)
    {
      ViewSegmentNumbers vs(X.P.bins[i].view_num(), X.P.bins[i].segment_num());
      sy.find_basic_view_segment_numbers(vs);
      if ((vs.view_num() - X.S.pdi->get_min_view_num()) % n == k)
        mask[i] = 1;
    }
  return mask;
}

//! what ForwardProjectorByBinUsingRayTracing / BackProjectorByBinUsingInterpolation need to know about the z geometry
struct ZGeom
{
  bool ok = false;
  std::string why;
  int nppr = 0;           // image planes per ring
  int min_seg = 0;
  std::vector<int> nppap; // image planes per axial position, per segment
  std::vector<double> off; // axial_pos_to_z_offset, per segment
  bool aligned = true;     // all offsets integer: the data's planes are centred on image planes
};

ZGeom
z_geometry(const Ctx& X)
{
  ZGeom Z;
  const ProjDataInfo& p = *X.S.pdi;
  Z.min_seg = p.get_min_segment_num();
  try
    {
      DataSymmetriesForBins_PET_CartesianGrid dsy(X.S.pdi, X.S.img);
      Z.nppr = int(std::lround(dsy.get_num_planes_per_scanner_ring()));
      for (int sg = p.get_min_segment_num(); sg <= p.get_max_segment_num(); ++sg)
        {
          Z.nppap.push_back(int(std::lround(dsy.get_num_planes_per_axial_pos(sg))));
          const double o = dsy.get_axial_pos_to_z_offset(sg);
          Z.off.push_back(o);
          if (std::fabs(o - std::round(o)) > 1e-3)
            Z.aligned = false;
        }
      Z.ok = true;
    }
  catch (const stir_verif::AssertionFailure&)
    {
      throw;
    }
  catch (const std::exception& e)
    {
      Z.why = std::string("symmetries: ") + std::string(e.what()).substr(0, 50);
    }
  return Z;
}

//! sub-ranges (a0,a1,t0,t1) to request for one related-viewgram group.  If the full cross of all axial pairs and all tangential
//! pairs fits the budget it is enumerated completely ("every combination of min/max axial and tangential position"); otherwise
//! the structurally special ones (entirely negative / entirely positive tangential side, single bins, straddling 0, full) are
//! always present and the rest of the budget is a seeded sample that cycles through ALL tangential pairs and ALL axial pairs.
std::vector<std::array<int, 4>>
choose_ranges(int amin, int amax, int tmin, int tmax, long budget, uint64_t seed, bool& complete)
{
  std::vector<std::pair<int, int>> AP, TP;
  for (int a0 = amin; a0 <= amax; ++a0)
    for (int a1 = a0; a1 <= amax; ++a1)
      AP.push_back({ a0, a1 });
  for (int t0 = tmin; t0 <= tmax; ++t0)
    for (int t1 = t0; t1 <= tmax; ++t1)
      TP.push_back({ t0, t1 });
  std::vector<std::array<int, 4>> out;
  complete = long(AP.size()) * long(TP.size()) <= budget;
  if (complete)
    {
      for (auto& a : AP)
        for (auto& t : TP)
          out.push_back({ a.first, a.second, t.first, t.second });
      return out;
    }
  SplitMix g(seed);
  auto shuffle = [&](std::vector<std::pair<int, int>>& v) {
    for (std::size_t i = v.size(); i > 1; --i)
      std::swap(v[i - 1], v[std::size_t(g.range(0, long(i) - 1))]);
  };
  shuffle(AP);
  shuffle(TP);
  std::set<std::array<int, 4>> seen;
  auto add = [&](int a0, int a1, int t0, int t1) {
    if (t0 > t1 || a0 > a1 || t0 < tmin || t1 > tmax)
      return;
    std::array<int, 4> r{ a0, a1, t0, t1 };
    if (seen.insert(r).second)
      out.push_back(r);
  };
  const std::pair<int, int> arand = AP[0];
  // structural classes, with the full axial range and with one random axial sub-range
  for (int rep = 0; rep < 2; ++rep)
    {
      const int a0 = rep ? arand.first : amin, a1 = rep ? arand.second : amax;
      add(a0, a1, tmin, tmax);
      add(a0, a1, tmin, -1);  // entirely on the negative side, ending next to 0
      add(a0, a1, tmin, -2);  // entirely negative, not adjacent to 0
      add(a0, a1, 1, tmax);   // entirely positive
      add(a0, a1, 2, tmax);
      add(a0, a1, 0, 0);      // single bins
      add(a0, a1, -1, -1);
      add(a0, a1, 1, 1);
      add(a0, a1, tmin, tmin);
      add(a0, a1, tmax, tmax);
      add(a0, a1, tmin, 0);   // ends / starts at 0
      add(a0, a1, 0, tmax);
      add(a0, a1, -1, 1);
    }
  std::size_t ia = 0, it = 0;
  const long want = std::max(budget, long(out.size()));
  for (long guard = 0; long(out.size()) < want && guard < 4 * want; ++guard)
    {
      add(AP[ia].first, AP[ia].second, TP[it].first, TP[it].second);
      ia = (ia + 1) % AP.size();
      it = (it + 1) % TP.size();
      if (it == 0)
        ia = (ia + 1) % AP.size(); // de-correlate the two cycles
    }
  return out;
}

long
subrange_budget(const json& c)
{
  static const char* e = std::getenv("C04_SUBRANGE_BUDGET");
  if (e)
    return std::atol(e);
  return c.value("sr_budget", 1200L); // sub-range calls per case for the on-the-fly projector (set by the generator from the size: quick 1200, thorough 20000)
}

// KNOWN FINDING C04-F3 (see the report): ForwardProjectorByBinUsingRayTracing::forward_project_all_symmetries_2D, branch
// "tang_pos_num==0 and phi!=k*45" with 2 image planes per axial position, traces the half-ring-shifted rays into Projall2 only
// up to max_axial_pos_num (every other branch uses max_axial_pos_num + 1) but reads Projall2[ax + 1]: the bin at tangential
// position 0 of the LAST requested axial position of segment 0 misses the quarter contribution of the plane above it.
// Affected bins (exactly): segment with zero ring difference, 2 planes per axial position, tangential position 0,
// axial position == the last one of the call, basic view of the related group neither 0 nor num_views/4.
inline bool
f3_group(const ZGeom& Z, const ProjDataInfoCylindrical& pc, int basic_seg, int basic_view, int num_views)
{
  return pc.get_average_ring_difference(basic_seg) == 0 && Z.nppap[std::size_t(basic_seg - Z.min_seg)] == 2 && !(basic_view == 0 || 4 * basic_view == num_views);
}

// ---- the on-the-fly forward projector: clauses 3, 4 (forward side) and 5 -------------------------------------------------
Result
check_onthefly(Ctx& X)
{
  const json& c = X.c;
  const ProjDataInfo& p = *X.S.pdi;
  // ---- domain of the class; every restriction cites its source
  std::string na;
  if (dynamic_cast<const ProjDataInfoSubsetByView*>(&p))
    na = "data geometry is a subset by view"; // class doc: "projection data info HAS to be of type ProjDataInfoCylindrical"
  else if (X.S.sc->get_scanner_geometry() != "Cylindrical")
    na = "not a cylindrical scanner"; // class doc: "projection data info HAS to be of type ProjDataInfoCylindrical", s antisymmetric in tang_pos_num
  else if (p.get_num_views() % 2 != 0)
    na = "odd number of views"; // set_up: error("... cannot handle data with odd number of views")
  else if (std::fabs(p.get_phi(Bin(0, 0, 0, 0))) > 1e-4)
    na = "view offset"; // set_up: error("... cannot handle data with non-zero view offset")
  else if (p.is_tof_data())
    {
      // TOF is not mentioned in the class documentation.  With TOF data the symmetries object switches the segment-swap symmetry off,
      // so any oblique segment ends in error("...error in symmetries. Check 3D case") at projection time (reported, not a finding).
      // KNOWN FINDING C04-F6: TOF data with segment 0 only are accepted by set_up and forward_project, and every TOF bin receives the
      // complete non-TOF line integral (the matrix applies the TOF kernel): silently different data.  Excluded exactly: TOF and no oblique segment.
      if (p.get_min_segment_num() == 0 && p.get_max_segment_num() == 0)
        {
          if (excl("F6"))
            {
              na = "TOF data, direct sinograms only (known finding C04-F6)";
              stats().count("excluded: on-the-fly projector with direct-plane TOF data (known finding C04-F6)");
            }
        }
      else
        na = "TOF data with oblique segments (error() at projection time)";
    }
  ZGeom Z;
  if (na.empty())
    {
      Z = z_geometry(X);
      if (!Z.ok)
        na = Z.why;
      else if (Z.nppr != 2 && excl("F4"))
        na = "z voxel size != ring spacing / 2"; // Siddon.cxx:124-126 "in our current coordinate system, the following constant is always 2" + assertion; finding C04-F4
      else
        for (int n : Z.nppap)
          if (n != 1 && n != 2)
            na = "planes per axial position not 1 or 2"; // class doc: "z voxel size is either equal to or exactly [half] the sampling in axial direction of the segments"
    }
  if (na.empty() && excl("F7"))
    {
      // KNOWN FINDING C04-F7 (b): proj_Siddon reads the image through the x<->y swapping in-line symmetry unconditionally
      // (Bild[Z][X][-Y], Siddon.cxx:362 ff.), also when the 90-degree symmetries are off and the result goes to a dummy viewgram.  With
      // different x and y voxel sizes the swapped index can leave the grid (assertion in this build, out-of-bounds read in Release).
      // Excluded exactly: voxel sizes differ AND round(fovrad/vx) > y extent or round(fovrad/vy) > x extent.
      const auto vs0 = X.S.img->get_voxel_size();
      CartesianCoordinate3D<int> i0, i1;
      X.S.img->get_regular_range(i0, i1);
      const double ex = std::min(i1.x(), -i0.x()), ey = std::min(i1.y(), -i0.y());
      const double fr = std::min(ex * vs0.x(), ey * vs0.y());
      if (std::fabs(vs0.x() - vs0.y()) > 1e-4 * vs0.x() && (std::floor(fr / vs0.x() + 0.5 + 1e-3) > ey || std::floor(fr / vs0.y() + 0.5 + 1e-3) > ex))
        {
          na = "known finding C04-F7: swapped image index leaves the grid";
          stats().count("excluded: on-the-fly projector, x/y voxel sizes differ and the swapped index leaves the grid (known finding C04-F7)");
        }
    }
  if (!na.empty())
    {
      stats().cls("on-the-fly projector: not applicable (" + na + ")");
      return Result::pass();
    }
  const ProjDataInfoCylindrical& pc = dynamic_cast<const ProjDataInfoCylindrical&>(p);
  const bool cyl_fov = c["cyl_fov"].get<bool>();
  shared_ptr<ForwardProjectorByBinUsingRayTracing> fs(new ForwardProjectorByBinUsingRayTracing());
  {
    std::istringstream is(cat("Forward Projector Using Ray Tracing Parameters:=\nrestrict to cylindrical FOV := ", cyl_fov ? 1 : 0, "\nEnd Forward Projector Using Ray Tracing Parameters:=\n"));
    if (!fs->parse(is))
      return Result::fail("harness: cannot parse the ray tracing forward projector parameters");
  }
  try
    {
      fs->set_up(X.S.pdi, X.S.img);
    }
  catch (const stir_verif::AssertionFailure&)
    {
      throw;
    }
  catch (const std::exception& e)
    {
      stats().cls(std::string("on-the-fly projector: set_up rejected: ") + std::string(e.what()).substr(0, 60));
      return Result::pass();
    }
  stats().cls("on-the-fly projector: exercised");
  struct AssertsGuard
  { // experiments only (C04_ASSERTS_OFF=1): what a Release build computes where this build asserts
    AssertsGuard() { if (std::getenv("C04_ASSERTS_OFF")) stir_verif::asserts_on = false; }
    ~AssertsGuard() { stir_verif::asserts_on = true; }
  } asserts_guard;
  stats().cls(Z.aligned ? "on-the-fly: image planes centred on data planes" : "on-the-fly: image planes half a plane off the data planes");
  shared_ptr<DataSymmetriesForViewSegmentNumbers> sym(fs->get_symmetries_used()->clone());
  const std::string desc = cat("[on-the-fly ray tracing projector, cylFOV=", cyl_fov, " views=", p.get_num_views(), " bins=", X.P.bins.size(), " voxels=", X.P.nvox(), "]");
  const int num_views = p.get_num_views();

  // ---- per-bin tie screen and conditioning (c04_tiescreen.h), used by clause 5 and by the sub-range comparison ---------------
  const auto vsz = X.S.img->get_voxel_size();
  CartesianCoordinate3D<int> imin, imax;
  X.S.img->get_regular_range(imin, imax);
  c04::OtfGeom G;
  G.vx = vsz.x();
  G.vy = vsz.y();
  G.fovrad = std::min(std::min(imax.x(), -imin.x()) * double(vsz.x()), std::min(imax.y(), -imin.y()) * double(vsz.y()));
  G.cyl_fov = cyl_fov;
  G.R = pc.get_ring_radius();
  std::vector<double> kap(X.P.bins.size(), 1.);
  std::vector<int> tie(X.P.bins.size(), 0), tie_dim(X.P.bins.size(), -1);
  for (std::size_t i = 0; i < X.P.bins.size(); ++i)
    {
      const std::size_t si = std::size_t(X.P.bins[i].segment_num() - Z.min_seg);
      tie[i] = int(c04::screen_bin(pc, X.P.bins[i], G, Z.off[si], Z.nppap[si], Z.nppr, kap[i], tie_dim[i]));
    }

  // ---- whole data + linearity (clause 3) -----------------------------------------------------------------------------
  std::vector<double> x, x2;
  auto imx = X.random_img(c["seed_x"].get<uint64_t>() + 71, x);
  auto imx2 = X.random_img(c["seed_x"].get<uint64_t>() + 72, x2);
  const double a = c["a"].get<double>(), b = c["b"].get<double>();
  auto comb = combine(X, *imx, *imx2, a, b);
  const float prefill = -7.25F;
  auto pd = X.new_pd(prefill), pd2 = X.new_pd(), pd3 = X.new_pd();
  fs->forward_project(*pd, *imx); // "it overwrites the data already present in the projection data"
  fs->forward_project(*pd2, *imx2);
  fs->forward_project(*pd3, *comb);
  const std::vector<double> Ax = X.P.projdata_to_vec(*pd), Ax2 = X.P.projdata_to_vec(*pd2), Axc = X.P.projdata_to_vec(*pd3);
  // scale of the comparisons: the largest bin, but not less than a chord of one voxel through the largest voxel (the LOIs are in
  // units of the x voxel size).  Path lengths carry an absolute float noise of ~1e-6 voxel (a ray touching the corner of its first
  // voxel gets 4e-7 from one code and 0 from the other); in data sets where every ray only grazes the image that noise is not small
  // relative to the largest bin, so the tolerance is never tighter than TOL x (one voxel chord x max|x|).
  const double sc_floor = std::max(max_abs(x), 1e-30);
  const double scf = std::max(max_abs(Ax), sc_floor);
  if (max_abs(Ax) == 0.)
    stats().cls("on-the-fly: all-zero projection (image outside every LOR)");
  {
    std::vector<double> lin(Ax.size());
    for (std::size_t i = 0; i < lin.size(); ++i)
      lin[i] = a * Ax[i] + b * Ax2[i];
    std::size_t w = 0;
    const double sc = std::max(std::fabs(a) * max_abs(Ax) + std::fabs(b) * max_abs(Ax2), 1e-30);
    const double d = max_diff(Axc, lin, &w);
    stats().maxi("on-the-fly (3) max |A(ax+bx') - aAx - bAx'| / scale", d / sc);
    VF_CHECK(d <= TOL_LINEAR * sc, "(3) on-the-fly forward projection not linear at ", show_bin(X.P.bins[w]), ": A(ax+bx')=", Axc[w], " aAx+bAx'=", lin[w], " scale ", sc, " a=", a, " b=", b, " ",
             desc);
  }

  // ---- subsets (clause 4) ----------------------------------------------------------------------------------------------
  {
    const int n = std::max(1, std::min(c["num_subsets"].get<int>(), num_views));
    std::vector<double> sum_f(Ax.size(), 0.);
    std::vector<int> covered(Ax.size(), 0);
    for (int k = 0; k < n; ++k)
      {
        const std::vector<char> mask = subset_mask_for(X, *sym, k, n);
        auto pz = X.new_pd(prefill);
        fs->forward_project(*pz, *imx, k, n, true);
        auto pk = X.new_pd(prefill);
        fs->forward_project(*pk, *imx, k, n, false);
        const std::vector<double> vz = X.P.projdata_to_vec(*pz), vk = X.P.projdata_to_vec(*pk);
        for (std::size_t i = 0; i < mask.size(); ++i)
          {
            if (mask[i])
              {
                covered[i]++;
                VF_CHECK(std::fabs(vz[i] - Ax[i]) <= TOL_PIECES * scf, "(4) on-the-fly subset ", k, "/", n, " zero=true: ", show_bin(X.P.bins[i]), " = ", vz[i], " but one-shot projection gives ", Ax[i],
                         " ", desc);
                VF_CHECK(std::fabs(vk[i] - Ax[i]) <= TOL_PIECES * scf, "(4) on-the-fly subset ", k, "/", n, " zero=false: ", show_bin(X.P.bins[i]), " inside the subset = ", vk[i], " (pre-filled with ",
                         prefill, "), one-shot projection gives ", Ax[i], " ", desc);
              }
            else
              {
                if (n > 1)
                  VF_CHECK(vz[i] == 0., "(4) on-the-fly subset ", k, "/", n, " zero=true: ", show_bin(X.P.bins[i]), " outside the subset is ", vz[i], " instead of 0 ", desc);
                else
                  VF_CHECK(false, "(4) on-the-fly n=1 but ", show_bin(X.P.bins[i]), " is not in the only subset ", desc);
                VF_CHECK(vk[i] == double(prefill), "(4) on-the-fly subset ", k, "/", n, " zero=false: ", show_bin(X.P.bins[i]), " outside the subset changed from ", prefill, " to ", vk[i], " ", desc);
              }
            sum_f[i] += mask[i] ? vz[i] : 0.;
          }
      }
    for (std::size_t i = 0; i < covered.size(); ++i)
      VF_CHECK(covered[i] == 1, "(4) on-the-fly: ", show_bin(X.P.bins[i]), " belongs to ", covered[i], " of the ", n, " subsets ", desc);
    std::size_t w = 0;
    const double d = max_diff(sum_f, Ax, &w);
    VF_CHECK(d <= TOL_PIECES * scf, "(4) on-the-fly: sum over ", n, " subsets of forward projections != one-shot at ", show_bin(X.P.bins[w]), ": ", sum_f[w], " vs ", Ax[w], " ", desc);
    stats().count("on-the-fly: subset calls checked", n);
  }

  // ---- related-viewgram groups and sub-range calls (clause 4) ---------------------------------------------------------------
  {
    fs->set_input(*imx);
    std::vector<ViewSegmentNumbers> basics;
    for (int seg = p.get_min_segment_num(); seg <= p.get_max_segment_num(); ++seg)
      for (int view = p.get_min_view_num(); view <= p.get_max_view_num(); ++view)
        if (sym->is_basic(ViewSegmentNumbers(view, seg)))
          basics.push_back(ViewSegmentNumbers(view, seg));
    const long per_group = std::max(30L, subrange_budget(c) / std::max<long>(1, long(basics.size())));
    std::vector<int> group_of_bin(X.P.bins.size(), -1);
    int ngroups = 0;
    long f3_skipped = 0, f5_skipped = 0, ztie_skipped = 0;
    for (int tofk = p.get_min_tof_pos_num(); tofk <= p.get_max_tof_pos_num(); ++tofk) // (one pass for non-TOF data; TOF only when the exclusion of C04-F6 is off)
    for (const ViewSegmentNumbers& vs : basics)
      {
        ++ngroups;
        const int seg = vs.segment_num(), view = vs.view_num();
        RelatedViewgrams<float> rv = pd->get_empty_related_viewgrams(vs, sym, false, tofk);
        stats().maxi("on-the-fly: largest related-viewgram group", double(rv.get_num_viewgrams()));
        stats().cls(cat("on-the-fly: groups of ", rv.get_num_viewgrams(), " viewgrams, ", seg == 0 ? "direct" : "oblique"));
        fs->forward_project(rv);
        for (auto it = rv.begin(); it != rv.end(); ++it)
          for (int ax = p.get_min_axial_pos_num(it->get_segment_num()); ax <= p.get_max_axial_pos_num(it->get_segment_num()); ++ax)
            for (int t = p.get_min_tangential_pos_num(); t <= p.get_max_tangential_pos_num(); ++t)
              {
                const Bin bn(it->get_segment_num(), it->get_view_num(), ax, t, tofk);
                const long bi = X.P.bin_index(bn);
                VF_CHECK(group_of_bin[std::size_t(bi)] == -1, "on-the-fly: ", show_bin(bn), " occurs in two related-viewgram groups ", desc);
                group_of_bin[std::size_t(bi)] = ngroups;
                const double v = (*it)[ax][t];
                VF_CHECK(std::fabs(v - Ax[std::size_t(bi)]) <= TOL_PIECES * scf, "(4) on-the-fly related-viewgram call gives ", v, " at ", show_bin(bn), ", whole-data projection ", Ax[std::size_t(bi)],
                         " ", desc);
              }
        // the same call into viewgrams that already hold data: ForwardProjectorByBin.h documents forward_project(RelatedViewgrams&) as
        // "it overwrites the data already present in the viewgram".
        // KNOWN FINDING C04-F9: ForwardProjectorByBinUsingRayTracing ADDS to the viewgrams (every branch ends in "pos_view[...] += Projall[...]");
        // only callers that pass empty viewgrams (forward_project(ProjData&...), the objective functions) get the documented result.
        if (!excl("F9"))
          {
            RelatedViewgrams<float> full = pd->get_empty_related_viewgrams(vs, sym, false, tofk);
            for (auto it = full.begin(); it != full.end(); ++it)
              it->fill(prefill);
            fs->forward_project(full);
            auto iw = rv.begin();
            for (auto it = full.begin(); it != full.end(); ++it, ++iw)
              for (int ax = p.get_min_axial_pos_num(it->get_segment_num()); ax <= p.get_max_axial_pos_num(it->get_segment_num()); ++ax)
                for (int t = p.get_min_tangential_pos_num(); t <= p.get_max_tangential_pos_num(); ++t)
                  VF_CHECK(std::fabs(double((*it)[ax][t]) - double((*iw)[ax][t])) <= TOL_PIECES * scf, "(4) on-the-fly forward_project(RelatedViewgrams) into viewgrams pre-filled with ", prefill,
                           " gives ", (*it)[ax][t], " at ", show_bin(Bin(it->get_segment_num(), it->get_view_num(), ax, t, tofk)), "; into empty viewgrams it gives ", (*iw)[ax][t],
                           ": the data already present are not overwritten (documented: \"it overwrites the data already present in the viewgram\") ", desc);
          }
        else
          stats().count("excluded: on-the-fly forward_project into non-empty viewgrams (known finding C04-F9), groups");
        // sub-ranges: all viewgrams of a group must have the axial range of the basic segment (segment-swap symmetry: true for the generated data)
        const int amin = p.get_min_axial_pos_num(seg), amax = p.get_max_axial_pos_num(seg);
        bool same_range = true;
        for (auto it = rv.begin(); it != rv.end(); ++it)
          same_range = same_range && p.get_min_axial_pos_num(it->get_segment_num()) == amin && p.get_max_axial_pos_num(it->get_segment_num()) == amax;
        if (!same_range)
          continue;
        const int tmin = p.get_min_tangential_pos_num(), tmax = p.get_max_tangential_pos_num();
        bool complete = false;
        std::vector<std::array<int, 4>> ranges = choose_ranges(amin, amax, tmin, tmax, per_group, c["seed_x"].get<uint64_t>() * 31 + uint64_t(ngroups), complete);
        // the case's own sub-ranges as well (they are the ones the shrinker can minimise)
        for (const json& r : c["subranges"])
          {
            const int nax = amax - amin + 1, ntg = tmax - tmin + 1;
            int a0 = amin + int(r[0].get<long>() % nax), a1 = amin + int(r[1].get<long>() % nax);
            int t0 = tmin + int(r[2].get<long>() % ntg), t1 = tmin + int(r[3].get<long>() % ntg);
            if (a0 > a1)
              std::swap(a0, a1);
            if (t0 > t1)
              std::swap(t0, t1);
            ranges.push_back({ a0, a1, t0, t1 });
          }
        if (complete)
          stats().count("on-the-fly: groups with ALL (min,max) axial x tangential sub-ranges enumerated");
        else
          stats().count("on-the-fly: groups with a sampled set of sub-ranges");
        const bool f3 = f3_group(Z, pc, seg, view, num_views);
        // KNOWN FINDING C04-F5: image planes half a plane off the data's planes (half-integer axial_pos_to_z_offset): every ray of a
        // direct segment runs exactly in the plane between two image planes; the projector picks ONE of them with
        // round(start_point.z()) (Siddon.cxx:213,285), and because round() is "half away from zero" the choice depends on the sign of
        // z, i.e. on min_axial_pos_num of the call: a sub-range call starting at axial position >= 1 projects other planes than the full call.
        const bool f5 = !Z.aligned && pc.get_average_ring_difference(seg) == 0 && excl("F5");
        for (const auto& r : ranges)
          {
            const int a0 = r[0], a1 = r[1], t0 = r[2], t1 = r[3];
            RelatedViewgrams<float> sub = pd->get_empty_related_viewgrams(vs, sym, false, tofk);
            // junk outside the requested range (must stay bit-identical), zero inside (so that "overwrites" - the base class
            // documentation - and "adds to" - what this projector does - are not distinguished here)
            for (auto it = sub.begin(); it != sub.end(); ++it)
              for (int ax = amin; ax <= amax; ++ax)
                for (int t = tmin; t <= tmax; ++t)
                  if (!(ax >= a0 && ax <= a1 && t >= t0 && t <= t1))
                    (*it)[ax][t] = prefill;
            fs->forward_project(sub, a0, a1, t0, t1);
            for (auto it = sub.begin(); it != sub.end(); ++it)
              for (int ax = amin; ax <= amax; ++ax)
                for (int t = tmin; t <= tmax; ++t)
                  {
                    const double v = (*it)[ax][t];
                    if (ax >= a0 && ax <= a1 && t >= t0 && t <= t1)
                      {
                        if (f3 && t == 0 && ax == a1 && excl("F3"))
                          {
                            ++f3_skipped;
                            continue; // known finding C04-F3
                          }
                        if (f5)
                          {
                            ++f5_skipped;
                            continue; // known finding C04-F5
                          }
                        const Bin bn(it->get_segment_num(), it->get_view_num(), ax, t, tofk);
                        const std::size_t bi = std::size_t(X.P.bin_index(bn));
                        const double w = Ax[bi];
                        // the two calls compute the start point z from different min_axial_pos_num: equal up to float rounding of z, which
                        // moves plane crossings by eps * kappa (oblique rays) and flips the first/last plane when z is a rounding tie
                        if (tie[bi] != int(c04::NO_TIE) && tie_dim[bi] == 0)
                          {
                            ++ztie_skipped;
                            continue;
                          }
                        const double tol_i = std::max(TOL_PIECES, TOL_OTF_KAPPA * kap[bi]);
                        if (tol_i > TOL_OTF_CAP)
                          continue;
                        stats().maxi("on-the-fly (4) max |sub-range call - whole-data projection| / max", std::fabs(v - w) / scf);
                        stats().maxi("on-the-fly (4) max |sub-range call - whole-data projection| / max / kappa", std::fabs(v - w) / scf / kap[bi]);
                        VF_CHECK(std::fabs(v - w) <= tol_i * scf, "(4) on-the-fly sub-range call ax ", a0, "..", a1, " tang ", t0, "..", t1, " gives ", v, " at ", show_bin(bn),
                                 ", whole-data projection ", w, " ", desc);
                      }
                    else
                      VF_CHECK(v == double(prefill), "(4) on-the-fly sub-range call ax ", a0, "..", a1, " tang ", t0, "..", t1, " changed ",
                               show_bin(Bin(it->get_segment_num(), it->get_view_num(), ax, t, tofk)), " outside the sub-range from ", prefill, " to ", v, " ", desc);
                  }
            if (t1 < 0)
              stats().count(seg == 0 ? "on-the-fly: sub-range calls entirely on the negative tangential side, direct" : "on-the-fly: sub-range calls entirely on the negative tangential side, oblique");
            else if (t0 > 0)
              stats().count("on-the-fly: sub-range calls entirely on the positive tangential side");
            if (t0 == t1 && a0 == a1)
              stats().count("on-the-fly: single-bin sub-range calls");
            stats().count("on-the-fly: sub-range calls checked");
          }
      }
    for (std::size_t i = 0; i < group_of_bin.size(); ++i)
      VF_CHECK(group_of_bin[i] > 0, "on-the-fly: ", show_bin(X.P.bins[i]), " is in no related-viewgram group ", desc);
    stats().count("on-the-fly: related-viewgram groups checked", ngroups);
    if (f3_skipped)
      stats().count("on-the-fly: bins not compared in sub-range calls (known finding C04-F3)", f3_skipped);
    if (f5_skipped)
      stats().count("on-the-fly: bins not compared in sub-range calls (known finding C04-F5)", f5_skipped);
    stats().count("on-the-fly: bins not compared in sub-range calls (end point z on a plane boundary: rounding tie)", ztie_skipped);
  }

  // ---- clause 5: same data as forward projection through the ray-tracing matrix with the same settings -----------------------
  // same settings = 1 tangential LOR (the class traces one per bin), the same FOV switch, LORs through the bin centres (no
  // "actual detector boundaries"); the reference is P x in double with P from a symmetry-free, cache-free matrix.
  {
    vp::MatrixOpts o;
    o.num_tangential_LORs = 1;
    o.restrict_to_cylindrical_FOV = cyl_fov;
    o.use_actual_detector_boundaries = false;
    const vp::ExplicitP Pd = vp::ExplicitP::build(X.S.pdi, X.S.img, o);
    const std::vector<double> ref = Pd.forward(x);
    const double sc = std::max(max_abs(ref), sc_floor);
    long compared = 0, ties[5] = { 0, 0, 0, 0, 0 }, f3 = 0, f7 = 0, nonzero = 0, illcond = 0;
    for (std::size_t i = 0; i < ref.size(); ++i)
      {
        const Bin& bn = X.P.bins[i];
        const std::size_t si = std::size_t(bn.segment_num() - Z.min_seg);
        const double kappa = kap[i];
        const c04::TieKind tk = c04::TieKind(tie[i]);
        if (tk != c04::NO_TIE && !(tk == c04::TIE_PLANE_Z && !excl("F5")))
          {
            ++ties[int(tk)];
            continue;
          }
        if (excl("F3") && bn.tangential_pos_num() == 0 && bn.axial_pos_num() == p.get_max_axial_pos_num(bn.segment_num()))
          {
            ViewSegmentNumbers vs(bn.view_num(), bn.segment_num());
            sym->find_basic_view_segment_numbers(vs);
            if (f3_group(Z, pc, vs.segment_num(), vs.view_num(), num_views))
              {
                ++f3;
                continue; // known finding C04-F3
              }
          }
        // KNOWN FINDING C04-F7: with different x and y voxel sizes the symmetries object switches the 90-degree symmetries off, and
        // the group of the basic view num_views/4 (45 degrees) is {v, num_views - v}; because num_views - v == v + num_views/2 the
        // projector takes it for a "view + 90 degrees" pair (ForwardProjectorByBinUsingRayTracing.cxx:198, 279) and fills view
        // 3*num_views/4 through the x<->y swapping in-line symmetry, which does not hold for non-square voxels.
        if (excl("F7") && num_views % 4 == 0 && bn.view_num() == 3 * num_views / 4 && std::fabs(vsz.x() - vsz.y()) > 2.E-3F)
          {
            ++f7;
            continue;
          }
        ++compared;
        if (ref[i] != 0.)
          ++nonzero;
        if (std::getenv("C04_DUMP"))
          std::cerr << "DUMP " << show_bin(bn) << " otf " << Ax[i] << " ref " << ref[i] << (std::fabs(Ax[i] - ref[i]) > TOL_OTF * sc ? "  <<<<" : "") << "\n";
        // tolerance follows the conditioning of the ray (nearly axial-parallel oblique rays: plane crossings move by eps * kappa)
        const double tol_i = std::max(TOL_OTF, TOL_OTF_KAPPA * kappa);
        if (tol_i > TOL_OTF_CAP)
          {
            --compared;
            ++illcond;
            continue; // so ill-conditioned that a comparison could not tell a wrong voxel from rounding: not decided, counted
          }
        stats().maxi("(5) max |on-the-fly - P x| / max|P x|, decided bins", std::fabs(Ax[i] - ref[i]) / sc);
        stats().maxi("(5) max |on-the-fly - P x| / max|P x| / kappa, decided bins", std::fabs(Ax[i] - ref[i]) / sc / kappa);
        stats().maxi("(5) max kappa of a decided bin", kappa);
        stats().maxi("(5) max observed / allowed", std::fabs(Ax[i] - ref[i]) / sc / tol_i);
        VF_CHECK(std::fabs(Ax[i] - ref[i]) <= tol_i * sc, "(5) on-the-fly ray tracing projector gives ", Ax[i], " at ", show_bin(bn), ", forward projection through the ray-tracing matrix (1 LOR, cylFOV=",
                 cyl_fov, ") gives ", ref[i], ", max|P x| ", sc, " (s=", pc.get_s(bn), " mm, phi=", pc.get_phi(bn), ", planes/axial pos ", Z.nppap[si], ", z offset ", Z.off[si], ") ", desc);
      }
    stats().count("(5) bins compared", compared);
    stats().count("(5) bins compared with non-zero reference", nonzero);
    stats().count("(5) bins screened: end point on a voxel boundary (T1)", ties[int(c04::TIE_ENDPOINT)]);
    stats().count("(5) bins screened: ray in a transaxial plane between voxels (T2 xy)", ties[int(c04::TIE_PLANE_XY)]);
    stats().count("(5) bins screened: direct ray in a plane between image planes (T2 z, finding C04-F5)", ties[int(c04::TIE_PLANE_Z)]);
    stats().count("(5) bins screened: empty/non-empty or parallel threshold (T3)", ties[int(c04::TIE_EMPTY)]);
    if (f3)
      stats().count("(5) bins not compared (known finding C04-F3)", f3);
    if (f7)
      stats().count("(5) bins not compared (known finding C04-F7)", f7);
    stats().count("(5) bins not decided: ill-conditioned ray (tolerance would exceed the cap)", illcond);
    stats().count("(5) cases compared");
    if (compared > 0)
      stats().cls("(5) on-the-fly vs matrix: decided");
  }
  return Result::pass();
}

//! order of magnitude of one back-projected bin value 1: JacobianForIntBP's normalisation (BackProjectorByBinUsingInterpolation.cxx:
//! backprojection_normalisation = ring_spacing / (2 num_views) x 1/(2R) roughly); only used to recognise numerically-zero images
double
bi_norm_hint(const Ctx& X)
{
  const ProjDataInfoCylindrical& pc = dynamic_cast<const ProjDataInfoCylindrical&>(*X.S.pdi);
  return pc.get_ring_spacing() / (4. * X.S.pdi->get_num_views() * pc.get_ring_radius());
}

// ---- BackProjectorByBinUsingInterpolation: linearity, pieces, accumulation (clauses 3 + 4, back projection side) ----------
Result
check_interp_backprojector(Ctx& X)
{
  const json& c = X.c;
  const ProjDataInfo& p = *X.S.pdi;
  std::string na;
  const auto vsz = X.S.img->get_voxel_size();
  if (dynamic_cast<const ProjDataInfoSubsetByView*>(&p))
    na = "data geometry is a subset by view"; // actual_back_project casts to ProjDataInfoCylindricalArcCorr
  else if (X.S.sc->get_scanner_geometry() != "Cylindrical" || !dynamic_cast<const ProjDataInfoCylindricalArcCorr*>(&p))
    na = "data not arc-corrected"; // actual_back_project: error("can only handle arc-corrected data (cast to ProjDataInfoCylindricalArcCorr)")
  else if (std::fabs(p.get_phi(Bin(0, 0, 0, 0))) > 1e-4)
    na = "view offset"; // set_up: error("cannot handle non-zero view-offset")
  else if (p.is_tof_data())
    na = "TOF data"; // symmetries switch off swap_segment for TOF data -> error("... unexpect number of related viewgrams") for oblique segments
  else if (p.get_num_views() % 2 != 0 && excl("F8"))
    {
      // KNOWN FINDING C04-F8: set_up accepts an odd number of views (ForwardProjectorByBinUsingRayTracing::set_up rejects it with error());
      // the symmetries then drop the 180-degrees-minus-phi symmetry, views beyond 90 degrees arrive as basic views and the incremental
      // back projection violates its own "conditions on searching flow" (BackProjectorByBinUsingInterpolation_3DCho.cxx:286 assert(cphi >= 0 - .001)).
      na = "odd number of views (known finding C04-F8)";
      stats().count("excluded: interpolating back projector with an odd number of views (known finding C04-F8)");
    }
  else if (std::fabs(vsz.x() / vsz.y() - 1) > 1e-4)
    na = "x and y voxel sizes differ"; // class doc assumption "voxel_size.x() = voxel_size.y()"; error("x,y voxel size must be equal to bin size")
  ZGeom Z;
  if (na.empty())
    {
      Z = z_geometry(X);
      if (!Z.ok)
        na = Z.why;
      else if (Z.nppr != 2)
        na = "z voxel size != ring spacing / 2"; // BackProjectorByBinUsingInterpolation_3DCho.cxx:297-299 "in our current coordinate system, the following constant is always 2" + assertion
      else
        for (int n : Z.nppap)
          if (n != 1 && n != 2)
            na = "planes per axial position not 1 or 2"; // class doc: "voxel_size.z() is either equal to or half the axial_sampling of the projection data"
    }
  if (!na.empty())
    {
      stats().cls("interpolating back projector: not applicable (" + na + ")");
      return Result::pass();
    }
  shared_ptr<BackProjectorByBinUsingInterpolation> bi(new BackProjectorByBinUsingInterpolation(c["interp"]["pli"].get<bool>(), c["interp"]["exact_jac"].get<bool>()));
  try
    {
      bi->set_up(X.S.pdi, X.S.img);
    }
  catch (const stir_verif::AssertionFailure&)
    {
      throw;
    }
  catch (const std::exception& e)
    {
      stats().cls(std::string("interpolating back projector: set_up rejected: ") + std::string(e.what()).substr(0, 60));
      return Result::pass();
    }
  shared_ptr<DataSymmetriesForViewSegmentNumbers> sym(bi->get_symmetries_used()->clone());
  const std::string desc = cat("[interpolating back projector, pli=", c["interp"]["pli"].get<bool>(), " exactJ=", c["interp"]["exact_jac"].get<bool>(), " views=", p.get_num_views(),
                               " bins=", X.P.bins.size(), " voxels=", X.P.nvox(), "]");
  std::vector<double> y, y2;
  auto pdy = X.new_pd(), pdy2 = X.new_pd(), pdyc = X.new_pd();
  fill_pd(*pdy, X.P, c["seed_y"].get<uint64_t>() + 81, -1., 1., y);
  fill_pd(*pdy2, X.P, c["seed_y"].get<uint64_t>() + 82, -1., 1., y2);
  const double a = c["a"].get<double>(), b = c["b"].get<double>();
  auto out = X.new_img(), out2 = X.new_img(), outc = X.new_img();
  out->fill(3.F); // back_project(image, data) starts a new target: the junk must disappear
  try
    {
      bi->back_project(*out, *pdy);
    }
  catch (const stir_verif::AssertionFailure&)
    {
      throw;
    }
  catch (const std::exception& e)
    {
      stats().cls(std::string("interpolating back projector: back_project rejected: ") + std::string(e.what()).substr(0, 60));
      return Result::pass();
    }
  stats().cls("interpolating back projector: exercised");
  const std::vector<double> By = X.P.image_to_vec(*out);
  const double scb = std::max(max_abs(By), 1e-30);
  {
    // the incremental algorithm adds and subtracts increments: an image that is zero in exact arithmetic comes out as +-1e-10.
    // Such images (no voxel inside the region the class back projects into) make the relative comparisons below meaningless.
    const double ymax = std::max(max_abs(y), 1e-30);
    if (max_abs(By) <= 1e-6 * ymax * bi_norm_hint(X))
      {
        stats().cls("interpolating back projector: (numerically) all-zero image");
        return Result::pass();
      }
  }
  for (double v : By)
    VF_CHECK(std::isfinite(v), "interpolating back projector produced a non-finite voxel value ", desc);
  // linearity
  {
    std::vector<double> yc(y.size());
    for (std::size_t i = 0; i < yc.size(); ++i)
      yc[i] = double(float(a * y[i] + b * y2[i]));
    X.P.vec_to_projdata(*pdyc, yc);
    bi->back_project(*out2, *pdy2);
    bi->back_project(*outc, *pdyc);
    const std::vector<double> By2 = X.P.image_to_vec(*out2), Byc = X.P.image_to_vec(*outc);
    std::vector<double> lin(By.size());
    for (std::size_t i = 0; i < lin.size(); ++i)
      lin[i] = a * By[i] + b * By2[i];
    const double sc = std::max(std::fabs(a) * max_abs(By) + std::fabs(b) * max_abs(By2), 1e-30);
    std::size_t w = 0;
    const double d = max_diff(Byc, lin, &w);
    stats().maxi("interp. back projector (3) max |B(ay+by') - aBy - bBy'| / scale", d / sc);
    VF_CHECK(d <= TOL_BPI * sc, "(3) interpolating back projection not linear at voxel index ", w, ": ", Byc[w], " vs ", lin[w], " scale ", sc, " ", desc);
  }
  // subsets
  {
    const int n = std::max(1, std::min(c["num_subsets"].get<int>(), p.get_num_views()));
    std::vector<double> sum_b(By.size(), 0.);
    for (int k = 0; k < n; ++k)
      {
        auto bk = X.new_img();
        bk->fill(3.F);
        bi->back_project(*bk, *pdy, k, n);
        const std::vector<double> vb = X.P.image_to_vec(*bk);
        for (std::size_t i = 0; i < vb.size(); ++i)
          sum_b[i] += vb[i];
      }
    std::size_t w = 0;
    const double d = max_diff(sum_b, By, &w);
    stats().maxi("interp. back projector (4) max |sum of subset back projections - one-shot| / max", d / scb);
    VF_CHECK(d <= TOL_BPI * scb, "(4) interpolating back projector: sum over ", n, " subsets != one-shot at voxel index ", w, ": ", sum_b[w], " vs ", By[w], " max ", scb, " ", desc);
  }
  // related-viewgram groups: sum of the groups == one-shot; accumulation of two groups in either order; idempotent get_output
  {
    std::vector<double> sum_g(By.size(), 0.), bp_first, bp_second;
    std::vector<RelatedViewgrams<float>> keep;
    int ngroups = 0;
    for (int seg = p.get_min_segment_num(); seg <= p.get_max_segment_num(); ++seg)
      for (int view = p.get_min_view_num(); view <= p.get_max_view_num(); ++view)
        {
          const ViewSegmentNumbers vs(view, seg);
          if (!sym->is_basic(vs))
            continue;
          ++ngroups;
          const RelatedViewgrams<float> ry = pdy->get_related_viewgrams(vs, sym, false, 0);
          stats().maxi("interp. back projector: largest related-viewgram group", double(ry.get_num_viewgrams()));
          bi->start_accumulating_in_new_target();
          bi->back_project(ry);
          auto o = X.new_img();
          bi->get_output(*o);
          const std::vector<double> vb = X.P.image_to_vec(*o);
          for (std::size_t i = 0; i < vb.size(); ++i)
            sum_g[i] += vb[i];
          if (keep.size() < 2 && max_abs(vb) > 0)
            {
              keep.push_back(ry);
              (keep.size() == 1 ? bp_first : bp_second) = vb;
            }
        }
    std::size_t w = 0;
    const double d = max_diff(sum_g, By, &w);
    stats().maxi("interp. back projector (4) max |sum of group back projections - one-shot| / max", d / scb);
    VF_CHECK(d <= TOL_BPI * scb, "(4) interpolating back projector: sum over ", ngroups, " related-viewgram groups != one-shot at voxel index ", w, ": ", sum_g[w], " vs ", By[w], " max ", scb, " ",
             desc);
    stats().count("interp. back projector: related-viewgram groups checked", ngroups);
    if (keep.size() == 2)
      {
        std::vector<double> want(bp_first.size());
        for (std::size_t i = 0; i < want.size(); ++i)
          want[i] = bp_first[i] + bp_second[i];
        const double sc = std::max(max_abs(bp_first) + max_abs(bp_second), 1e-30);
        for (int order = 0; order < 2; ++order)
          {
            bi->start_accumulating_in_new_target();
            bi->back_project(keep[std::size_t(order)]);
            bi->back_project(keep[std::size_t(1 - order)]);
            auto o1 = X.new_img();
            o1->fill(3.F);
            bi->get_output(*o1);
            auto o2 = X.new_img();
            bi->get_output(*o2);
            const std::vector<double> g1 = X.P.image_to_vec(*o1), g2 = X.P.image_to_vec(*o2);
            VF_CHECK(max_diff(g1, g2, &w) == 0., "(4) interpolating back projector: get_output is not idempotent: voxel index ", w, " ", g1[w], " then ", g2[w], " ", desc);
            const double dd = max_diff(g1, want, &w);
            stats().maxi("interp. back projector (4) max |accumulated - (bp1+bp2)| / scale", dd / sc);
            VF_CHECK(dd <= TOL_BPI * sc, "(4) interpolating back projector: accumulated back projection (order ", order, ") != bp(v1)+bp(v2) at voxel index ", w, ": ", g1[w], " vs ", want[w], " ",
                     desc);
          }
        bi->start_accumulating_in_new_target();
        auto o0 = X.new_img();
        o0->fill(3.F);
        bi->get_output(*o0);
        VF_CHECK(max_abs(X.P.image_to_vec(*o0)) == 0., "(4) interpolating back projector: start_accumulating_in_new_target does not give a zero target ", desc);
      }
  }
  return Result::pass();
}

Result
check(const json& c)
{
  vg::quiet();
  g_probe = c.value("probe", std::string());
  Ctx X(c);
  const bool interp = c["matrix"].get<std::string>() == "interp";
  shared_ptr<ProjMatrixByBin> m, mref, mplain;
  try
    {
      X.S.sc = vg::make_scanner(c["scanner"]);
      if (X.S.sc->check_consistency() != Succeeded::yes)
        return Result::reject("scanner inconsistent");
      X.S.pdi = vg::make_pdi(X.S.sc, c["pdi"]);
      X.S.img = vg::make_image(c["image"], *X.S.pdi); // (laid out for the full geometry)
      // (AUD_C) the data geometry may be a ProjDataInfoSubsetByView of it: DataSymmetriesForBins_PET_CartesianGrid.cxx:253-270 has a
      // "special handling of subset case" (minus-phi symmetries off) and test_proj_data_info_subsets.cxx projects such data
      if (c["pdi"].contains("subset_views") && c["pdi"]["subset_views"].is_array() && !c["pdi"]["subset_views"].empty())
        {
          std::vector<int> views;
          const int nv = X.S.pdi->get_num_views();
          for (const json& v : c["pdi"]["subset_views"])
            {
              const int w = int(((v.get<long>() % nv) + nv) % nv);
              if (std::find(views.begin(), views.end(), w) == views.end())
                views.push_back(w);
            }
          X.S.pdi.reset(new ProjDataInfoSubsetByView(X.S.pdi, views));
        }
      X.S.exam.reset(new ExamInfo(ImagingModality(ImagingModality::PT)));
      X.S.img->set_exam_info(*X.S.exam);
      // a fresh matrix with the same options (cache disabled) accepts the configuration and computes one row per segment?
      mref = make_case_matrix(c, 0, true);
      mref->set_up(X.S.pdi, X.S.img);
      ProjMatrixElemsForOneBin row;
      for (int sg = X.S.pdi->get_min_segment_num(); sg <= X.S.pdi->get_max_segment_num(); ++sg)
        mref->get_proj_matrix_elems_for_one_bin(row, Bin(sg, X.S.pdi->get_min_view_num(), X.S.pdi->get_min_axial_pos_num(sg), 0, 0));
    }
  catch (const stir_verif::AssertionFailure&)
    {
      throw;
    }
  catch (const std::exception& e)
    {
      return Result::reject(std::string("rejected by STIR: ") + std::string(e.what()).substr(0, 70));
    }
  // the pair under test (its set_up must now succeed as well)
  m = make_case_matrix(c, -1, true);
  X.pair.reset(new ProjectorByBinPairUsingProjMatrixByBin(m));
  if (X.pair->set_up(X.S.pdi, X.S.img) != Succeeded::yes)
    return Result::reject("pair set_up returned Succeeded::no");
  X.fwd = X.pair->get_forward_projector_sptr();
  X.bck = X.pair->get_back_projector_sptr();
  X.sym.reset(X.pair->get_symmetries_used()->clone());
  try
    {
      X.P = build_P(mref, X.S.pdi, X.S.img);
    }
  catch (const BadRow& e)
    {
      return Result::fail(e.msg + cat(" [", interp ? "interpolation" : "ray tracing", " matrix, image ", X.S.img->get_x_size(), "x", X.S.img->get_y_size(), "]"));
    }
  const json& sy = c["sym"];
  X.desc = cat("[", interp ? "interpolation" : "ray tracing", " matrix, sym=", sy[0].get<int>(), sy[1].get<int>(), sy[2].get<int>(), sy[3].get<int>(), sy[4].get<int>(), " cache=", c["cache"].get<int>(),
               interp ? "" : cat(" lors=", c["lors"].get<int>(), " cylFOV=", c["cyl_fov"].get<bool>()), " ", X.S.sc->get_scanner_geometry(), " bins=", X.P.bins.size(), " voxels=", X.P.nvox(),
               "]");

  // class histogram
  stats().cls(interp ? "matrix: interpolation" : "matrix: ray tracing");
  stats().cls(cat("scanner: ", X.S.sc->get_scanner_geometry()));
  if (const ProjDataInfoSubsetByView* sub = dynamic_cast<const ProjDataInfoSubsetByView*>(X.S.pdi.get()))
    stats().cls(cat("data geometry: subset by view, ", sub->get_num_views() == 1 ? "a single view" : (sub->get_num_views() == sub->get_original_proj_data_info_sptr()->get_num_views() ? "all views" : "several views")));
  stats().cls(X.S.pdi->is_tof_data() ? "TOF" : "non-TOF");
  stats().cls(cat("cache mode ", c["cache"].get<int>()));
  if (c["pdi"]["span"].get<int>() > 1)
    stats().cls("span>1");
  if (X.S.pdi->get_num_views() != X.S.sc->get_num_detectors_per_ring() / 2)
    stats().cls("view mashing");
  if (dynamic_cast<const ProjDataInfoCylindricalArcCorr*>(X.S.pdi.get()))
    stats().cls("arc-corrected");
  stats().cls(c["num_subsets"].get<int>() > 1 ? "num_subsets>1" : "num_subsets=1");
  stats().count("bins", long(X.P.bins.size()));
  stats().count("matrix elements outside the axial range (clipped)", X.P.num_clipped);
  {
    long nnz = 0;
    for (auto& r : X.P.rows)
      nnz += long(r.size());
    stats().count("matrix elements", nnz);
    if (nnz == 0)
      stats().cls("empty matrix (image outside all LORs)");
  }

  // statistic only: distance of the pair's matrix to the symmetry-free matrix (ties, see header)
  if (!interp && (sy[0].get<int>() || sy[1].get<int>() || sy[2].get<int>() || sy[3].get<int>() || sy[4].get<int>()) && X.P.bins.size() <= 3000)
    {
      mplain = make_case_matrix(c, 0, false);
      mplain->set_up(X.S.pdi, X.S.img);
      const vp::ExplicitP Pp = build_P(mplain, X.S.pdi, X.S.img);
      long differing = 0;
      for (std::size_t i = 0; i < Pp.rows.size(); ++i)
        {
          std::map<long, double> d;
          double mx = 0;
          for (auto& e : Pp.rows[i])
            {
              d[e.first] += e.second;
              mx = std::max(mx, e.second);
            }
          for (auto& e : X.P.rows[i])
            {
              d[e.first] -= e.second;
              mx = std::max(mx, e.second);
            }
          double w = 0;
          for (auto& e : d)
            w = std::max(w, std::fabs(e.second));
          if (mx > 0 && w > 2e-3 * mx)
            ++differing;
        }
      stats().count("statistic: rows that differ from the symmetry-free row by > 2e-3 max (rounding ties, C03's screen)", differing);
      stats().count("statistic: rows compared with the symmetry-free matrix", long(Pp.rows.size()));
    }

  C04_DO(check_explicit_and_linear(X));
  C04_DO(check_subsets(X));
  C04_DO(check_smaller_data(X));
  C04_DO(check_groups(X));
  C04_DO(check_onthefly(X));
  C04_DO(check_interp_backprojector(X));
  return Result::pass();
}

// KNOWN FINDING C04-F1 (work/notes/C04_findings.md): ProjMatrixByBinUsingRayTracing with num_tangential_LORs > 1 asks
// ProjDataInfo::get_sampling_in_s(bin), whose default implementation evaluates get_s at tangential positions +-1;
// for BlocksOnCylindrical/Generic data get_s goes through the (view, tangential position) -> detector pair table, which
// only covers -(N/2)+1 .. N/2: for a bin at the edge of a (nearly) full tangential range the table is indexed out of
// range (assertion in this build, out-of-bounds read in a Release build).  Excluded narrowly: blocks geometry AND
// more than one tangential LOR AND a tangential range that touches the table range.
bool
in_known_class(const json& c)
{
  if (c["matrix"].get<std::string>() != "rt" || c["lors"].get<int>() <= 1)
    return false;
  const json& sc = c["scanner"];
  if (sc.value("geometry", std::string("Cylindrical")) != "BlocksOnCylindrical")
    return false;
  const int N = sc["ndet"].get<int>();
  const int tang = c["pdi"]["tang"].get<int>();
  const int cut = c["pdi"]["trim"].contains("tang_cut") && tang > 2 * c["pdi"]["trim"]["tang_cut"].get<int>() + 1 ? c["pdi"]["trim"]["tang_cut"].get<int>() : 0;
  const int mn = -(tang / 2) + cut, mx = -(tang / 2) + tang - 1 - cut;
  return mn - 1 < -(N / 2) + 1 || mx + 1 > N / 2;
}
// KNOWN FINDING C04-F2 (work/notes/C04_findings.md): ProjMatrixByBinUsingInterpolation limits the voxels of a basic row
// to the symmetric part of the x range and of the y range SEPARATELY; with do_symmetry_90degrees_min_phi the row is then
// transformed by an x<->y swap, which for an image with different x and y sizes yields elements outside the image
// (x/y are not range-checked by the projectors: out-of-bounds access, assertion in this build).
bool
in_known_class_2(const json& c)
{
  return c["matrix"].get<std::string>() == "interp" && c["image"]["nx"].get<int>() != c["image"]["ny"].get<int>() && c["sym"][0].get<int>() != 0;
}
std::string
known_signature(const json& c)
{
  if (no_exclude())
    return "";
  if (in_known_class(c))
    return "C04:blocks:tangential-LORs>1:tangential-range-reaches-detector-pair-table-edge";
  if (in_known_class_2(c))
    return "C04:interpolation-matrix:sym90:image-nx!=ny";
  return "";
}

// ---- generator -----------------------------------------------------------------------------------------------
json
gen(Src& s, int size)
{
  json c;
  const bool interp = s.chance(1, 5);
  c["matrix"] = interp ? "interp" : "rt";
  vg::ScannerOpts so;
  so.max_ndet = interp ? 16 : (size < 40 ? 24 : 32);
  so.max_rings = interp ? 3 : (size < 40 ? 3 : 4);
  so.allow_tof = true;
  so.allow_blocks = !interp; // ProjMatrixByBinUsingInterpolation "needs ProjDataInfoCylindrical for jacobian" (a cylindrical scanner)
  so.allow_tilt = true;
  // bias (not a restriction): in about half of the cases the geometry is steered into the domain of the additional
  // projector kinds (ForwardProjectorByBinUsingRayTracing / BackProjectorByBinUsingInterpolation, see check_onthefly):
  // cylindrical, no tilt, non-TOF, even number of views, z voxel size = ring spacing / 2
  const bool want_otf = s.chance(11, 20);
  if (want_otf)
    so.allow_blocks = so.allow_tof = so.allow_tilt = false;
  // bias (not a restriction): half of the cases get the class in which all symmetries can be active (no view offset,
  // views a multiple of 4, non-TOF), and very small rings are re-drawn most of the time
  const bool want_blocks = so.allow_blocks && s.chance(1, 4);
  so.allow_blocks = want_blocks;
  const bool want_full_sym = !want_blocks && s.coin();
  const int min_ndet = s.coin() ? 16 : 8;
  json scj;
  shared_ptr<Scanner> sc;
  for (int tries = 0; tries < 40; ++tries)
    {
      scj = vg::gen_scanner(s, so);
      if (want_blocks && tries < 30 && scj["geometry"].get<std::string>() != "BlocksOnCylindrical")
        continue;
      if (tries < 12 && (scj["ndet"].get<int>() < min_ndet || (want_full_sym && scj["ndet"].get<int>() % 8 != 0)))
        continue;
      if (want_full_sym)
        scj["tilt"] = 0.;
      sc = vg::make_scanner(scj);
      if (sc->check_consistency() == Succeeded::yes)
        break;
    }
  if (!sc)
    sc = vg::make_scanner(scj);
  c["scanner"] = scj;
  vg::PdiOpts po;
  po.allow_arccorr = true;
  json pj;
  // keep the explicit matrix small: <= ~5000 bins (1500 for the interpolation matrix, which visits every voxel per bin)
  const long max_bins = interp ? 1500 : 5000;
  for (int tries = 0; tries < 30; ++tries)
    {
      pj = vg::gen_pdi(s, *sc, po);
      if (want_full_sym && scj["geometry"].get<std::string>() == "Cylindrical")
        {
          if (pj["views"].get<int>() % 4 != 0)
            pj["views"] = scj["ndet"].get<int>() / 2;
          if (s.chance(3, 4))
            pj["tof_mash"] = 0;
          if (s.chance(1, 3))
            {
              pj["arccorr"] = true; // BackProjectorByBinUsingInterpolation "can only handle arc-corrected data"
              vg::clamp_arccorr_tang(pj, *sc);
            }
        }
      if (want_otf && scj["geometry"].get<std::string>() == "Cylindrical")
        {
          if (pj["views"].get<int>() % 2 != 0)
            pj["views"] = scj["ndet"].get<int>() / 2 % 2 == 0 ? scj["ndet"].get<int>() / 2 : pj["views"].get<int>();
          pj["tof_mash"] = 0;
        }
      // blocks geometries: get_s/get_LOR go through ProjDataInfoCylindrical::get_ring_pair_for_segment_axial_pos_num, which
      // error()s "does not work for data with axial compression" -> every row request fails for span > 1 (kept 1 in 20 as a rejected class)
      if (scj["geometry"].get<std::string>() == "BlocksOnCylindrical" && pj["span"].get<int>() > 1 && s.chance(19, 20))
        pj["span"] = 1;
      const long ntof = pj["tof_mash"].get<int>() > 0 ? sc->get_max_num_timing_poss() / pj["tof_mash"].get<int>() : 1;
      const long rings = sc->get_num_rings();
      const long sinos = rings * rings; // upper bound for the number of (segment, axial position) pairs
      if (long(pj["views"].get<int>()) * pj["tang"].get<int>() * std::min(sinos, 2 * rings * (2 * long(pj["max_delta"].get<int>()) + 1)) * ntof <= max_bins)
        break;
      // too large: narrow it
      if (tries > 10)
        {
          pj["tof_mash"] = 0;
          pj["tang"] = std::min(pj["tang"].get<int>(), 9);
        }
      if (tries > 20)
        pj["max_delta"] = std::min(pj["max_delta"].get<int>(), std::max((pj["span"].get<int>() - 1) / 2, 1));
    }
  c["pdi"] = pj;
  vg::ImageOpts io;
  io.max_xy = interp ? 11 : (size < 50 ? 15 : 21);
  json im = vg::gen_image(s, io);
  if (scj["geometry"].get<std::string>() == "BlocksOnCylindrical")
    { // the ray tracer shrinks the FOV by 5 voxels for blocks: images of at least 13 voxels (else every row is empty)
      im["nx"] = std::max(im["nx"].get<int>(), int(s.range(13, 21)));
      im["ny"] = std::max(im["ny"].get<int>(), s.coin() ? im["nx"].get<int>() : int(s.range(13, 21)));
    }
  if (want_otf)
    {
      // z voxel size = ring spacing / 2: z_div 2 for span 1 (axial sampling = ring spacing), 1 for span > 1 (sampling = ring spacing / 2)
      im["z_div"] = pj["span"].get<int>() == 1 ? 2 : 1;
      if (s.chance(3, 4))
        im["vy_same"] = true;
      if (s.chance(2, 3))
        im["nx"] = std::max(im["nx"].get<int>(), 7);
      if (s.chance(2, 3))
        im["ny"] = im["nx"];
      if (s.coin()) // planes centred on the data planes (integer axial_pos_to_z_offset): nz - (planes spanned by segment 0) even
        im["nz_extra"] = pj["span"].get<int>() == 1 ? int(s.pick(std::vector<int>{ -1, 1 })) : int(s.pick(std::vector<int>{ -2, 0, 2 }));
    }
  c["image"] = im;
  json sym = json::array();
  const int mode = int(s.range(0, 5));
  for (int k = 0; k < 5; ++k)
    sym.push_back(mode == 0 ? 1 : (mode == 1 ? 0 : (s.coin() ? 1 : 0)));
  c["sym"] = sym;
  c["cache"] = int(s.pick(std::vector<int>{ 0, 0, 1, 1, 2 }));
  c["lors"] = int(s.small(1, 3));
  c["cyl_fov"] = s.chance(3, 4);
  c["interp"] = { { "pli", s.coin() }, { "exact_jac", s.coin() } };
  if (!no_exclude() && in_known_class(c))
    c["lors"] = 1; // known finding C04-F1: excluded by construction
  if (!no_exclude() && in_known_class_2(c))
    { // known finding C04-F2: excluded by construction (either a square image or the 90-degree symmetry off)
      if (s.coin())
        c["image"]["ny"] = c["image"]["nx"];
      else
        c["sym"][0] = 0;
    }
  c["seed_x"] = s.seed64() & 0xffffffffffffULL;
  c["seed_y"] = s.seed64() & 0xffffffffffffULL;
  c["a"] = s.nice_real(-3., 3.);
  c["b"] = s.nice_real(-3., 3.);
  const int views = pj["views"].get<int>();
  c["num_subsets"] = s.chance(1, 6) ? 1 : int(s.chance(1, 2) ? s.pick(vg::divisors(views)) : s.range(1, views));
  json sr = json::array();
  const int nsr = int(s.range(1, 2));
  for (int k = 0; k < nsr; ++k)
    sr.push_back(json::array({ s.range(0, 30), s.range(0, 30), s.range(0, 60), s.range(0, 60) }));
  c["subranges"] = sr;
  // ---- domain audit (AUD_C): see check_smaller_data, check_groups (prefill_vg), check() (subset_views) -----------------------
  c["prefill_vg"] = s.coin();
  if (s.chance(1, 3))
    c["smaller"] = json::array({ s.range(0, 2), s.range(0, 3), s.range(0, 3), s.range(0, 2), s.range(0, 2) });
  if (!interp && scj["geometry"].get<std::string>() == "Cylindrical" && s.chance(1, 8))
    { // subset by view of a cylindrical geometry (interpolation matrix: "needs ProjDataInfoCylindrical for jacobian")
      json v = json::array();
      const long form = s.range(0, 3);
      if (form == 0)
        v.push_back(s.range(0, views - 1)); // a single view
      else if (form == 1)
        for (int k = 0; k < views; ++k) // all views
          v.push_back(k);
      else
        { // the regular subset k0 of m (form 2) or the same in decreasing order (form 3)
          const int m = int(s.range(1, std::max(1, views / 2)));
          for (int k = int(s.range(0, m - 1)); k < views; k += m)
            v.push_back(k);
          if (form == 3)
            std::reverse(v.begin(), v.end());
        }
      c["pdi"]["subset_views"] = v;
      c["num_subsets"] = std::max(1, std::min(c["num_subsets"].get<int>(), int(v.size())));
    }
  c["sr_budget"] = size >= 80 ? 20000 : 1200; // sub-range calls per case for the on-the-fly projector kind (thorough: effectively all combinations)
  return c;
}

bool
nontrivial(const json& c)
{
  // num_subsets > 1, or a proper sub-range (always requested), or symmetry groups of size > 1 (some switch on)
  return c["num_subsets"].get<int>() > 1 || !c["subranges"].empty();
}

} // namespace

const Property&
the_property()
{
  static Property p;
  p.id = "C04";
  p.gen = gen;
  p.check = check;
  p.nontrivial = nontrivial;
  p.known_signature = known_signature;
  p.rule = "num_subsets > 1 or at least one sub-range call or related-viewgram groups of size > 1; x, y random signed (non-zero)";
  // (the additional projector kinds are exercised inside the same cases: see the classes "on-the-fly projector: exercised",
  //  "(5) on-the-fly vs matrix: decided", "interpolating back projector: exercised" in the evidence)
  return p;
}

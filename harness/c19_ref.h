// C19 private header: reference N-d arrays (double), conversions to/from stir::Array, and the
// independent double-precision oracles (direct DFT, direct / periodic convolution).
#pragma once
#include "verif.h"
#include "stir/Array.h"
#include "stir/Array_complex_numbers.h"
#include "stir/IndexRange.h"
#include "stir/BasicCoordinate.h"
#include <complex>
#include <vector>
#include <cmath>
#include <cstdlib>
#include <string>

namespace c19 {
using vf::json;
using vf::Result;
using vf::SplitMix;

//! reference array: always stored with 3 axes; a D-dimensional object uses axes 3-D..2 (others: min 0, len 1)
template <class T>
struct NdT
{
  int mn[3] = { 0, 0, 0 };
  int len[3] = { 1, 1, 1 };
  std::vector<T> v;
  NdT() {}
  NdT(const int* m, const int* l)
  {
    for (int a = 0; a < 3; ++a)
      {
        mn[a] = m[a];
        len[a] = l[a];
      }
    alloc();
  }
  void alloc() { v.assign(size(), T()); }
  std::size_t size() const { return std::size_t(len[0]) * std::size_t(len[1]) * std::size_t(len[2]); }
  int mx(int a) const { return mn[a] + len[a] - 1; }
  bool has(int i, int j, int k) const
  {
    return i >= mn[0] && i <= mx(0) && j >= mn[1] && j <= mx(1) && k >= mn[2] && k <= mx(2);
  }
  std::size_t off(int i, int j, int k) const
  {
    return (std::size_t(i - mn[0]) * std::size_t(len[1]) + std::size_t(j - mn[1])) * std::size_t(len[2]) + std::size_t(k - mn[2]);
  }
  T& at(int i, int j, int k) { return v[off(i, j, k)]; }
  const T& at(int i, int j, int k) const { return v[off(i, j, k)]; }
  T& at(const int* p) { return v[off(p[0], p[1], p[2])]; }
  const T& at(const int* p) const { return v[off(p[0], p[1], p[2])]; }
  bool same_range(const NdT& o) const
  {
    for (int a = 0; a < 3; ++a)
      if (len[a] != o.len[a] || (len[a] > 0 && mn[a] != o.mn[a]))
        return false;
    return true;
  }
  std::string range_str() const
  {
    std::string s;
    for (int a = 0; a < 3; ++a)
      s += "[" + std::to_string(mn[a]) + ".." + std::to_string(mx(a)) + "]";
    return s;
  }
};
typedef NdT<double> Nd;
typedef NdT<std::complex<double>> CNd;

//! 1-D kernel with index range
struct K1
{
  int mn = 0;
  std::vector<double> c;
  int mx() const { return mn + int(c.size()) - 1; }
  bool empty() const { return c.empty(); }
  double abssum() const
  {
    double s = 0;
    for (double e : c)
      s += std::fabs(e);
    return s;
  }
  double sum() const
  {
    double s = 0;
    for (double e : c)
      s += e;
    return s;
  }
};

inline int
pmod(int a, int b)
{
  const int r = a % b;
  return r < 0 ? r + b : r;
}

// ---- conversions ---------------------------------------------------------------------------
template <int D>
inline stir::IndexRange<D>
idx_range(const int* mn, const int* len)
{
  stir::BasicCoordinate<D, int> lo, hi;
  for (int d = 1; d <= D; ++d)
    {
      lo[d] = mn[3 - D + d - 1];
      hi[d] = lo[d] + len[3 - D + d - 1] - 1;
    }
  return stir::IndexRange<D>(lo, hi);
}

template <int D>
inline stir::BasicCoordinate<D, int>
coord(int i, int j, int k)
{
  const int p[3] = { i, j, k };
  stir::BasicCoordinate<D, int> c;
  for (int d = 1; d <= D; ++d)
    c[d] = p[3 - D + d - 1];
  return c;
}

template <int D, class ST, class T>
inline stir::Array<D, ST>
to_stir(const NdT<T>& x)
{
  stir::Array<D, ST> a(idx_range<D>(x.mn, x.len));
  if (x.size() == 0)
    return a;
  for (int i = x.mn[0]; i <= x.mx(0); ++i)
    for (int j = x.mn[1]; j <= x.mx(1); ++j)
      for (int k = x.mn[2]; k <= x.mx(2); ++k)
        a[coord<D>(i, j, k)] = ST(x.at(i, j, k));
  return a;
}

//! returns false (with err) if the STIR array is not regular
template <int D, class ST, class T>
inline bool
from_stir(const stir::Array<D, ST>& a, NdT<T>& out, std::string& err)
{
  out = NdT<T>();
  if (a.size_all() == 0)
    {
      out.len[2] = 0;
      out.alloc();
      return true;
    }
  stir::BasicCoordinate<D, int> lo, hi;
  if (!a.get_regular_range(lo, hi))
    {
      err = "array is not regular";
      return false;
    }
  for (int d = 1; d <= D; ++d)
    {
      out.mn[3 - D + d - 1] = lo[d];
      out.len[3 - D + d - 1] = hi[d] - lo[d] + 1;
    }
  out.alloc();
  for (int i = out.mn[0]; i <= out.mx(0); ++i)
    for (int j = out.mn[1]; j <= out.mx(1); ++j)
      for (int k = out.mn[2]; k <= out.mx(2); ++k)
        out.at(i, j, k) = T(a[coord<D>(i, j, k)]);
  return true;
}

inline double
f32(double x)
{
  return double(float(x));
}

// ---- data --------------------------------------------------------------------------------
//! patterns: 0 uniform[-1,1], 1 integers[-4,4], 2 100+uniform[-1,1], 3 impulse, 4 constant 2.5; all values exact floats
inline void
fill_data(Nd& x, uint64_t seed, int pat)
{
  SplitMix g(seed ^ 0x51ed270b0f1ULL);
  const std::size_t n = x.size();
  if (n == 0)
    return;
  switch (pat)
    {
    case 1:
      for (auto& e : x.v)
        e = double(g.range(-4, 4));
      break;
    case 2:
      for (auto& e : x.v)
        e = f32(100. + g.real(-1, 1));
      break;
    case 3:
      for (auto& e : x.v)
        e = 0;
      x.v[std::size_t(g.next() % n)] = 1.;
      break;
    case 4:
      for (auto& e : x.v)
        e = 2.5;
      break;
    default:
      for (auto& e : x.v)
        e = f32(g.real(-1, 1));
      break;
    }
}

template <class T>
inline double
maxabs(const NdT<T>& x)
{
  double m = 0;
  for (const auto& e : x.v)
    m = std::max(m, double(std::abs(e)));
  return m;
}
inline double
abssum(const Nd& x)
{
  double m = 0;
  for (double e : x.v)
    m += std::fabs(e);
  return m;
}

//! kernel value patterns: 0 uniform[-1,1]; 1 integers/4 in [-2,2]; 2 symmetric (mirror in every axis);
//! 3 delta (single 1); 4 positive, sum 1 (approximately, in float); 5 first element 1, rest uniform
inline void
fill_kernel(Nd& k, uint64_t seed, int pat)
{
  SplitMix g(seed ^ 0xa5a5f00dULL);
  const std::size_t n = k.size();
  if (n == 0)
    return;
  switch (pat)
    {
    case 1:
      for (auto& e : k.v)
        e = double(g.range(-8, 8)) / 4.;
      break;
    case 3:
      for (auto& e : k.v)
        e = 0;
      k.v[std::size_t(g.next() % n)] = 1.;
      break;
    case 4: {
      double s = 0;
      for (auto& e : k.v)
        {
          e = g.real(0.05, 1);
          s += e;
        }
      for (auto& e : k.v)
        e = f32(e / s);
      break;
    }
    case 5:
      for (auto& e : k.v)
        e = f32(g.real(-1, 1));
      k.v[0] = 1.;
      break;
    default:
      for (auto& e : k.v)
        e = f32(g.real(-1, 1));
      break;
    }
  if (pat == 2)
    for (int i = 0; i < k.len[0]; ++i)
      for (int j = 0; j < k.len[1]; ++j)
        for (int l = 0; l < k.len[2]; ++l)
          k.at(k.mn[0] + i, k.mn[1] + j, k.mn[2] + l) = k.at(k.mn[0] + std::min(i, k.len[0] - 1 - i), k.mn[1] + std::min(j, k.len[1] - 1 - j),
                                                             k.mn[2] + std::min(l, k.len[2] - 1 - l));
}

inline K1
kernel1(int kmin, int klen, uint64_t seed, int pat)
{
  K1 k;
  k.mn = kmin;
  if (klen <= 0)
    return k;
  Nd t;
  t.len[2] = klen;
  t.mn[2] = kmin;
  t.alloc();
  fill_kernel(t, seed, pat);
  k.c = t.v;
  return k;
}

// ---- oracles -----------------------------------------------------------------------------
//! documented convention (fourier.h): r_s = sum_r c_r exp(sign 2 pi i r s / n), zero frequency at index 0
inline void
dft_axis(CNd& x, int ax, int sign)
{
  const int n = x.len[ax];
  if (n <= 1)
    return;
  std::vector<std::complex<double>> w(static_cast<std::size_t>(n)), tmp(static_cast<std::size_t>(n)), res(static_cast<std::size_t>(n));
  const double tpi = 6.283185307179586476925286766559;
  for (int t = 0; t < n; ++t)
    w[std::size_t(t)] = std::complex<double>(std::cos(tpi * t / n), sign * std::sin(tpi * t / n));
  std::size_t stride = 1;
  for (int a = ax + 1; a < 3; ++a)
    stride *= std::size_t(x.len[a]);
  std::size_t outer = 1;
  for (int a = 0; a < ax; ++a)
    outer *= std::size_t(x.len[a]);
  for (std::size_t o = 0; o < outer; ++o)
    for (std::size_t in = 0; in < stride; ++in)
      {
        const std::size_t base = o * std::size_t(n) * stride + in;
        for (int r = 0; r < n; ++r)
          tmp[std::size_t(r)] = x.v[base + std::size_t(r) * stride];
        for (int k = 0; k < n; ++k)
          {
            std::complex<double> s(0, 0);
            for (int r = 0; r < n; ++r)
              s += tmp[std::size_t(r)] * w[std::size_t((long(r) * long(k)) % n)];
            res[std::size_t(k)] = s;
          }
        for (int k = 0; k < n; ++k)
          x.v[base + std::size_t(k) * stride] = res[std::size_t(k)];
      }
}

//! y_i = sum_j k_j x~_{i-j} along axis ax on the requested output range; bc 0: x~=0 outside, bc 1: nearest element.
//! An empty kernel is the documented trivial filter (identity, same boundary rule).
inline Nd
conv_axis(const Nd& in, int ax, const K1& k0, int omin, int olen, int bc)
{
  K1 k = k0;
  if (k.empty())
    {
      k.mn = 0;
      k.c = { 1. };
    }
  Nd out;
  for (int a = 0; a < 3; ++a)
    {
      out.mn[a] = in.mn[a];
      out.len[a] = in.len[a];
    }
  out.mn[ax] = omin;
  out.len[ax] = olen;
  out.alloc();
  if (out.size() == 0)
    return out;
  int p[3], q[3];
  for (p[0] = out.mn[0]; p[0] <= out.mx(0); ++p[0])
    for (p[1] = out.mn[1]; p[1] <= out.mx(1); ++p[1])
      for (p[2] = out.mn[2]; p[2] <= out.mx(2); ++p[2])
        {
          double s = 0;
          q[0] = p[0];
          q[1] = p[1];
          q[2] = p[2];
          for (int j = k.mn; j <= k.mx(); ++j)
            {
              int t = p[ax] - j;
              if (t < in.mn[ax] || t > in.mx(ax))
                {
                  if (bc == 0 || in.len[ax] == 0)
                    continue;
                  t = t < in.mn[ax] ? in.mn[ax] : in.mx(ax);
                }
              q[ax] = t;
              s += k.c[std::size_t(j - k.mn)] * in.at(q);
            }
          out.at(p) = s;
        }
  return out;
}

//! N-d direct convolution, zero boundary, on the output range (omn, olen)
inline Nd
conv_nd(const Nd& in, const Nd& k, const int* omn, const int* olen)
{
  Nd out(omn, olen);
  if (out.size() == 0 || k.size() == 0 || in.size() == 0)
    return out;
  // sparse list of non-zero kernel entries
  struct E
  {
    int j[3];
    double v;
  };
  std::vector<E> es;
  for (int a = k.mn[0]; a <= k.mx(0); ++a)
    for (int b = k.mn[1]; b <= k.mx(1); ++b)
      for (int c = k.mn[2]; c <= k.mx(2); ++c)
        if (k.at(a, b, c) != 0)
          es.push_back(E{ { a, b, c }, k.at(a, b, c) });
  for (int i = out.mn[0]; i <= out.mx(0); ++i)
    for (int j = out.mn[1]; j <= out.mx(1); ++j)
      for (int l = out.mn[2]; l <= out.mx(2); ++l)
        {
          double s = 0;
          for (const E& e : es)
            {
              const int a = i - e.j[0], b = j - e.j[1], c = l - e.j[2];
              if (in.has(a, b, c))
                s += e.v * in.at(a, b, c);
            }
          out.at(i, j, l) = s;
        }
  return out;
}

//! periodic convolution: y_i = sum_{t in data} x_t kappa((i-t) mod P); kappa has mn 0 and len P
inline Nd
conv_periodic(const Nd& in, const Nd& kappa, const int* omn, const int* olen)
{
  Nd out(omn, olen);
  if (out.size() == 0 || in.size() == 0)
    return out;
  for (int i = out.mn[0]; i <= out.mx(0); ++i)
    for (int j = out.mn[1]; j <= out.mx(1); ++j)
      for (int l = out.mn[2]; l <= out.mx(2); ++l)
        {
          double s = 0;
          for (int a = in.mn[0]; a <= in.mx(0); ++a)
            for (int b = in.mn[1]; b <= in.mx(1); ++b)
              for (int c = in.mn[2]; c <= in.mx(2); ++c)
                {
                  const double xv = in.at(a, b, c);
                  if (xv != 0)
                    s += xv * kappa.at(pmod(i - a, kappa.len[0]), pmod(j - b, kappa.len[1]), pmod(l - c, kappa.len[2]));
                }
          out.at(i, j, l) = s;
        }
  return out;
}

//! compare; records max error / scale under statkey
inline Result
compare(const Nd& got, const Nd& ref, double scale, double tol, const std::string& what, const std::string& statkey)
{
  if (!got.same_range(ref))
    return Result::fail(vf::cat(what, ": result has index range ", got.range_str(), ", expected ", ref.range_str()));
  double worst = 0;
  std::size_t wi = 0;
  bool nan = false;
  for (std::size_t i = 0; i < ref.v.size(); ++i)
    {
      const double e = std::fabs(got.v[i] - ref.v[i]);
      if (!(e == e))
        {
          nan = true;
          wi = i;
          break;
        }
      if (e > worst)
        {
          worst = e;
          wi = i;
        }
    }
  if (nan)
    return Result::fail(vf::cat(what, ": result is not a number at flat index ", wi, " (reference ", ref.v[wi], ")"));
  if (scale > 0)
    vf::stats().maxi(statkey, worst / scale);
  if (!(worst <= tol * scale))
    {
      // recover the index
      std::size_t r = wi;
      const int k = ref.mn[2] + int(r % std::size_t(ref.len[2]));
      r /= std::size_t(ref.len[2]);
      const int j = ref.mn[1] + int(r % std::size_t(ref.len[1]));
      r /= std::size_t(ref.len[1]);
      const int i = ref.mn[0] + int(r);
      return Result::fail(vf::cat(what, ": at index (", i, ",", j, ",", k, ") got ", got.v[wi], " expected ", ref.v[wi], " |diff| ", worst,
                                  " > tol ", tol, " * scale ", scale, " ; range ", ref.range_str()));
    }
  return Result::pass();
}

inline void
get3(const json& j, const char* key, int D, int* out, int deflt)
{
  for (int a = 0; a < 3; ++a)
    out[a] = deflt;
  const json& v = j.at(key);
  for (int d = 0; d < D; ++d)
    out[3 - D + d] = v.at(std::size_t(d)).get<int>();
}

} // namespace c19

// C15, further parts: every public entry point of the property's anchor files that is not reached by the parts "ssrb" and
// "zoom" of c15_rebin_zoom.cxx is called directly here, under an oracle that does not share code with it.
//
//  part "overlap"  : stir::overlap_interpolate, both public forms
//                      (a) (out, in, zoom, offset, assign_rest_with_zeroes) for VectorWithOffset<float>, <double>,
//                          <Array<1,float>> and <Array<2,float>> (the four explicit instantiations of overlap_interpolate.cxx)
//                      (b) the iterator form with arbitrary bin edges, only_add_to_output and assign_rest_with_zeroes
//                    with a PRE-FILLED output.  Oracle: the documented definition (step functions, integrals preserved):
//                    out[j] = sum_i in[i] * |in-box i  ∩  out-box j|, output boxes that do not meet the input range are
//                    0 (assign_rest_with_zeroes) or keep what was there.
//  part "viewgram" : zoom_viewgram (in place / output viewgram given) and zoom_viewgrams (RelatedViewgrams) on arc-corrected
//                    data.  Oracle: the same step-function resampling along s with s_in = s_out + x_off cos(phi) + y_off sin(phi)
//                    (zoom.h: "translation in image space which gives a sin shift of origin in the s-coordinate"; the LOR
//                    parametrisation X = s cos(phi) + a sin(phi), Y = s sin(phi) - a cos(phi) of ProjDataInfoCylindrical::get_LOR),
//                    conservation of the sum when the new range covers the data (zoom.h: "count-preserving"), agreement of
//                    the three overloads, error() for data that are not arc-corrected.
//  part "issrb"    : inverse_SSRB.  Oracle (inverse_SSRB.h): every output sinogram is the direct input sinogram with the same
//                    m coordinate, or the average of the two direct input sinograms it lies half-way between; oblique input
//                    segments are ignored; all output sinograms are 'put' (stale values do not survive).  m is taken from the
//                    ring-pair tables, not from get_m().
//  part "extend"   : extend_segment.  Oracle (extend_projdata.h): the original range keeps its values, axially and
//                    tangentially the nearest existing value is used, views wrap around for 180 degree data, i.e. view
//                    v +- num_views at tangential position t is the same LOR as view v at -t.
#pragma once
#include "stir_gen.h"
#include "stir/ProjDataInfoCylindricalNoArcCorr.h"
#include "stir/ProjDataInfoCylindricalArcCorr.h"
#include "stir/ProjDataInMemory.h"
#include "stir/ExamInfo.h"
#include "stir/Sinogram.h"
#include "stir/Viewgram.h"
#include "stir/RelatedViewgrams.h"
#include "stir/SegmentBySinogram.h"
#include "stir/TrivialDataSymmetriesForViewSegmentNumbers.h"
#include "stir/recon_buildblock/DataSymmetriesForBins_PET_CartesianGrid.h"
#include "stir/VoxelsOnCartesianGrid.h"
#include "stir/zoom.h"
#include "stir/inverse_SSRB.h"
#include "stir/extend_projdata.h"
#include "stir/numerics/overlap_interpolate.h"
#include "stir/Array.h"
#include "stir/IndexRange2D.h"
#include "stir/IndexRange3D.h"
#include "stir/Succeeded.h"
#include <set>

namespace c15x {
using namespace vf;
using namespace stir;

const bool no_exclude = std::getenv("VERIF_NO_EXCLUDE") != nullptr;

struct AssertsOffScope
{
  AssertsOffScope() { stir_verif::asserts_on = false; }
  ~AssertsOffScope() { stir_verif::asserts_on = true; }
};

// the four range assertions on diff_between_right_edges in overlap_interpolate.cxx carry the comment "+/-epsilon" but test
// without one; they fire on rounding noise of 1e-7 of a bin (see c15_rebin_zoom.cxx).  The case is repeated with the
// assertions off (= what a Release build executes) and every oracle applies to the result.
inline bool
is_overlap_epsilon_assertion(const stir_verif::AssertionFailure& e)
{
  const std::string what = e.what();
  return what.find("diff_between_right_edges") != std::string::npos && what.find("overlap_interpolate.cxx") != std::string::npos;
}

#define C15_TRY(expr)                                                                                                            \
  do                                                                                                                             \
    {                                                                                                                            \
      const ::vf::Result vf_r_ = (expr);                                                                                         \
      if (vf_r_.failed())                                                                                                        \
        return vf_r_;                                                                                                            \
    }                                                                                                                            \
  while (0)

// =================================================================================================
//                                       overlap_interpolate
// =================================================================================================
// Tolerances.  Values are compared relative to S = max|in| x (width of an output box in input units), the natural size of
// an output value.  The zoom form drops contributions in*dx with dx <= 1e-5 (overlap_interpolate.cxx "fabs(dx) > 1e-5"),
// the iterator form drops overlaps <= min(average box)/10000 (overlap_interpolate.inl "epsilon"): both are part of the
// implementation's stated accuracy, a wrong box, sign or factor changes a value by O(1) S.
const double TOL_OVERLAP = 5e-5;
const double TOL_OVERLAP_ITER = 1e-5; // on top of the epsilon that the iterator form documents
// An output box "meets" the input range when the common length exceeds BORDER (zoom form: 1e-3 of the narrower box; iterator
// form: 3 epsilon); it "does not meet" it when the gap exceeds BORDER; in between (edges that coincide up to float rounding)
// both readings are accepted.
const double BORDER_ZOOM = 1e-3;

//! |[a0,a1] ∩ [b0,b1]| (signed: negative = gap)
inline double
common_length(double a0, double a1, double b0, double b1)
{
  return std::min(a1, b1) - std::max(a0, b0);
}

struct OverlapModel
{
  std::vector<double> in_edges, out_edges; // n+1 each
  std::vector<std::vector<double>> in;     // [box][inner]
  double max_in = 0;
  // result of the documented definition
  std::vector<std::vector<double>> value; // [out box][inner]
  std::vector<double> meets;               // common length of out box j with the whole input range (negative = gap)
  void compute()
  {
    const std::size_t ni = in.size(), no = out_edges.size() - 1, m = in.empty() ? 0 : in[0].size();
    value.assign(no, std::vector<double>(m, 0.));
    meets.assign(no, 0.);
    for (std::size_t j = 0; j < no; ++j)
      {
        meets[j] = common_length(out_edges[j], out_edges[j + 1], in_edges.front(), in_edges.back());
        for (std::size_t i = 0; i < ni; ++i)
          {
            const double l = common_length(out_edges[j], out_edges[j + 1], in_edges[i], in_edges[i + 1]);
            if (l > 0)
              for (std::size_t k = 0; k < m; ++k)
                value[j][k] += in[i][k] * l;
          }
      }
    max_in = 0;
    for (auto& r : in)
      for (double x : r)
        max_in = std::max(max_in, std::fabs(x));
  }
};

//! compare one output box with the model
//! \a add = what the call is documented to add its result to (0, or the previous content for only_add_to_output)
inline Result
judge_box(const std::string& what,
          const OverlapModel& M,
          std::size_t j,
          const std::vector<double>& got,
          const std::vector<double>& before,
          bool untouched_when_outside,
          bool only_add,
          double border,
          double tol_abs_arg,
          const char* stat,
          double S)
{
  const std::size_t m = got.size();
  const bool surely_meets = M.meets[j] > border, surely_outside = M.meets[j] < -border;
  for (std::size_t k = 0; k < m; ++k)
    {
      const double interp = (only_add ? before[k] : 0.) + M.value[j][k];
      const double outside = untouched_when_outside ? before[k] : 0.;
      const double e_in = std::fabs(got[k] - interp), e_out = std::fabs(got[k] - outside);
      // only_add_to_output: the sum is rounded to a float of the size of the previous content (a few ulp of 6e-8)
      const double tol_abs = tol_abs_arg + (only_add ? 1e-6 * (std::fabs(before[k]) + std::fabs(interp)) : 0.);
      if (surely_meets)
        {
          stats().maxi(stat, std::max(0., e_in - (tol_abs - tol_abs_arg)) / S);
          VF_CHECK(e_in <= tol_abs, what, ": output box ", j, " [", M.out_edges[j], ",", M.out_edges[j + 1], "] (element ", k, ") = ", got[k],
                   " but the input boxes it meets give ", interp, " (was ", before[k], " before the call; input range [", M.in_edges.front(), ",",
                   M.in_edges.back(), "], tolerance ", tol_abs, ")");
        }
      else if (surely_outside)
        {
          // untouched means untouched: the very same float
          VF_CHECK(untouched_when_outside ? got[k] == before[k] : got[k] == 0., what, ": output box ", j, " [", M.out_edges[j], ",", M.out_edges[j + 1],
                   "] does not meet the input range [", M.in_edges.front(), ",", M.in_edges.back(), "]; it is ", got[k], " after the call, was ", before[k],
                   " before; documented: ", (untouched_when_outside ? "not set" : "set to 0"));
        }
      else
        VF_CHECK(e_in <= tol_abs || e_out <= tol_abs, what, ": output box ", j, " (touching the end of the input range) = ", got[k], ", neither ", interp,
                 " nor ", outside);
    }
  return Result::pass();
}

template <class elemT>
Result
overlap_zoom_form_1d(const json& c, bool asserts_were_off)
{
  const int in_min = c["in_min"], in_n = c["in_n"], out_min = c["out_min"], out_n = c["out_n"];
  const float zoom = c["zoom"].get<float>(), offset = c["offset"].get<float>();
  const bool assign = c["assign"];
  const double amp = c["amp"];
  SplitMix g(c["data_seed"].get<uint64_t>());
  VectorWithOffset<elemT> in(in_min, in_min + in_n - 1), out(out_min, out_min + out_n - 1);
  OverlapModel M;
  M.in.resize(std::size_t(in_n));
  for (int i = 0; i < in_n; ++i)
    {
      in[in_min + i] = elemT(float(g.real(-1., 1.) * amp));
      M.in[std::size_t(i)] = { double(in[in_min + i]) };
      M.in_edges.push_back(in_min + i - .5);
    }
  M.in_edges.push_back(in_min + in_n - .5);
  // overlap_interpolate.cxx: "For an index x_out (in out_data coordinates), the corresponding in_data coordinate is
  // x_in = x_out/zoom + offset (the 'bins' are centered around the coordinate value)"
  for (int j = 0; j <= out_n; ++j)
    M.out_edges.push_back((out_min + j - .5) / double(zoom) + double(offset));
  M.compute();
  std::vector<double> before(std::size_t(out_n), 0.);
  for (int j = 0; j < out_n; ++j)
    {
      out[out_min + j] = elemT(float((50. + 3. * g.unit()) * amp));
      before[std::size_t(j)] = double(out[out_min + j]);
    }
  overlap_interpolate(out, in, zoom, offset, assign);
  VF_CHECK(out.get_min_index() == out_min && out.get_length() == out_n, "overlap_interpolate changed the index range of the output to ", out.get_min_index(),
           "..", out.get_max_index());
  const double S = std::max(M.max_in, 1e-30) / double(zoom);
  const double border = BORDER_ZOOM * std::min(1., 1. / double(zoom)) + 1e-5 * (std::fabs(double(offset)) + std::fabs(M.out_edges.front()) + std::fabs(M.out_edges.back()));
  for (int j = 0; j < out_n; ++j)
    C15_TRY(judge_box(cat("overlap_interpolate(out,in,zoom=", zoom, ",offset=", offset, ",assign_rest_with_zeroes=", assign, ") [1-D ",
                          (sizeof(elemT) == 8 ? "double" : "float"), asserts_were_off ? ", assertions off" : "", "]"),
                      M, std::size_t(j), { double(out[out_min + j]) }, { before[std::size_t(j)] }, !assign, false, border, TOL_OVERLAP * S,
                      "overlap: max rel err of the zoom form vs the definition", S));
  // the input is not an output
  for (int i = 0; i < in_n; ++i)
    VF_CHECK(double(in[in_min + i]) == M.in[std::size_t(i)][0], "overlap_interpolate changed its input");
  return Result::pass();
}

//! zoom form on arrays of arrays (dim 2: rows; dim 3: planes); inner index ranges of input and output are the same
//! (element-wise operator= / += / -= of the element type; zoom.cxx always calls it like that)
inline Result
overlap_zoom_form_nd(const json& c, bool asserts_were_off)
{
  const int dim = c["dim"];
  const int in_min = c["in_min"], in_n = c["in_n"], out_min = c["out_min"], out_n = c["out_n"];
  const int r1_min = c["r1_min"], r1_n = c["r1_n"], r2_min = c["r2_min"], r2_n = dim == 3 ? c["r2_n"].get<int>() : 1;
  const float zoom = c["zoom"].get<float>(), offset = c["offset"].get<float>();
  const bool assign = c["assign"];
  const double amp = c["amp"];
  SplitMix g(c["data_seed"].get<uint64_t>());
  OverlapModel M;
  M.in.assign(std::size_t(in_n), std::vector<double>(std::size_t(r1_n) * r2_n, 0.));
  for (int i = 0; i <= in_n; ++i)
    M.in_edges.push_back(in_min + i - .5);
  for (int j = 0; j <= out_n; ++j)
    M.out_edges.push_back((out_min + j - .5) / double(zoom) + double(offset));
  std::vector<std::vector<double>> before(std::size_t(out_n), std::vector<double>(std::size_t(r1_n) * r2_n, 0.)), got = before;
  const std::string what = cat("overlap_interpolate(out,in,zoom=", zoom, ",offset=", offset, ",assign_rest_with_zeroes=", assign, ") [", dim, "-D arrays",
                               asserts_were_off ? ", assertions off" : "", "]");
  if (dim == 2)
    {
      Array<2, float> in(IndexRange2D(in_min, in_min + in_n - 1, r1_min, r1_min + r1_n - 1)),
          out(IndexRange2D(out_min, out_min + out_n - 1, r1_min, r1_min + r1_n - 1));
      for (int i = 0; i < in_n; ++i)
        for (int k = 0; k < r1_n; ++k)
          M.in[std::size_t(i)][std::size_t(k)] = double(in[in_min + i][r1_min + k] = float(g.real(-1., 1.) * amp));
      for (int j = 0; j < out_n; ++j)
        for (int k = 0; k < r1_n; ++k)
          before[std::size_t(j)][std::size_t(k)] = double(out[out_min + j][r1_min + k] = float((50. + 3. * g.unit()) * amp));
      overlap_interpolate(out, in, zoom, offset, assign);
      VF_CHECK(out.get_min_index() == out_min && out.get_length() == out_n, what, ": index range of the output changed");
      for (int j = 0; j < out_n; ++j)
        {
          VF_CHECK(out[out_min + j].get_min_index() == r1_min && out[out_min + j].get_length() == r1_n, what, ": index range of output row ", out_min + j,
                   " changed to ", out[out_min + j].get_min_index(), "..", out[out_min + j].get_max_index());
          for (int k = 0; k < r1_n; ++k)
            got[std::size_t(j)][std::size_t(k)] = double(out[out_min + j][r1_min + k]);
        }
    }
  else
    {
      Array<3, float> in(IndexRange3D(in_min, in_min + in_n - 1, r1_min, r1_min + r1_n - 1, r2_min, r2_min + r2_n - 1)),
          out(IndexRange3D(out_min, out_min + out_n - 1, r1_min, r1_min + r1_n - 1, r2_min, r2_min + r2_n - 1));
      for (int i = 0; i < in_n; ++i)
        for (int k = 0; k < r1_n; ++k)
          for (int l = 0; l < r2_n; ++l)
            M.in[std::size_t(i)][std::size_t(k) * r2_n + l] = double(in[in_min + i][r1_min + k][r2_min + l] = float(g.real(-1., 1.) * amp));
      for (int j = 0; j < out_n; ++j)
        for (int k = 0; k < r1_n; ++k)
          for (int l = 0; l < r2_n; ++l)
            before[std::size_t(j)][std::size_t(k) * r2_n + l] = double(out[out_min + j][r1_min + k][r2_min + l] = float((50. + 3. * g.unit()) * amp));
      overlap_interpolate(out, in, zoom, offset, assign);
      VF_CHECK(out.get_min_index() == out_min && out.get_length() == out_n, what, ": index range of the output changed");
      for (int j = 0; j < out_n; ++j)
        {
          VF_CHECK(out[out_min + j].get_min_index() == r1_min && out[out_min + j].get_length() == r1_n && out[out_min + j][r1_min].get_min_index() == r2_min
                       && out[out_min + j][r1_min].get_length() == r2_n,
                   what, ": index range of output plane ", out_min + j, " changed");
          for (int k = 0; k < r1_n; ++k)
            for (int l = 0; l < r2_n; ++l)
              got[std::size_t(j)][std::size_t(k) * r2_n + l] = double(out[out_min + j][r1_min + k][r2_min + l]);
        }
    }
  M.compute();
  const double S = std::max(M.max_in, 1e-30) / double(zoom);
  const double border = BORDER_ZOOM * std::min(1., 1. / double(zoom)) + 1e-5 * (std::fabs(double(offset)) + std::fabs(M.out_edges.front()) + std::fabs(M.out_edges.back()));
  for (int j = 0; j < out_n; ++j)
    C15_TRY(judge_box(what, M, std::size_t(j), got[std::size_t(j)], before[std::size_t(j)], !assign, false, border, TOL_OVERLAP * S,
                      "overlap: max rel err of the zoom form vs the definition", S));
  return Result::pass();
}

//! the iterator form with arbitrary box edges
inline Result
overlap_iterator_form(const json& c)
{
  const int in_n = c["in_n"], out_n = c["out_n"], r1_n = c["r1_n"];
  const bool only_add = c["only_add"], assign = c["assign"];
  const int dim = c["dim"]; // 1 or 2
  const double amp = c["amp"];
  SplitMix g(c["data_seed"].get<uint64_t>());
  Array<1, float> in_coords(0, in_n), out_coords(0, out_n);
  OverlapModel M;
  {
    double x = c["in_start"].get<double>();
    for (int i = 0; i <= in_n; ++i)
      {
        in_coords[i] = float(x);
        M.in_edges.push_back(double(in_coords[i]));
        x += c["in_widths"][std::size_t(i % int(c["in_widths"].size()))].get<double>();
      }
    x = c["out_start"].get<double>();
    for (int j = 0; j <= out_n; ++j)
      {
        out_coords[j] = float(x);
        M.out_edges.push_back(double(out_coords[j]));
        x += c["out_widths"][std::size_t(j % int(c["out_widths"].size()))].get<double>();
      }
  }
  const int m = dim == 1 ? 1 : r1_n;
  M.in.assign(std::size_t(in_n), std::vector<double>(std::size_t(m), 0.));
  std::vector<std::vector<double>> before(std::size_t(out_n), std::vector<double>(std::size_t(m), 0.)), got = before;
  const std::string what = cat("overlap_interpolate(iterators; only_add_to_output=", only_add, ", assign_rest_with_zeroes=", assign, ") [", dim, "-D]");
  if (dim == 1)
    {
      Array<1, float> in(0, in_n - 1), out(0, out_n - 1);
      for (int i = 0; i < in_n; ++i)
        M.in[std::size_t(i)][0] = double(in[i] = float(g.real(-1., 1.) * amp));
      for (int j = 0; j < out_n; ++j)
        before[std::size_t(j)][0] = double(out[j] = float((50. + 3. * g.unit()) * amp));
      overlap_interpolate(out.begin(), out.end(), out_coords.begin(), out_coords.end(), in.begin(), in.end(), in_coords.begin(), in_coords.end(), only_add,
                          assign);
      for (int j = 0; j < out_n; ++j)
        got[std::size_t(j)][0] = double(out[j]);
    }
  else
    {
      Array<2, float> in(IndexRange2D(0, in_n - 1, -1, r1_n - 2)), out(IndexRange2D(0, out_n - 1, -1, r1_n - 2));
      for (int i = 0; i < in_n; ++i)
        for (int k = 0; k < r1_n; ++k)
          M.in[std::size_t(i)][std::size_t(k)] = double(in[i][k - 1] = float(g.real(-1., 1.) * amp));
      for (int j = 0; j < out_n; ++j)
        for (int k = 0; k < r1_n; ++k)
          before[std::size_t(j)][std::size_t(k)] = double(out[j][k - 1] = float((50. + 3. * g.unit()) * amp));
      overlap_interpolate(out.begin(), out.end(), out_coords.begin(), out_coords.end(), in.begin(), in.end(), in_coords.begin(), in_coords.end(), only_add,
                          assign);
      for (int j = 0; j < out_n; ++j)
        {
          VF_CHECK(out[j].get_min_index() == -1 && out[j].get_length() == r1_n, what, ": index range of output row ", j, " changed");
          for (int k = 0; k < r1_n; ++k)
            got[std::size_t(j)][std::size_t(k)] = double(out[j][k - 1]);
        }
    }
  M.compute();
  double max_out_w = 0;
  for (int j = 0; j < out_n; ++j)
    max_out_w = std::max(max_out_w, M.out_edges[std::size_t(j) + 1] - M.out_edges[std::size_t(j)]);
  // overlap_interpolate.inl: "we'll take it 1000 times smaller than the minimum of the average out_box size or in_box size"
  // (the code divides by 10000)
  const double eps = std::min((M.out_edges.back() - M.out_edges.front()) / out_n, (M.in_edges.back() - M.in_edges.front()) / in_n) / 10000;
  const double S = std::max(M.max_in, 1e-30) * max_out_w;
  const double coord_mag = std::max(std::max(std::fabs(M.in_edges.front()), std::fabs(M.in_edges.back())),
                                    std::max(std::fabs(M.out_edges.front()), std::fabs(M.out_edges.back())));
  const double border = 3 * eps + 1e-6 * coord_mag;
  // an output box can lose an overlap <= epsilon at either end
  const double tol_abs = TOL_OVERLAP_ITER * S + 3 * eps * std::max(M.max_in, 1e-30);
  stats().maxi("overlap: iterator form, allowed error / S", tol_abs / S);
  for (int j = 0; j < out_n; ++j)
    C15_TRY(judge_box(what, M, std::size_t(j), got[std::size_t(j)], before[std::size_t(j)], only_add || !assign, only_add, border, tol_abs,
                      "overlap: max rel err of the iterator form vs the definition", S));
  return Result::pass();
}

inline Result
check_overlap_once(const json& c, bool asserts_were_off)
{
  const std::string form = c["form"];
  stats().cls("overlap");
  stats().cls(cat("overlap: ", form, " form, ", c["dim"].get<int>(), "-D", form == "zoom" && c["dim"].get<int>() == 1 ? cat(" ", c["elem"].get<std::string>()) : ""));
  if (form == "iter")
    {
      stats().cls(cat("overlap: iterator form only_add=", c["only_add"].get<bool>(), " assign_rest=", c["assign"].get<bool>()));
      return overlap_iterator_form(c);
    }
  stats().cls(c["assign"].get<bool>() ? "overlap: zoom form assign_rest_with_zeroes=true" : "overlap: zoom form assign_rest_with_zeroes=false");
  stats().cls(c["zoom"].get<float>() >= 1.F ? "overlap: zoom >= 1" : "overlap: zoom < 1");
  if (c["dim"].get<int>() == 1)
    return c["elem"].get<std::string>() == "double" ? overlap_zoom_form_1d<double>(c, asserts_were_off) : overlap_zoom_form_1d<float>(c, asserts_were_off);
  return overlap_zoom_form_nd(c, asserts_were_off);
}

inline Result
check_overlap(const json& c)
{
  try
    {
      return check_overlap_once(c, false);
    }
  catch (const stir_verif::AssertionFailure& e)
    {
      if (!is_overlap_epsilon_assertion(e))
        throw;
      stats().cls("overlap: epsilon-less assertion of overlap_interpolate fired, re-run with assertions off");
      AssertsOffScope guard;
      return check_overlap_once(c, true);
    }
}

// ---- known finding C15-F5 -----------------------------------------------------------------------------------------
// overlap_interpolate(out, in, zoom, offset, assign_rest_with_zeroes=false) is documented "does not set values in out_data
// which do not overlap with in_data".  The code only skips the zeroing: output boxes to the left of the input range are
// multiplied by diff_between_right_edges/zoom (zoom >= 1), and the first output box that meets the input takes its old
// content into the result (out = (old - in[x1+1])*d/zoom for zoom >= 1; old + sum for zoom < 1, also when its left edge
// coincides with the left edge of an input box).  Input class: zoom form, assign_rest_with_zeroes=false, and the left edge
// of the first output box is not strictly inside the input range (zoom < 1: or coincides with an edge of an input box).
const char* const SIG_F5 = "C15:F5:overlap_interpolate(assign_rest_with_zeroes=false):first output box starts at or before the input range (or on an input box edge for zoom<1)";

inline bool
overlap_is_known_F5(const json& c)
{
  if (c.value("part", "") != "overlap" || c.value("form", "") != "zoom" || c["assign"].get<bool>())
    return false;
  const double zoom = double(c["zoom"].get<float>()), offset = double(c["offset"].get<float>());
  const double out_left = (c["out_min"].get<int>() - .5) / zoom + offset, in_left = c["in_min"].get<int>() - .5;
  if (out_left <= in_left + 1e-3)
    return true;
  if (zoom < 1)
    {
      const double frac = out_left - in_left - std::floor(out_left - in_left);
      if (frac < 1e-3 || frac > 1 - 1e-3)
        return true;
    }
  return false;
}

// BEGIN-KNOWN-F7
// ---- known finding C15-F7 -----------------------------------------------------------------------------------------
// The iterator form returns at once when every input box lies to the left of the first output box ("skip input to the left
// of the output range ... return"), also for only_add_to_output=false, assign_rest_with_zeroes=true, where the output is
// documented to be set to 0 ("If true those data are set to 0").  (Input entirely to the RIGHT of the output is zeroed.)
const char* const SIG_F7 = "C15:F7:overlap_interpolate(iterators; only_add_to_output=false, assign_rest_with_zeroes=true):all input boxes left of the output range";

inline bool
overlap_is_known_F7(const json& c)
{
  if (c.value("part", "") != "overlap" || c.value("form", "") != "iter" || c["only_add"].get<bool>() || !c["assign"].get<bool>())
    return false;
  double x = c["in_start"].get<double>();
  for (int i = 0; i < c["in_n"].get<int>(); ++i)
    x += c["in_widths"][std::size_t(i % int(c["in_widths"].size()))].get<double>();
  return double(float(x)) <= double(float(c["out_start"].get<double>())) + 1e-4;
}

// END-KNOWN-F7
inline json
gen_overlap(Src& s, int size)
{
  json c;
  c["part"] = "overlap";
  const int top = size < 30 ? 7 : 14;
  c["amp"] = s.pick(std::vector<double>{ 1., 1., 1000., 1e-3 });
  c["data_seed"] = s.seed64();
  if (s.chance(1, 3))
    {
      c["form"] = "iter";
      c["dim"] = s.chance(2, 3) ? 1 : 2;
      c["r1_n"] = int(s.range(1, 4));
      const int in_n = int(s.range(1, top)), out_n = int(s.range(1, top));
      c["in_n"] = in_n;
      c["out_n"] = out_n;
      c["only_add"] = s.chance(1, 3);
      c["assign"] = s.chance(1, 2);
      std::vector<double> wi, wo;
      const bool regular_in = s.chance(1, 3), regular_out = s.chance(1, 3);
      for (int i = 0; i < 5; ++i)
        {
          wi.push_back(regular_in ? 1. : s.pick(std::vector<double>{ 0.5, 1., 1., 1.5, 2., 0.25, 0.7, 1.3 }));
          wo.push_back(regular_out ? 1. : s.pick(std::vector<double>{ 0.5, 1., 1., 1.5, 2., 0.25, 3., 0.6, 1.7 }));
        }
      if (regular_out)
        {
          const double w = s.pick(std::vector<double>{ 0.5, 1., 2., 0.4, 1.3, 3. });
          for (auto& x : wo)
            x = w;
        }
      c["in_widths"] = wi;
      c["out_widths"] = wo;
      const double in_start = s.nice_real(-10., 10.);
      c["in_start"] = in_start;
      // the out boxes start somewhere around the in range; now and then the two ranges are disjoint or just touch
      double in_len = 0;
      for (int i = 0; i < in_n; ++i)
        in_len += wi[std::size_t(i % 5)];
      double out_len = 0;
      for (int j = 0; j < out_n; ++j)
        out_len += wo[std::size_t(j % 5)];
      const int where = int(s.range(0, 9));
      double out_start;
      if (where == 0)
        out_start = in_start + in_len + s.pick(std::vector<double>{ 0., 0.5, 2. }); // input entirely to the left of the output
      else if (where == 1)
        out_start = in_start - out_len - s.pick(std::vector<double>{ 0., 0.5, 2. }); // input entirely to the right of the output
      else if (where <= 4)
        out_start = in_start + s.pick(std::vector<double>{ -2., -1., -0.5, 0., 0.5, 1. });
      else
        out_start = in_start - out_len + s.real(0., 1.) * (in_len + out_len);
      c["out_start"] = out_start;
// BEGIN-KNOWN-F7
      if (!no_exclude && overlap_is_known_F7(c))
        { // kept out by construction: the same boxes without the zeroing of the rest
          c["assign"] = false;
          stats().excluded_known++;
          stats().count(std::string("excluded:") + SIG_F7);
        }
// END-KNOWN-F7
      return c;
    }
  c["form"] = "zoom";
  const int dim = int(s.pick(std::vector<int>{ 1, 1, 1, 2, 2, 3 }));
  c["dim"] = dim;
  c["elem"] = (dim == 1 && s.chance(1, 3)) ? "double" : "float";
  const int in_n = int(s.range(1, top));
  const int in_min = s.chance(1, 3) ? 0 : int(s.range(-9, 5));
  c["in_n"] = in_n;
  c["in_min"] = in_min;
  c["r1_min"] = int(s.range(-3, 2));
  c["r1_n"] = int(s.range(1, 4));
  c["r2_min"] = int(s.range(-3, 2));
  c["r2_n"] = int(s.range(1, 3));
  // overlap_interpolate.cxx: assert(zoom > 0)
  const double zoom = s.chance(1, 2) ? s.pick(std::vector<double>{ 1., 0.5, 2., 1.5, 0.25, 3., 0.75, 1.25, 4., 0.2 }) : s.real(0.2, 5.);
  const double offset = s.chance(1, 4) ? 0. : (s.chance(1, 2) ? s.pick(std::vector<double>{ 0.5, -0.5, 1., -1., 0.25, 2.5, -3. }) : s.real(-4., 4.));
  c["zoom"] = zoom;
  c["offset"] = offset;
  c["assign"] = s.chance(1, 2);
  // output index range: around the image of the input range  x_out = (x_in - offset)*zoom, sometimes far off
  const double lo = (in_min - .5 - offset) * zoom, hi = (in_min + in_n - .5 - offset) * zoom;
  const int where = int(s.range(0, 9));
  int out_min, out_n;
  if (where == 0)
    { // no common point: output entirely to the right / left
      out_n = int(s.range(1, 5));
      out_min = s.coin() ? int(std::ceil(hi)) + int(s.range(1, 4)) : int(std::floor(lo)) - out_n - int(s.range(1, 4));
    }
  else if (where <= 5)
    { // output covers the input and more
      out_min = int(std::floor(lo)) - int(s.range(0, 4));
      out_n = std::min(60, int(std::ceil(hi)) + int(s.range(0, 4)) - out_min + 1);
    }
  else
    { // partial
      out_min = int(std::floor(lo + s.real(-0.3, 0.8) * (hi - lo)));
      out_n = int(s.range(1, std::max(1, std::min(60, int((hi - lo) * 1.2) + 2))));
    }
  c["out_min"] = out_min;
  c["out_n"] = std::max(1, out_n);
  if (!no_exclude && overlap_is_known_F5(c))
    { // kept out by construction: the same boxes with assign_rest_with_zeroes=true
      c["assign"] = true;
      stats().excluded_known++;
      stats().count(std::string("excluded:") + SIG_F5);
    }
  return c;
}

// =================================================================================================
//                                   zoom_viewgram / zoom_viewgrams
// =================================================================================================
// BEGIN-KNOWN-F8
const char* const SIG_F8 = "C15:F8:zoom_viewgram(out_viewgram,in_viewgram,0,0):same tangential range and bin size (nothing to do): output not set";

// END-KNOWN-F8
inline void
fill_viewgram(Viewgram<float>& v, SplitMix& g, int sup_lo, int sup_hi, int fill_percent, double amp)
{
  v.fill(0.F);
  for (int a = v.get_min_axial_pos_num(); a <= v.get_max_axial_pos_num(); ++a)
    for (int t = std::max(sup_lo, v.get_min_tangential_pos_num()); t <= std::min(sup_hi, v.get_max_tangential_pos_num()); ++t)
      {
        const bool on = g.range(1, 100) <= fill_percent;
        const double val = g.real(0.05, 1.) * amp;
        if (on)
          v[a][t] = float(val);
      }
}

//! reference for one viewgram: out[a][j] = sum_i in[a][i] |box_i ∩ box_j| / bin_in,
//!   box_i = [(i-.5) b_in, (i+.5) b_in],  box_j = [(j-.5) b_out + shift, (j+.5) b_out + shift]  (mm along s)
inline Result
compare_zoomed_viewgram(const std::string& what, const Viewgram<float>& got, const Viewgram<float>& in, double b_in, double b_out, double shift, int new_min,
                        int new_max, bool& covered, double& sum_in, double& sum_out)
{
  VF_CHECK(got.get_min_tangential_pos_num() == new_min && got.get_max_tangential_pos_num() == new_max, what, ": tangential range of the result is ",
           got.get_min_tangential_pos_num(), "..", got.get_max_tangential_pos_num(), ", asked for ", new_min, "..", new_max);
  VF_CHECK(got.get_min_axial_pos_num() == in.get_min_axial_pos_num() && got.get_max_axial_pos_num() == in.get_max_axial_pos_num()
               && got.get_view_num() == in.get_view_num() && got.get_segment_num() == in.get_segment_num() && got.get_timing_pos_num() == in.get_timing_pos_num(),
           what, ": view/segment/TOF/axial range of the result differ from the input");
  double max_in = 0;
  int lo = 1 << 20, hi = -(1 << 20);
  sum_in = sum_out = 0;
  for (int a = in.get_min_axial_pos_num(); a <= in.get_max_axial_pos_num(); ++a)
    for (int i = in.get_min_tangential_pos_num(); i <= in.get_max_tangential_pos_num(); ++i)
      {
        max_in = std::max(max_in, std::fabs(double(in[a][i])));
        sum_in += in[a][i];
        if (in[a][i] != 0)
          {
            lo = std::min(lo, i);
            hi = std::max(hi, i);
          }
      }
  const double S = std::max(max_in, 1e-30) * b_out / b_in;
  covered = lo <= hi && (new_min - .5) * b_out + shift <= (lo - 1.5) * b_in && (new_max + .5) * b_out + shift >= (hi + 1.5) * b_in;
  for (int a = in.get_min_axial_pos_num(); a <= in.get_max_axial_pos_num(); ++a)
    for (int j = new_min; j <= new_max; ++j)
      {
        double want = 0;
        const double o0 = (j - .5) * b_out + shift, o1 = (j + .5) * b_out + shift;
        for (int i = in.get_min_tangential_pos_num(); i <= in.get_max_tangential_pos_num(); ++i)
          {
            const double l = common_length(o0, o1, (i - .5) * b_in, (i + .5) * b_in);
            if (l > 0)
              want += double(in[a][i]) * l / b_in;
          }
        sum_out += got[a][j];
        const double e = std::fabs(double(got[a][j]) - want);
        stats().maxi("viewgram: max rel err vs resampling along s", e / S);
        VF_CHECK(e <= 1e-4 * S, what, ": (axial ", a, ", tangential ", j, ") = ", got[a][j], " but the input bins inside [", o0, ",", o1, "] mm give ", want,
                 " (bin sizes ", b_in, " -> ", b_out, ", shift ", shift, " mm)");
      }
  return Result::pass();
}

inline Result
check_viewgram_once(const json& c)
{
  shared_ptr<Scanner> sc;
  shared_ptr<ProjDataInfo> pdi;
  try
    {
      sc = vg::make_scanner(c["scanner"]);
      if (sc->check_consistency() != Succeeded::yes)
        return Result::reject("scanner inconsistent");
      pdi = vg::make_pdi(sc, c["pdi"]);
    }
  catch (const std::runtime_error& e)
    {
      return Result::reject(std::string("construction rejected: ") + e.what());
    }
  const int seg = c["seg"], view = c["view"], tpos = c["tpos"];
  const float zoom = c["zoom"].get<float>(), xoff = c["xoff"].get<float>(), yoff = c["yoff"].get<float>();
  const int new_min = c["new_min"], new_max = c["new_max"];
  const double amp = c["amp"];
  stats().cls("viewgram");
  SplitMix g(c["data_seed"].get<uint64_t>());
  Viewgram<float> in = pdi->get_empty_viewgram(view, seg, false, tpos);
  fill_viewgram(in, g, c["sup_lo"], c["sup_hi"], c["fill_percent"], amp);

  const auto* arc = dynamic_cast<const ProjDataInfoCylindricalArcCorr*>(pdi.get());
  if (!arc)
    { // zoom.cxx: error("zoom_viewgram does not support non-arccorrected data. Sorry")
      stats().cls("viewgram: data not arc-corrected, error() expected");
      bool reported = false;
      try
        {
          Viewgram<float> v(in);
          zoom_viewgram(v, zoom, new_min, new_max, xoff, yoff);
        }
      catch (const std::runtime_error&)
        {
          reported = true;
        }
      // (when there is nothing to do -- zoom 1, no offsets, same range -- the functions return before they look at the data)
      const bool nothing = zoom == 1.F && xoff == 0.F && yoff == 0.F && new_min == in.get_min_tangential_pos_num() && new_max == in.get_max_tangential_pos_num();
      VF_CHECK(reported || nothing, "zoom_viewgram accepted data that are not arc-corrected (zoom.cxx: error())");
      return Result::pass();
    }
  const double b_in = arc->get_tangential_sampling();
  const double b_out = b_in / double(zoom);
  // ProjDataInfoCylindrical::get_LOR: X = s cos(phi) + a sin(phi), Y = s sin(phi) - a cos(phi)  =>  s = X cos(phi) + Y sin(phi);
  // an origin moved to (x_off, y_off) changes s of every point by -(x_off cos(phi) + y_off sin(phi))
  auto shift_of = [&](const Viewgram<float>& v) {
    const double phi = arc->get_phi(Bin(v.get_segment_num(), v.get_view_num(), 0, 0));
    return double(xoff) * std::cos(phi) + double(yoff) * std::sin(phi);
  };
  const bool nothing_to_do = zoom == 1.F && xoff == 0.F && yoff == 0.F && new_min == in.get_min_tangential_pos_num() && new_max == in.get_max_tangential_pos_num();
  if (nothing_to_do)
    stats().cls("viewgram: nothing to do");

  // ---- A: in place -----------------------------------------------------------------------------
  Viewgram<float> A(in);
  zoom_viewgram(A, zoom, new_min, new_max, xoff, yoff);
  {
    const auto* pa = dynamic_cast<const ProjDataInfoCylindricalArcCorr*>(A.get_proj_data_info_sptr().get());
    VF_CHECK(pa != nullptr, "zoom_viewgram: result is not arc-corrected data");
    VF_CHECK(std::fabs(double(pa->get_tangential_sampling()) - b_out) <= 1e-5 * b_out, "zoom_viewgram: new bin size ", pa->get_tangential_sampling(), " != ", b_in,
             "/", zoom);
    VF_CHECK(pa->get_num_views() == pdi->get_num_views() && pa->get_min_segment_num() == pdi->get_min_segment_num()
                 && pa->get_max_segment_num() == pdi->get_max_segment_num() && pa->get_num_tof_poss() == pdi->get_num_tof_poss(),
             "zoom_viewgram: views/segments/TOF of the new sampling differ from the input");
  }
  bool covered = false;
  double sum_in = 0, sum_out = 0;
  C15_TRY(compare_zoomed_viewgram("zoom_viewgram(viewgram,zoom,min,max,x_off,y_off)", A, in, b_in, b_out, shift_of(in), new_min, new_max, covered, sum_in, sum_out));
  if (covered)
    {
      stats().cls("viewgram: new range covers the data");
      stats().maxi("viewgram: max rel err of the sum (covered)", std::fabs(sum_out - sum_in) / sum_in);
      // zoom.h: "the zooming is 'count-preserving', i.e. when the output range is large enough, the in.sum() == out.sum()"
      VF_CHECK(std::fabs(sum_out - sum_in) <= 1e-4 * sum_in, "zoom_viewgram: sum ", sum_out, " != sum of the input ", sum_in, " although the new range covers the data");
    }
  else
    stats().cls("viewgram: new range truncates the data (or no data)");

  // ---- B: output viewgram given, pre-filled ------------------------------------------------------
  // known finding C15-F8: when there is nothing to do (same tangential range and bin size, zero offsets)
  // zoom_viewgram(out_viewgram, in_viewgram, ...) returns without copying the input into the output ("replacing
  // out_viewgram with the new data", zoom.h); the image overloads do copy.  That sub-case is left out here (counted).
  // BEGIN-KNOWN-F8
  if (nothing_to_do && !no_exclude)
    {
      stats().excluded_known++;
      stats().count(std::string("excluded:") + SIG_F8);
    }
  else
    // END-KNOWN-F8
    {
    shared_ptr<ProjDataInfo> new_pdi(pdi->clone());
    auto* np = dynamic_cast<ProjDataInfoCylindricalArcCorr*>(new_pdi.get());
    np->set_min_tangential_pos_num(new_min);
    np->set_max_tangential_pos_num(new_max);
    np->set_tangential_sampling(float(arc->get_tangential_sampling() / zoom));
    Viewgram<float> B = new_pdi->get_empty_viewgram(view, seg, false, tpos);
    B.fill(float(77. * amp));
    const Viewgram<float> in_copy(in);
    zoom_viewgram(B, in, xoff, yoff);
    for (int a = in.get_min_axial_pos_num(); a <= in.get_max_axial_pos_num(); ++a)
      {
        for (int i = in.get_min_tangential_pos_num(); i <= in.get_max_tangential_pos_num(); ++i)
          VF_CHECK(in[a][i] == in_copy[a][i], "zoom_viewgram(out,in): the input viewgram was changed");
        for (int j = new_min; j <= new_max; ++j)
          VF_CHECK(B[a][j] == A[a][j], "zoom_viewgram(out_viewgram,in_viewgram,x_off,y_off) with a pre-filled output: (axial ", a, ", tangential ", j, ") = ", B[a][j],
                   " but zoom_viewgram(viewgram,zoom,min,max,...) gives ", A[a][j]);
      }
  }

  // ---- C: related viewgrams ---------------------------------------------------------------------
  {
    shared_ptr<DataSymmetriesForViewSegmentNumbers> symm;
    if (c.value("symm", 0) == 0)
      symm.reset(new TrivialDataSymmetriesForViewSegmentNumbers);
    else
      {
        try
          {
            // (image given explicitly: VoxelsOnCartesianGrid(const ProjDataInfo&) takes max_element of an empty vector for
            // data with a single view -- VoxelsOnCartesianGrid.cxx:249 loops "view < get_max_view_num()" -- not part of C15)
            const float zs = sc->get_ring_spacing() / 2, xs = float(b_in);
            shared_ptr<DiscretisedDensity<3, float>> im(new VoxelsOnCartesianGrid<float>(
                IndexRange3D(0, 2 * sc->get_num_rings() - 2, -3, 3, -3, 3), CartesianCoordinate3D<float>(0.F, 0.F, 0.F), CartesianCoordinate3D<float>(zs, xs, xs)));
            symm.reset(new DataSymmetriesForBins_PET_CartesianGrid(pdi, im));
          }
        catch (const std::runtime_error&)
          {
            symm.reset(new TrivialDataSymmetriesForViewSegmentNumbers);
          }
      }
    ViewSegmentNumbers vs(view, seg);
    symm->find_basic_view_segment_numbers(vs);
    RelatedViewgrams<float> R = pdi->get_empty_related_viewgrams(ViewgramIndices(vs.view_num(), vs.segment_num(), tpos), symm, false, tpos);
    stats().cls(cat("viewgram: ", R.get_num_viewgrams(), " related viewgrams"));
    std::vector<Viewgram<float>> ins;
    for (auto it = R.begin(); it != R.end(); ++it)
      {
        fill_viewgram(*it, g, c["sup_lo"], c["sup_hi"], c["fill_percent"], amp);
        ins.push_back(*it);
      }
    zoom_viewgrams(R, zoom, new_min, new_max, xoff, yoff);
    VF_CHECK(std::size_t(R.get_num_viewgrams()) == ins.size(), "zoom_viewgrams changed the number of related viewgrams");
    std::size_t k = 0;
    for (auto it = R.begin(); it != R.end(); ++it, ++k)
      {
        bool cov = false;
        double si = 0, so = 0;
        C15_TRY(compare_zoomed_viewgram(cat("zoom_viewgrams, related viewgram ", k, " (view ", ins[k].get_view_num(), ", segment ", ins[k].get_segment_num(), ")"), *it,
                                        ins[k], b_in, b_out, shift_of(ins[k]), new_min, new_max, cov, si, so));
        // the same with the single-viewgram function: identical arithmetic
        Viewgram<float> single(ins[k]);
        zoom_viewgram(single, zoom, new_min, new_max, xoff, yoff);
        for (int a = single.get_min_axial_pos_num(); a <= single.get_max_axial_pos_num(); ++a)
          for (int j = new_min; j <= new_max; ++j)
            VF_CHECK((*it)[a][j] == single[a][j], "zoom_viewgrams: related viewgram ", k, " (axial ", a, ", tangential ", j, ") = ", (*it)[a][j],
                     " but zoom_viewgram of the same viewgram gives ", single[a][j]);
      }
  }
  return Result::pass();
}

inline Result
check_viewgram(const json& c)
{
  try
    {
      return check_viewgram_once(c);
    }
  catch (const stir_verif::AssertionFailure& e)
    {
      if (!is_overlap_epsilon_assertion(e))
        throw;
      stats().cls("viewgram: epsilon-less assertion of overlap_interpolate fired, re-run with assertions off");
      AssertsOffScope guard;
      return check_viewgram_once(c);
    }
}

inline json
gen_viewgram(Src& s, int size)
{
  json c;
  c["part"] = "viewgram";
  vg::ScannerOpts so;
  so.max_ndet = size < 30 ? 16 : 32;
  so.max_rings = 3;
  so.allow_blocks = false;
  so.allow_predefined = false;
  so.allow_tof = true;
  c["scanner"] = vg::gen_scanner(s, so);
  shared_ptr<Scanner> sc = vg::make_scanner(c["scanner"]);
  const int rings = sc->get_num_rings(), ndet = sc->get_num_detectors_per_ring();
  json p;
  const int span = 1;
  const int max_delta = int(s.range(0, rings - 1));
  p["span"] = span;
  p["max_delta"] = max_delta;
  const int mash = s.chance(1, 3) ? s.pick(vg::divisors(ndet / 2)) : 1;
  const int views = ndet / 2 / mash;
  p["views"] = views;
  const int tang = int(s.range(2, std::max(2, std::min(24, sc->get_max_num_non_arccorrected_bins()))));
  p["tang"] = tang;
  p["arccorr"] = !s.chance(1, 12);
  int f = 0;
  if (sc->is_tof_ready() && s.coin())
    {
      const int N = sc->get_max_num_timing_poss();
      std::vector<int> ok;
      for (int m = 1; m <= N; ++m)
        if ((N / m) % 2 == 1)
          ok.push_back(m);
      f = s.pick(ok);
    }
  p["tof_mash"] = f;
  p["trim"] = json::object();
  c["pdi"] = p;
  shared_ptr<ProjDataInfo> pdi = vg::make_pdi(sc, p);
  c["seg"] = int(s.range(pdi->get_min_segment_num(), pdi->get_max_segment_num()));
  c["view"] = int(s.range(0, views - 1));
  c["tpos"] = int(s.range(pdi->get_min_tof_pos_num(), pdi->get_max_tof_pos_num()));
  const int tmin = pdi->get_min_tangential_pos_num(), tmax = pdi->get_max_tangential_pos_num();
  const int lo = int(s.range(tmin, tmax)), hi = int(s.range(lo, tmax));
  c["sup_lo"] = s.coin() ? lo : std::min(tmin + 1, tmax);
  c["sup_hi"] = s.coin() ? std::max(hi, c["sup_lo"].get<int>()) : std::max(tmax - 1, c["sup_lo"].get<int>());
  c["fill_percent"] = int(s.pick(std::vector<int>{ 15, 60, 100, 100 }));
  c["amp"] = s.pick(std::vector<double>{ 1., 1., 1000., 1e-3 });
  c["data_seed"] = s.seed64();
  const double zoom = s.chance(1, 3) ? s.pick(std::vector<double>{ 1., 0.5, 2., 1.5, 0.3, 3., 0.75, 1.25 }) : s.real(0.3, 3.);
  c["zoom"] = zoom;
  double bin = 1;
  if (const auto* arc = dynamic_cast<const ProjDataInfoCylindricalArcCorr*>(pdi.get()))
    bin = arc->get_tangential_sampling();
  const double xoff = s.chance(1, 3) ? 0. : s.nice_real(-3., 3.) * bin, yoff = s.chance(1, 3) ? 0. : s.nice_real(-3., 3.) * bin;
  c["xoff"] = xoff;
  c["yoff"] = yoff;
  const std::string cls = s.pick(std::vector<std::string>{ "cover", "cover", "cover", "same", "small" });
  const double reach = (std::max(std::abs(tmin), std::abs(tmax)) + 2.5) * bin + std::fabs(xoff) + std::fabs(yoff);
  int nmin, nmax;
  if (cls == "cover")
    {
      const int h = std::min(60, int(std::ceil(reach * zoom / bin)) + int(s.range(0, 2)));
      nmin = -h - int(s.range(0, 1));
      nmax = h;
    }
  else if (cls == "same")
    {
      nmin = tmin;
      nmax = tmax;
    }
  else
    {
      const int h = std::max(1, int(reach * zoom / bin * s.real(0.2, 0.7)));
      nmin = -std::min(h, 60) + int(s.range(0, 2));
      nmax = std::min(h, 60);
    }
  c["new_min"] = nmin;
  c["new_max"] = std::max(nmin, nmax);
  c["range_class"] = cls;
  c["symm"] = s.coin() ? 1 : 0;
  if (s.chance(1, 12))
    { // nothing to do: same bin size and range, no shift (every overload has a shortcut for it)
      c["zoom"] = 1.;
      c["xoff"] = 0.;
      c["yoff"] = 0.;
      c["new_min"] = tmin;
      c["new_max"] = tmax;
      c["range_class"] = "same";
    }
  return c;
}

// =================================================================================================
//                                          inverse_SSRB
// =================================================================================================
//! r1+r2 of the ring pairs of a sinogram (all pairs of one sinogram have the same sum): m = (r1+r2 - (rings-1)) * ring_spacing/2
inline bool
ring_sum_of(const ProjDataInfoCylindrical& p, int seg, int ax, int& sum)
{
  const auto& rps = p.get_all_ring_pairs_for_segment_axial_pos_num(seg, ax);
  if (rps.empty())
    return false;
  sum = rps.front().first + rps.front().second;
  for (auto& rp : rps)
    if (rp.first + rp.second != sum)
      return false;
  return true;
}

inline Result
check_issrb(const json& c)
{
  shared_ptr<Scanner> sc;
  shared_ptr<ProjDataInfo> pdi3, pdi4;
  try
    {
      sc = vg::make_scanner(c["scanner"]);
      if (sc->check_consistency() != Succeeded::yes)
        return Result::reject("scanner inconsistent");
      pdi3 = vg::make_pdi(sc, c["pdi3"]);
      pdi4 = vg::make_pdi(sc, c["pdi4"]);
    }
  catch (const std::runtime_error& e)
    {
      return Result::reject(std::string("construction rejected: ") + e.what());
    }
  const auto* p3 = dynamic_cast<const ProjDataInfoCylindrical*>(pdi3.get());
  const auto* p4 = dynamic_cast<const ProjDataInfoCylindrical*>(pdi4.get());
  if (!p3 || !p4)
    return Result::reject("not cylindrical");
  stats().cls("issrb");
  stats().cls(cat("issrb: input span ", c["pdi3"]["span"].get<int>(), ", output span ", c["pdi4"]["span"].get<int>()));
  if (pdi3->is_tof_data())
    stats().cls("issrb: TOF data");
  if (pdi3->get_max_segment_num() > 0)
    stats().cls("issrb: input has oblique segments (to be ignored)");
  shared_ptr<ExamInfo> exam(new ExamInfo(ImagingModality::PT));
  ProjDataInMemory d3(exam, pdi3), d4(exam, pdi4);
  const double amp = c["amp"];
  SplitMix g(c["data_seed"].get<uint64_t>());
  // input: every sinogram different; oblique segments hold large values that must not show up in the output
  for (int s = pdi3->get_min_segment_num(); s <= pdi3->get_max_segment_num(); ++s)
    for (int k = pdi3->get_min_tof_pos_num(); k <= pdi3->get_max_tof_pos_num(); ++k)
      for (int a = pdi3->get_min_axial_pos_num(s); a <= pdi3->get_max_axial_pos_num(s); ++a)
        {
          Sinogram<float> sino = pdi3->get_empty_sinogram(a, s, false, k);
          for (int v = sino.get_min_view_num(); v <= sino.get_max_view_num(); ++v)
            for (int t = sino.get_min_tangential_pos_num(); t <= sino.get_max_tangential_pos_num(); ++t)
              sino[v][t] = float((s == 0 ? g.real(0.1, 1.) : g.real(100., 200.)) * amp);
          d3.set_sinogram(sino);
        }
  d4.fill(float(5000. * amp)); // inverse_SSRB.h: "Data will be 'put' in here using ProjData::set_sinogram()"
  const Succeeded ok = inverse_SSRB(d4, d3);
  VF_CHECK(ok == Succeeded::yes, "inverse_SSRB returned Succeeded::no for data with the same views and tangential positions");

  // direct input sinograms by ring sum
  std::map<int, int> ax_of_sum;
  for (int a = pdi3->get_min_axial_pos_num(0); a <= pdi3->get_max_axial_pos_num(0); ++a)
    {
      int sum = 0;
      VF_CHECK(ring_sum_of(*p3, 0, a, sum), "harness: ring pairs of direct input sinogram ", a, " have no common r1+r2");
      ax_of_sum[sum] = a;
    }
  long exact = 0, halfway = 0, other = 0;
  for (int s = pdi4->get_min_segment_num(); s <= pdi4->get_max_segment_num(); ++s)
    for (int k = pdi4->get_min_tof_pos_num(); k <= pdi4->get_max_tof_pos_num(); ++k)
      for (int a = pdi4->get_min_axial_pos_num(s); a <= pdi4->get_max_axial_pos_num(s); ++a)
        {
          int sum = 0;
          VF_CHECK(ring_sum_of(*p4, s, a, sum), "harness: ring pairs of output sinogram (seg ", s, ", ax ", a, ") have no common r1+r2");
          const Sinogram<float> got = static_cast<const ProjData&>(d4).get_sinogram(a, s, false, k);
          auto same = ax_of_sum.find(sum);
          if (same != ax_of_sum.end())
            { // "finding the sinogram that has the same 'm'-coordinate"
              ++exact;
              const Sinogram<float> want = static_cast<const ProjData&>(d3).get_sinogram(same->second, 0, false, k);
              for (int v = got.get_min_view_num(); v <= got.get_max_view_num(); ++v)
                for (int t = got.get_min_tangential_pos_num(); t <= got.get_max_tangential_pos_num(); ++t)
                  VF_CHECK(got[v][t] == want[v][t], "inverse_SSRB: output (seg ", s, ", ax ", a, ", view ", v, ", tang ", t, ", tof ", k, ") = ", got[v][t],
                           " but the direct input sinogram ", same->second, " with the same m (ring sum ", sum, ") holds ", want[v][t]);
              continue;
            }
          // "if the output sinogram would lie 'half-way' 2 input sinograms, it will be set to the average of the 2 input sinograms"
          auto above = ax_of_sum.upper_bound(sum);
          if (above == ax_of_sum.end() || above == ax_of_sum.begin())
            {
              ++other; // beyond the ends of the input: nothing documented
              continue;
            }
          auto below = std::prev(above);
          if (above->first - sum != sum - below->first)
            {
              ++other; // between two input sinograms but not half-way: nothing documented
              continue;
            }
          ++halfway;
          const Sinogram<float> w1 = static_cast<const ProjData&>(d3).get_sinogram(below->second, 0, false, k);
          const Sinogram<float> w2 = static_cast<const ProjData&>(d3).get_sinogram(above->second, 0, false, k);
          for (int v = got.get_min_view_num(); v <= got.get_max_view_num(); ++v)
            for (int t = got.get_min_tangential_pos_num(); t <= got.get_max_tangential_pos_num(); ++t)
              {
                const double want = (double(w1[v][t]) + double(w2[v][t])) / 2;
                const double e = std::fabs(double(got[v][t]) - want);
                stats().maxi("issrb: max rel err of a half-way sinogram vs the average", e / want);
                // the weights are quotients of float m differences: 0.5 up to a few 1e-7; a wrong neighbour changes the value by O(10 %)
                VF_CHECK(e <= 1e-5 * want, "inverse_SSRB: output (seg ", s, ", ax ", a, ", view ", v, ", tang ", t, ", tof ", k, ") = ", got[v][t],
                         " lies half-way between the direct input sinograms ", below->second, " and ", above->second, " whose average is ", want);
              }
        }
  stats().count("issrb: output sinograms with an input sinogram of the same m", exact);
  stats().count("issrb: output sinograms half-way between two input sinograms", halfway);
  stats().count("issrb: output sinograms where nothing is documented", other);
  if (halfway > 0)
    stats().cls("issrb: some output sinograms half-way");
  return Result::pass();
}

inline json
gen_issrb(Src& s, int size)
{
  json c;
  c["part"] = "issrb";
  vg::ScannerOpts so;
  so.max_ndet = size < 30 ? 12 : 24;
  so.max_rings = size < 30 ? 4 : 8;
  so.allow_blocks = false;
  so.allow_predefined = false;
  so.allow_tof = true;
  c["scanner"] = vg::gen_scanner(s, so);
  shared_ptr<Scanner> sc = vg::make_scanner(c["scanner"]);
  const int rings = sc->get_num_rings(), ndet = sc->get_num_detectors_per_ring();
  const int mash = s.chance(1, 2) ? s.pick(vg::divisors(ndet / 2)) : 1;
  const int views = ndet / 2 / mash;
  const int tang = int(s.range(2, std::max(2, std::min(10, sc->get_max_num_non_arccorrected_bins()))));
  const bool arccorr = s.chance(1, 3);
  int f = 0;
  if (sc->is_tof_ready() && s.chance(1, 2))
    {
      const int N = sc->get_max_num_timing_poss();
      std::vector<int> ok;
      for (int m = 1; m <= N; ++m)
        if ((N / m) % 2 == 1)
          ok.push_back(m);
      f = s.pick(ok);
    }
  auto sampling = [&](int span, int max_seg) {
    json p;
    p["span"] = span;
    p["max_delta"] = (span - 1) / 2 + span * max_seg;
    p["views"] = views; // inverse_SSRB.h: "Input and output projection data should have the same number of views and tangential positions"
    p["tang"] = tang;
    p["arccorr"] = arccorr;
    p["tof_mash"] = f; // the TOF bins of the output are read from the input with the same index
    p["trim"] = json::object();
    return p;
  };
  auto spans = [&]() {
    std::vector<int> v;
    for (int sp : { 1, 1, 3, 3, 5 })
      if (sp <= 2 * rings - 1)
        v.push_back(sp);
    return v;
  };
  const int span3 = s.pick(spans()), span4 = s.pick(spans());
  const int kmax3 = (rings - 1 - (span3 - 1) / 2) / span3, kmax4 = (rings - 1 - (span4 - 1) / 2) / span4;
  c["pdi3"] = sampling(span3, s.chance(2, 3) ? 0 : int(s.range(0, kmax3)));
  c["pdi4"] = sampling(span4, s.chance(2, 3) ? kmax4 : int(s.range(0, kmax4)));
  c["amp"] = s.pick(std::vector<double>{ 1., 1., 1000., 1e-3 });
  c["data_seed"] = s.seed64();
  return c;
}

// =================================================================================================
//                                         extend_segment
// =================================================================================================
inline Result
check_extend(const json& c)
{
  shared_ptr<Scanner> sc;
  shared_ptr<ProjDataInfo> pdi;
  try
    {
      sc = vg::make_scanner(c["scanner"]);
      if (sc->check_consistency() != Succeeded::yes)
        return Result::reject("scanner inconsistent");
      pdi = vg::make_pdi(sc, c["pdi"]);
    }
  catch (const std::runtime_error& e)
    {
      return Result::reject(std::string("construction rejected: ") + e.what());
    }
  const int seg = c["seg"], ve = c["view_ext"], ae = c["axial_ext"], te = c["tang_ext"];
  stats().cls("extend");
  SegmentBySinogram<float> segment = pdi->get_empty_segment_by_sinogram(seg);
  const int amin = segment.get_min_axial_pos_num(), amax = segment.get_max_axial_pos_num();
  const int vmin = segment.get_min_view_num(), vmax = segment.get_max_view_num(), nviews = vmax - vmin + 1;
  const int tmin = segment.get_min_tangential_pos_num(), tmax = segment.get_max_tangential_pos_num();
  SplitMix g(c["data_seed"].get<uint64_t>());
  const double amp = c["amp"];
  for (int a = amin; a <= amax; ++a)
    for (int v = vmin; v <= vmax; ++v)
      for (int t = tmin; t <= tmax; ++t)
        segment[a][v][t] = float(g.real(0.1, 1.) * amp * (g.range(0, 1) ? 1 : -1)); // never 0: a bin that was not filled shows
  const bool symmetric = tmin == -tmax;
  stats().cls(symmetric ? "extend: symmetric tangential range" : "extend: tangential range not symmetric");
  stats().cls(seg == 0 ? "extend: direct segment" : "extend: oblique segment");

  // (extend_projdata.h: all three extensions default to 5)
  const bool defaults = c.value("defaults", false) && ve == 5 && ae == 5 && te == 5;
  if (defaults)
    stats().cls("extend: default arguments");
  const Array<3, float> out = defaults ? extend_segment(segment) : extend_segment(segment, ve, ae, te);
  BasicCoordinate<3, int> mn, mx;
  VF_CHECK(out.get_regular_range(mn, mx), "extend_segment: result has no regular index range");
  VF_CHECK(mn[1] == amin - ae && mx[1] == amax + ae && mn[2] == vmin - ve && mx[2] == vmax + ve && mn[3] == tmin - te && mx[3] == tmax + te,
           "extend_segment: index range of the result is (", mn[1], "..", mx[1], ", ", mn[2], "..", mx[2], ", ", mn[3], "..", mx[3], ") for extensions (axial ", ae,
           ", view ", ve, ", tangential ", te, ") of (", amin, "..", amax, ", ", vmin, "..", vmax, ", ", tmin, "..", tmax, ")");
  auto clampi = [](int x, int lo, int hi) { return std::max(lo, std::min(hi, x)); };
  long wrapped = 0;
  for (int a = mn[1]; a <= mx[1]; ++a)
    for (int v = mn[2]; v <= mx[2]; ++v)
      for (int t = mn[3]; t <= mx[3]; ++t)
        {
          const double got = out[a][v][t];
          const int a0 = clampi(a, amin, amax); // "Axially and tangentially, the segment is filled with the nearest existing value"
          if (v >= vmin && v <= vmax)
            {
              const double want = segment[a0][v][clampi(t, tmin, tmax)];
              VF_CHECK(got == want, "extend_segment(view ", ve, ", axial ", ae, ", tangential ", te, "): element (axial ", a, ", view ", v, ", tangential ", t, ") = ",
                       got, " but the nearest existing bin (axial ", a0, ", view ", v, ", tangential ", clampi(t, tmin, tmax), ") holds ", want);
              continue;
            }
          if (seg != 0)
            continue; // extend_projdata.h speaks of direct data; oblique segments are extended without wrapping (with a warning)
          // 180 degrees of views: view v +- num_views is the same set of LORs with the tangential coordinate mirrored
          const int v0 = v > vmax ? v - nviews : v + nviews;
          ++wrapped;
          // the value of the physically identical bin, "extrapolated by nearest neighbour known values" where the mirrored
          // position is not part of the data; in the tangential extension also: the nearest existing value of the same
          // (extended) row.  Both readings of the documentation are accepted; they coincide for symmetric ranges.
          const double want1 = segment[a0][v0][clampi(-t, tmin, tmax)];
          const double want2 = segment[a0][v0][clampi(-clampi(t, tmin, tmax), tmin, tmax)];
          VF_CHECK(got == want1 || got == want2, "extend_segment(view ", ve, ", axial ", ae, ", tangential ", te, ") of 180 degree data: element (axial ", a, ", view ", v,
                   ", tangential ", t, ") = ", got, " but it is the same LOR as (view ", v0, ", tangential ", -t, ") of the data, where the nearest existing bin holds ", want1,
                   (want1 != want2 ? cat(" (or ", want2, ", the nearest existing value of the extended row)") : std::string()), "; tangential range of the data ", tmin,
                   "..", tmax);
        }
  stats().count("extend: elements in wrapped views checked", wrapped);
  return Result::pass();
}

// BEGIN-KNOWN-F6
// ---- known finding C15-F6 -----------------------------------------------------------------------------------------
// extend_segment wraps the views BEFORE it fills the tangential extension.  For 180 degree data whose tangential range is
// not symmetric (every even number of tangential positions: -n/2 .. n/2-1) the mirrored position -t of the outermost
// position lies in the still empty tangential extension: the added views get 0 there, and the tangential extension of
// the added views copies that 0 -- instead of the "nearest neighbour known values" that extend_projdata.h promises.
// Input class: direct segment, tangential range not symmetric, view extension > 0 and tangential extension > 0.
const char* const SIG_F6 = "C15:F6:extend_segment:180-degree data, tangential range not symmetric, view_extension>0 and tangential_extension>0";

inline bool
extend_is_known_F6(const json& c)
{
  // "asym" is filled in by gen_extend from the sampling
  return c.value("part", "") == "extend" && c.value("asym", false) && c["seg"].get<int>() == 0 && c["view_ext"].get<int>() > 0 && c["tang_ext"].get<int>() > 0;
}

// END-KNOWN-F6
inline json
gen_extend(Src& s, int size)
{
  json c;
  c["part"] = "extend";
  vg::ScannerOpts so;
  so.max_ndet = size < 30 ? 16 : 32;
  so.max_rings = 4;
  so.allow_blocks = false;
  so.allow_predefined = false;
  so.allow_tof = false;
  for (int attempt = 0;; ++attempt)
    {
      c["scanner"] = vg::gen_scanner(s, so);
      // extend_projdata.cxx decides "180 or 360 degrees" with a tolerance of 5 average view spacings ("use a rather large
      // tolerance to cope with non-uniform sampling"): for fewer than 6 views 180 degree data are within that tolerance of
      // 360 degrees as well.  Such data are outside what the heuristic is written for.
      if (c["scanner"]["ndet"].get<int>() >= 12 || attempt > 20)
        break;
    }
  shared_ptr<Scanner> sc = vg::make_scanner(c["scanner"]);
  const int rings = sc->get_num_rings(), ndet = sc->get_num_detectors_per_ring();
  json p;
  p["span"] = 1;
  p["max_delta"] = int(s.range(0, std::min(1, rings - 1)));
  std::vector<int> mashes;
  for (int m : vg::divisors(ndet / 2))
    if (ndet / 2 / m >= 6)
      mashes.push_back(m);
  const int views = ndet / 2 / (s.chance(1, 3) ? s.pick(mashes) : 1);
  p["views"] = views;
  const int tang = int(s.range(2, std::max(2, std::min(12, sc->get_max_num_non_arccorrected_bins()))));
  p["tang"] = tang;
  p["arccorr"] = s.chance(1, 3);
  p["tof_mash"] = 0;
  p["trim"] = json::object();
  c["pdi"] = p;
  shared_ptr<ProjDataInfo> pdi = vg::make_pdi(sc, p);
  c["seg"] = s.chance(3, 4) ? 0 : int(s.range(pdi->get_min_segment_num(), pdi->get_max_segment_num()));
  // more views than the data have cannot be added by wrapping around once
  c["view_ext"] = s.chance(1, 5) ? 0 : int(s.range(1, std::min(views, 7)));
  c["axial_ext"] = s.chance(1, 4) ? 0 : int(s.range(1, 6));
  c["tang_ext"] = s.chance(1, 3) ? 0 : int(s.range(1, 6));
  c["defaults"] = false;
  if (s.chance(1, 8))
    { // the defaulted arguments (5 each; views >= 6 here)
      c["view_ext"] = 5;
      c["axial_ext"] = 5;
      c["tang_ext"] = 5;
      c["defaults"] = true;
    }
  c["asym"] = pdi->get_min_tangential_pos_num() != -pdi->get_max_tangential_pos_num();
// BEGIN-KNOWN-F6
  if (!no_exclude && extend_is_known_F6(c))
    { // kept out by construction: one of the two extensions is dropped
      if (s.coin())
        c["tang_ext"] = 0;
      else
        c["view_ext"] = 0;
      stats().excluded_known++;
      stats().count(std::string("excluded:") + SIG_F6);
    }
// END-KNOWN-F6
  c["amp"] = s.pick(std::vector<double>{ 1., 1000., 1e-3 });
  c["data_seed"] = s.seed64();
  return c;
}

} // namespace c15x

// C08 - OSSPS sub-iterations follow the preconditioned relaxed update within bounds.
// One case = small generated geometry with an explicit sparse matrix (double), data generated from the reference model,
// one OSSPS configuration.  Run A performs sub-iterations 1..n through OSSPSReconstruction::reconstruct(), saving every
// iterate (float Interfile) and, at set_up, <prefix>_precomputed_denominator.  Oracles: (1) the precomputed denominator
// equals minus the approximate Hessian applied to the all-ones image (documented capping of divide_and_truncate);
// (2) every update equals clamp(lambda + alpha/(1+gamma n) N grad_S Phi(lambda) / D, 0, upper bound) with D = data part +
// 2 x surrogate curvature of the prior, thresholded as documented; (3) 0 <= iterates <= upper bound, D > 0;
// (4) restart: for EVERY k a FRESH reconstruction (own temp prefix) resumes at sub-iteration k+1 from the file saved after k.
#include "c07_recon_common.h"
#include "stir/OSSPS/OSSPSReconstruction.h"
#include "stir/recon_buildblock/PriorWithParabolicSurrogate.h"
#include <sstream>
#include <iomanip>

using namespace vf;
using namespace stir;
using namespace rc7;

namespace {

const int MAX_Z = 7;

struct Cfg
{
  int N, start_subset, n_sub;
  bool use_subsens;
  PriorSpec prior;
  float alpha, gamma;
  double upper_bound;
  bool bounded;
  bool enforce;
};

// documented in OSSPSReconstruction::set_up: threshold_min_to_small_positive_value(image, 10.E-6F)
std::vector<double>
lift_initial(const std::vector<double>& lam, bool& changed)
{
  changed = false;
  float minpos = 0;
  for (double v : lam)
    if (v > 0 && (minpos == 0 || float(v) < minpos))
      minpos = float(v);
  std::vector<double> out = lam;
  const float thr = minpos > 0 ? minpos * 10.E-6F : 10.E-6F;
  for (auto& v : out)
    if (minpos > 0 ? float(v) < thr : true)
      {
        changed = changed || v != double(thr);
        v = thr;
      }
  return out;
}

Cfg
decode(const json& c)
{
  Cfg k;
  k.N = c["subsets"].get<int>();
  k.start_subset = c["start_subset"].get<int>() % k.N;
  k.n_sub = c["iters"].get<int>() * k.N;
  k.use_subsens = c["use_subsens"].get<bool>();
  k.prior.kind = c["prior"].get<int>();
  k.prior.kappa = c["kappa"].get<bool>();
  k.prior.kseed = c["dseed"].get<uint64_t>() ^ 0xabcdefULL;
  k.alpha = float(c["alpha"].get<double>());
  k.gamma = float(c["gamma"].get<double>());
  k.bounded = c["ub_rel"].get<double>() > 0;
  k.enforce = c["enforce"].get<bool>();
  k.upper_bound = double(std::numeric_limits<float>::max());
  return k;
}

//! reference state of one OSSPS run (what the documented algorithm keeps between sub-iterations)
struct RefRun
{
  std::vector<double> D; // thresholded denominator, fixed at the first sub-iteration of the run
  bool have_D = false;
};

struct StepRef
{
  std::vector<double> next, start_image; // start_image: lambda after the documented first-sub-iteration treatment
  double scale = 0;
  RefFlags fl;
  bool clamped_hi = false, clamped_lo = false;
};

StepRef
ref_step(const Fixture& F, const Cfg& k, const std::vector<double>& D0, std::vector<double> lam, int subiter, bool first_of_run, RefRun& R,
         GeneralisedPrior<target_type>* prior)
{
  StepRef r;
  const std::size_t nv = lam.size();
  const int S = (subiter + k.start_subset - 1) % k.N;
  if (first_of_run)
    // documented (OSSPSReconstruction::update_estimate): "set all voxels to 0 that cannot be estimated" = total sensitivity 0
    for (std::size_t v = 0; v < nv; ++v)
      if (F.sens_total[v] == 0.)
        lam[v] = 0.;
  r.start_image = lam;
  const std::vector<double> den = model_den(F, lam);
  const std::vector<double> q = quotient(F, F.y, den, r.fl);
  // grad_S = P_S^T (y/(P lambda + a) - n)
  std::vector<double> g = back_subset(F, q, S);
  for (std::size_t v = 0; v < nv; ++v)
    g[v] -= F.sens_subset[std::size_t(S)][v];
  shared_ptr<target_type> lam_img;
  if (prior)
    {
      lam_img = image_from_vec(F, lam);
      shared_ptr<target_type> pg(lam_img->get_empty_copy());
      prior->compute_gradient(*pg, *lam_img);
      const std::vector<double> pgv = image_vec(F, *pg);
      for (std::size_t v = 0; v < nv; ++v)
        g[v] -= pgv[v] / double(k.N);
    }
  if (!R.have_D)
    {
      std::vector<double> W = D0;
      if (prior)
        {
          shared_ptr<target_type> cv(lam_img->get_empty_copy());
          dynamic_cast<PriorWithParabolicSurrogate<target_type>&>(*prior).parabolic_surrogate_curvature(*cv, *lam_img);
          const std::vector<double> cvv = image_vec(F, *cv);
          for (std::size_t v = 0; v < nv; ++v)
            W[v] = 2. * cvv[v] + D0[v];
        }
      // documented: threshold_min_to_small_positive_value(denominator, 10.E-6F)
      double minpos = 0;
      for (double w : W)
        if (w > 0 && (minpos == 0 || w < minpos))
          minpos = w;
      const double thr = minpos > 0 ? minpos * double(10.E-6F) : double(10.E-6F);
      for (auto& w : W)
        if (minpos > 0 ? w < thr : true)
          w = thr;
      R.D = W;
      R.have_D = true;
    }
  // relaxation as computed by the class (float; integer division sub-iteration / N)
  const float relax = k.alpha / (1 + k.gamma * float(subiter / k.N));
  r.next.assign(nv, 0.);
  const double ub = double(float(k.upper_bound));
  for (std::size_t v = 0; v < nv; ++v)
    {
      const double step = g[v] * double(k.N) / R.D[v] * double(relax);
      r.scale = std::max(r.scale, std::fabs(lam[v]) + std::fabs(step));
      double nx = lam[v] + step;
      if (nx > ub)
        {
          nx = ub;
          r.clamped_hi = true;
        }
      else if (nx < 0.)
        {
          nx = 0.;
          r.clamped_lo = true;
        }
      r.next[v] = nx;
    }
  return r;
}

struct Run
{
  std::vector<shared_ptr<target_type>> iter;
  shared_ptr<target_type> final_in_memory;
  shared_ptr<target_type> denominator; // <prefix>_precomputed_denominator as written at set_up
};

std::string
fmt(double v)
{
  std::ostringstream s;
  s << std::setprecision(17) << v;
  return s.str();
}

std::string
run_recon(const Fixture& F, const Cfg& k, const std::string& prefix, const shared_ptr<target_type>& target, int start, Run& out, bool* setup_rejected)
{
  *setup_rejected = false;
  OSSPSReconstruction<target_type> recon;
  recon.set_objective_function_sptr(make_objective(F, k.prior, k.use_subsens));
  recon.set_output_filename_prefix(prefix);
  recon.set_output_file_format_ptr(float_interfile());
  {
    // relaxation, upper bound and enforce_initial_positivity have no setters: they are parameters of the parser
    std::stringstream par;
    par << "OSSPSParameters :=\n"
        << "enforce initial positivity condition := " << (k.enforce ? 1 : 0) << "\n"
        << "relaxation parameter := " << fmt(double(k.alpha)) << "\n"
        << "relaxation gamma := " << fmt(double(k.gamma)) << "\n";
    if (k.bounded)
      par << "upper bound := " << fmt(k.upper_bound) << "\n";
    par << "End :=\n";
    if (!recon.parse(par))
      return "parsing the OSSPS parameters failed";
  }
  recon.set_num_subsets(k.N);
  recon.set_num_subiterations(k.n_sub);
  recon.set_start_subiteration_num(start);
  recon.set_start_subset_num(k.start_subset);
  recon.set_save_interval(1);
  recon.set_randomise_subset_order(false);
  try
    {
      if (recon.set_up(target) != Succeeded::yes)
        {
          *setup_rejected = true;
          return "set_up returned Succeeded::no";
        }
    }
  catch (const stir_verif::AssertionFailure&)
    {
      throw;
    }
  catch (const std::exception& e)
    {
      *setup_rejected = true;
      return std::string("set_up: ") + e.what();
    }
  out.denominator = read_image(F, prefix + "_precomputed_denominator.hv");
  if (recon.reconstruct(target) != Succeeded::yes)
    return "reconstruct returned Succeeded::no";
  out.iter.assign(std::size_t(k.n_sub) + 1, shared_ptr<target_type>());
  for (int j = start; j <= k.n_sub; ++j)
    out.iter[std::size_t(j)] = read_image(F, cat(prefix, "_", j, ".hv"));
  out.final_in_memory = target;
  return "";
}

Result
compare(const char* what, const std::vector<double>& got, const std::vector<double>& want, double scale, double tol, const std::string& stat_key,
        const std::string& ctx)
{
  double worst = 0;
  std::size_t where = 0;
  for (std::size_t v = 0; v < want.size(); ++v)
    {
      const double d = std::fabs(got[v] - want[v]);
      if (!(d <= worst))
        {
          worst = d;
          where = v;
        }
    }
  if (scale > 0)
    stats().maxi(stat_key, worst / scale);
  VF_CHECK(worst <= tol * scale || (scale == 0 && worst == 0), what, ": |diff|=", worst, " at voxel ", where, " (got ", got[where], ", expected ", want[where],
           "), scale ", scale, " ", ctx);
  return Result::pass();
}

Result
check(const json& c_in)
{
  Fixture F;
  TmpDir tmp("c08");
  json c;
  std::string proj_note;
  {
    DataOpts dopt;
    dopt.eff_lo = 0.5; // keeps y/n^2 >= 0.25 so that the quotient cap of the approximate Hessian stays inactive in the main class
    dopt.eff_hi = 2.;
    dopt.force_y_ge_1 = !c_in["y_zeros"].get<bool>();
    dopt.start_zero_fraction = c_in["start_zero_fraction"].get<double>();
    const std::string rej = prepare_fixture(c_in, c, F, tmp.path, MAX_Z, dopt, proj_note);
    if (!rej.empty())
      return Result::reject(rej);
  }
  Cfg k = decode(c);
  if (!k.use_subsens && !balanced(F.vg_per_subset))
    return Result::reject("unbalanced subsets without subset sensitivities (set_up calls error())");
  if (k.bounded)
    k.upper_bound = double(float(c["ub_rel"].get<double>() * vmax(F.truth)));
  if (k.prior.kind != 0)
    {
      // penalisation factor relative to the data part of the denominator: spans negligible .. dominating
      const std::vector<double> h = back_subset(F, F.rowsum, -1);
      double mean_h = 0;
      long cnt = 0;
      for (double v : h)
        if (v > 0)
          {
            mean_h += v;
            ++cnt;
          }
      mean_h = cnt ? mean_h / double(cnt) : 1.;
      k.prior.beta = float(std::pow(10., c["beta_exp"].get<double>()) * mean_h / std::max(1., c["count_max"].get<double>()) / 40.);
    }
  const int n = k.n_sub;

  // reference data part of the denominator: - (approximate Hessian) 1 = sum_b P_b^T [ (P 1)_b / (y_b / n_b^2) ] with the
  // documented thresholds of divide_and_truncate (numerator = P 1, per viewgram)
  RefFlags d0_flags;
  std::vector<double> D0;
  {
    std::vector<double> yden(F.y.size());
    for (std::size_t b = 0; b < yden.size(); ++b)
      yden[b] = F.y[b] / (F.n[b] * F.n[b]);
    const std::vector<double> q = quotient(F, F.rowsum, yden, d0_flags);
    D0 = back_subset(F, q, -1);
  }

  // ---------------- run A ----------------
  Run A;
  {
    bool rej;
    const std::string msg = run_recon(F, k, tmp.path + "/A", image_from_vec(F, F.start), 1, A, &rej);
    if (rej)
      return Result::reject("run A " + msg);
    VF_CHECK(msg.empty(), "run A: ", msg);
  }
  std::vector<std::vector<double>> lam(std::size_t(n) + 1);
  lam[0] = F.start;
  bool lifted0 = false;
  if (k.enforce)
    lam[0] = lift_initial(F.start, lifted0);
  for (int j = 1; j <= n; ++j)
    lam[std::size_t(j)] = image_vec(F, *A.iter[std::size_t(j)]);
  VF_CHECK(image_vec(F, *A.final_in_memory) == lam[std::size_t(n)], "the image returned by reconstruct() differs from the last saved iterate");

  // (1) precomputed denominator (data part)
  const std::vector<double> D0_stir = image_vec(F, *A.denominator);
  for (std::size_t v = 0; v < D0_stir.size(); ++v)
    VF_CHECK(std::isfinite(D0_stir[v]) && D0_stir[v] >= 0., "precomputed denominator has value ", D0_stir[v], " at voxel ", v);
  if (!d0_flags.ambiguous)
    {
      // observed maximum over seeds 3.2e-5 (float accumulation of P 1 / y over all bins); asserted 5e-4
      const Result res = compare("precomputed denominator vs -(approximate Hessian) 1", D0_stir, D0, vmax(D0), 5e-4, "max rel err precomputed denominator",
                                 proj_note);
      if (res.failed())
        return res;
    }
  else
    stats().count("denominator not asserted: value inside the rounding band of a documented threshold");

  // (3) bounds on every iterate
  const double ub = double(float(k.upper_bound));
  for (int j = 1; j <= n; ++j)
    for (std::size_t v = 0; v < lam[std::size_t(j)].size(); ++v)
      VF_CHECK(std::isfinite(lam[std::size_t(j)][v]) && lam[std::size_t(j)][v] >= 0. && lam[std::size_t(j)][v] <= ub, "iterate ", j, " has value ", lam[std::size_t(j)][v],
               " at voxel ", v, " outside [0, ", ub, "]");

  // (2) every update against the documented formula
  shared_ptr<GeneralisedPrior<target_type>> ref_prior = make_prior(F, k.prior);
  if (ref_prior)
    ref_prior->set_up(F.image);
  bool any_hi = false, any_lo = false, any_cap = d0_flags.cap_active;
  RefRun RA;
  bool formula_ok = !d0_flags.ambiguous;
  for (int j = 1; j <= n && formula_ok; ++j)
    {
      const StepRef r = ref_step(F, k, D0, lam[std::size_t(j - 1)], j, j == 1, RA, ref_prior.get());
      for (double d : RA.D)
        VF_CHECK(d > 0., "reference denominator not strictly positive: ", d);
      any_hi |= r.clamped_hi;
      any_lo |= r.clamped_lo;
      any_cap |= r.fl.cap_active;
      if (r.fl.ambiguous)
        {
          stats().count("steps not asserted: value inside the rounding band of a documented threshold");
          continue;
        }
      // tolerance relative to max(|lambda| + |step|): float projections vs double; observed maximum over seeds 1.9e-5; asserted 3e-4
      const Result res = compare("OSSPS update", lam[std::size_t(j)], r.next, r.scale, 3e-4, "max rel err OSSPS update",
                                 cat("(sub-iteration ", j, ", subset ", (j + k.start_subset - 1) % k.N, " of ", k.N, ", relaxation n=", j / k.N, ")", proj_note));
      if (res.failed())
        return res;
      stats().count("update steps checked by formula");
    }

  // ---------------- (4) restart at every k ----------------
  long compared = 0;
  for (int kk = 1; kk < n; ++kk)
    {
      const std::vector<double>& lk = lam[std::size_t(kk)];
      bool has_zero = false, nonident_nonzero = false;
      for (std::size_t v = 0; v < lk.size(); ++v)
        {
          if (lk[v] == 0.)
            has_zero = true;
          if (F.sens_total[v] == 0. && lk[v] != 0.)
            nonident_nonzero = true;
        }
      // documented behaviour of the option: enforce_initial_positivity lifts the zeros of the initial image of a run
      const bool lifting = k.enforce && has_zero;
      // KNOWN FINDING C08-F1 (work/notes/C08_findings.md): update_estimate zeroes the voxels no bin can see at the first
      // sub-iteration OF EVERY RUN (subiteration_num == start_subiteration_num); with a prior these voxels are non-zero in
      // the uninterrupted run from sub-iteration 1 on, so a resumed run differs.  Excluded narrowly by construction: equality
      // with run A is not demanded for a k whose saved image is non-zero at such a voxel (the first update of the resumed run
      // is then checked against the formula WITH the re-zeroing instead).  VERIF_NO_EXCLUDE=1 demands equality.
      const bool rezero = nonident_nonzero;
      Run B;
      bool rej;
      shared_ptr<target_type> start_img = read_image(F, cat(tmp.path, "/A_", kk, ".hv"));
      const std::string msg = run_recon(F, k, cat(tmp.path, "/B", kk), start_img, kk + 1, B, &rej);
      VF_CHECK(msg.empty(), "resumed run (start at sub-iteration ", kk + 1, ") failed: ", msg);
      VF_CHECK(image_vec(F, *B.denominator) == D0_stir, "the precomputed denominator of the resumed run differs from the one of the uninterrupted run");
      for (int j = kk + 1; j <= n; ++j)
        {
          const std::vector<double> b = image_vec(F, *B.iter[std::size_t(j)]);
          for (std::size_t v = 0; v < b.size(); ++v)
            VF_CHECK(std::isfinite(b[v]) && b[v] >= 0. && b[v] <= ub, "resumed run (from ", kk, "): iterate ", j, " has value ", b[v], " at voxel ", v, " outside [0, ", ub,
                     "]");
        }
      const bool excluded = rezero && !no_exclude();
      if (excluded)
        {
          stats().excluded_known++;
          stats().count("excluded: restart equality at a k whose saved image is non-zero at a voxel no bin sees (finding C08-F1)");
        }
      if (!lifting && !excluded)
        {
          for (int j = kk + 1; j <= n; ++j)
            {
              const Result res = compare("restart", image_vec(F, *B.iter[std::size_t(j)]), lam[std::size_t(j)], vmax(lam[std::size_t(j)]), 1e-6, "max rel diff restart",
                                         cat("(resumed at sub-iteration ", kk + 1, " from the image saved after ", kk, ", iterate ", j, " of ", n, ", N=", k.N,
                                             rezero ? ", saved image non-zero at voxels no bin sees: finding C08-F1" : "", ")"));
              if (res.failed())
                return res;
            }
          ++compared;
          if (kk % k.N != 0)
            stats().count("restarts compared at k not a multiple of N");
        }
      else if (formula_ok)
        {
          // the resumed run is a run of its own: first update from the (lifted, re-zeroed) saved image by formula
          bool ch = false;
          const std::vector<double> st = lifting ? lift_initial(lk, ch) : lk;
          RefRun RB;
          const StepRef r = ref_step(F, k, D0, st, kk + 1, true, RB, ref_prior.get());
          if (!r.fl.ambiguous)
            {
              const Result res = compare("first update of the resumed run (documented treatment of its initial image)", image_vec(F, *B.iter[std::size_t(kk + 1)]), r.next,
                                         r.scale, 3e-4, "max rel err first update after restart (lifting / re-zeroing)", cat("(resumed at sub-iteration ", kk + 1, ")"));
              if (res.failed())
                return res;
            }
          stats().count("restarts with documented lifting or re-zeroing: first update checked by formula instead");
        }
    }
  stats().count("restarts compared with run A", compared);
  stats().count("restarts run", n - 1);

  // classes
  stats().cls(k.N == 1 ? "N=1" : (k.N <= 4 ? "N=2-4" : "N>=5"));
  stats().cls(balanced(F.vg_per_subset) ? "balanced subsets" : "unbalanced subsets");
  stats().cls(cat("prior ", k.prior.kind == 0 ? "none" : (k.prior.kappa ? "quadratic with kappa" : "quadratic")));
  stats().cls(k.bounded ? (any_hi ? "upper bound set and active" : "upper bound set") : "upper bound = max float");
  if (any_lo)
    stats().cls("lower bound 0 active");
  stats().cls(k.gamma > 0 ? (c["iters"].get<int>() >= 2 ? "gamma > 0 and >= 2 full iterations" : "gamma > 0") : "gamma = 0");
  if (F.use_add)
    stats().cls("additive term");
  if (F.use_norm)
    stats().cls("normalisation");
  if (!k.use_subsens)
    stats().cls("use_subset_sensitivities off");
  if (k.enforce)
    stats().cls(lifted0 ? "enforce_initial_positivity on, start zeros lifted" : "enforce_initial_positivity on");
  if (c["start_zero_fraction"].get<double>() > 0)
    stats().cls("start image with zeros");
  if (c["y_zeros"].get<bool>())
    stats().cls("data with y = 0 bins inside the FOV (labelled threshold class)");
  if (any_cap)
    stats().cls("quotient cap active (reference implements it)");
  if (k.start_subset != 0)
    stats().cls("start subset != 0");
  stats().cls(F.reference_with_case_switches ? "reference matrix: fresh cache-free matrix with the case's symmetry switches (ray-tracing ties)"
                                             : "reference matrix: symmetry-free cache-free");
  stats().cls(cat("iterations ", c["iters"].get<int>()));
  if (F.header_rounded)
    stats().cls("grid rounded by the Interfile header (case runs on the rounded grid)");
  return Result::pass();
}

json
gen(Src& s, int size)
{
  json c;
  gen_geometry(s, size, c);
  c["use_subsens"] = s.chance(3, 4);
  const int views = c["pdi"]["views"].get<int>();
  int N = 1;
  if (c["use_subsens"].get<bool>())
    // OSSPS does not require balanced subsets when subset sensitivities are used: any N in 1..views
    N = s.chance(1, 5) ? 1 : int(s.range(1, views));
  else
    {
      std::vector<int> bal;
      try
        {
          bal = balanced_subsets(c, MAX_Z);
        }
      catch (...)
        {
          bal = { 1 };
        }
      N = s.pick(bal);
    }
  c["subsets"] = N;
  c["start_subset"] = s.chance(1, 3) ? int(s.range(0, 23)) : 0;
  int iters = int(s.range(1, 3));
  while (iters > 1 && iters * N > 36)
    --iters;
  c["iters"] = iters;
  c["use_add"] = s.coin();
  c["use_norm"] = s.coin();
  c["count_max"] = s.pick(std::vector<double>{ 8., 40., 200., 2000. });
  c["ymode"] = s.chance(2, 3) ? 0 : 1;
  c["y_zeros"] = s.chance(1, 6);
  c["start_scale"] = s.pick(std::vector<double>{ 0.3, 1., 1., 3. });
  c["start_zero_fraction"] = s.pick(std::vector<double>{ 0., 0., 0.15, 0.5 });
  // relaxation: alpha in (0,2], gamma in [0,1] (float-representable so that the text of the parameter file is exact)
  c["alpha"] = double(s.range(1, 32)) / 16.;
  c["gamma"] = s.chance(1, 4) ? 0. : double(s.range(1, 16)) / 16.;
  c["ub_rel"] = s.coin() ? 0. : s.pick(std::vector<double>{ 0.3, 0.7, 1.2 });
  c["prior"] = s.coin() ? 0 : 1;
  c["kappa"] = s.coin();
  c["beta_exp"] = s.real(-2., 1.5);
  c["enforce"] = s.chance(1, 4);
  return c;
}

bool
nontrivial(const json& c)
{
  return (c["gamma"].get<double>() > 0 && c["iters"].get<int>() >= 2) || c["prior"].get<int>() != 0 || c["ub_rel"].get<double>() > 0;
}

} // namespace

const Property&
the_property()
{
  static Property p;
  p.id = "C08";
  p.gen = gen;
  p.check = check;
  p.nontrivial = nontrivial;
  return p;
}

// C08 - OSSPS sub-iterations follow the preconditioned relaxed update within bounds.
// One case = small generated geometry with an explicit sparse matrix (double), data generated from the reference model,
// one OSSPS configuration.  Run A performs sub-iterations 1..n through OSSPSReconstruction::reconstruct(), saving every
// iterate (float Interfile) and, at set_up, <prefix>_precomputed_denominator.  Oracles: (1) the precomputed denominator
// equals minus the approximate Hessian applied to the all-ones image (documented capping of divide_and_truncate);
// (2) every update equals clamp(lambda + alpha/(1+gamma n) N grad_S Phi(lambda) / D, 0, upper bound) with D = data part +
// 2 x surrogate curvature of the prior, thresholded as documented; (3) 0 <= iterates <= upper bound, D > 0;
// (4) restart: for EVERY k a FRESH reconstruction (own temp prefix) resumes at sub-iteration k+1 from the file saved after k.
// Extension (4'): object-reuse histories (c07_recon_common.h, "hist"): resumes on the SAME OSSPS object (the class
// documentation: "you have to call set_up() before running a new reconstruction", which the harness does), a second run on the
// same object after every parameter was changed (setters; relaxation / upper bound / positivity through the parser, which is
// their only public interface), and an objective function used by an OSMAPOSL object before.  The denominator file written by
// every set_up must equal the one of the first set_up, and in histories 2/3 a run with fresh objects must reproduce the run.
// (2') The prior share of the update uses the harness's OWN quadratic prior (OwnPrior in c07_recon_common.h, from the class
// documentation via c09_ref.h): gradient beta sum_dr w_dr (lambda_r - lambda_{r+dr}) kappa_r kappa_{r+dr} and surrogate curvature
// beta sum_dr w_dr kappa_r kappa_{r+dr}; D = max(D0 + 2 x curvature, threshold).  What a prior object returns is a statistic only.
// (5) file-based stages ("files" = 1 setters / 2 parsed parameter text + zero-argument reconstruct()): run A is stage 1 - its
// objective function WRITES the sensitivities it computed; (5a) the files equal the explicit-P sensitivity; (5b) for EVERY k
// stage 2 = NEW objects that read the image saved after k and the sensitivities from those files ('recompute sensitivity' off)
// and, in half of the parsed cases, the data part of the denominator from the file stage 1 wrote ('precomputed denominator').
#include "c07_recon_common.h"
#include "stir/OSSPS/OSSPSReconstruction.h"
#include "stir/OSMAPOSL/OSMAPOSLReconstruction.h"
#include "stir/recon_buildblock/PriorWithParabolicSurrogate.h"
#include <sstream>
#include <iomanip>

using namespace vf;
using namespace stir;
using namespace rc7;

namespace {

const int MAX_Z = 7;

struct Cfg
{
  int N, start_subset, n_sub;
  bool use_subsens;
  PriorSpec prior;
  float alpha, gamma;
  double upper_bound;
  bool bounded;
  bool enforce;
  bool other_img = false; // set_up() with ANOTHER image object of the same characteristics than the one given to reconstruct()
  // domain audit (AUD_E): 'save estimates at subiteration intervals' of THIS run (the checked run always saves every iterate: the
  // step-by-step formula check needs them); save_b = the interval the resumed runs of the case use.  IterativeReconstruction::set_up
  // calls error() for an interval outside [1, number of sub-iterations]; files are due where j % interval == 0 and at the last one.
  int save_interval = 1, save_b = 1;
  bool file_due(int j) const { return j % save_interval == 0 || j == n_sub; }
  bool beta_zero = false; // a prior object is set, its penalisation factor is exactly 0
};

// documented in OSSPSReconstruction::set_up: threshold_min_to_small_positive_value(image, 10.E-6F)
std::vector<double>
lift_initial(const std::vector<double>& lam, bool& changed)
{
  changed = false;
  float minpos = 0;
  for (double v : lam)
    if (v > 0 && (minpos == 0 || float(v) < minpos))
      minpos = float(v);
  std::vector<double> out = lam;
  const float thr = minpos > 0 ? minpos * 10.E-6F : 10.E-6F;
  for (auto& v : out)
    if (minpos > 0 ? float(v) < thr : true)
      {
        changed = changed || v != double(thr);
        v = thr;
      }
  return out;
}

Cfg
decode(const json& c)
{
  Cfg k;
  k.N = c["subsets"].get<int>();
  k.start_subset = c["start_subset"].get<int>() % k.N;
  k.n_sub = c["iters"].get<int>() * k.N;
  k.other_img = c.value("other_img", false);
  k.use_subsens = c["use_subsens"].get<bool>();
  k.prior.kind = c["prior"].get<int>();
  k.prior.kappa = c["kappa"].get<bool>();
  k.prior.kseed = c["dseed"].get<uint64_t>() ^ 0xabcdefULL;
  k.prior.kzero = c.value("kzero", 0);
  k.prior.recompute = k.prior.kind == 1 && c.value("recompute", false); // recompute_penalty_term_in_denominator on
  k.alpha = float(c["alpha"].get<double>());
  k.gamma = float(c["gamma"].get<double>());
  k.bounded = c["ub_rel"].get<double>() > 0;
  k.enforce = c["enforce"].get<bool>();
  k.upper_bound = double(std::numeric_limits<float>::max());
  k.n_sub = c.value("n_sub", k.n_sub); // a number of sub-iterations, not of full iterations (first runs of a history; AUD_E: runs ending inside an iteration)
  k.save_b = std::max(1, std::min(c.value("save_b", 1), k.n_sub));
  k.beta_zero = c.value("beta_zero", false);
  return k;
}

//! the parts of the configuration that are relative to the scale of the problem
void
finish_cfg(Cfg& k, const json& c, const Fixture& F)
{
  if (k.bounded)
    k.upper_bound = double(float(c["ub_rel"].get<double>() * vmax(F.truth)));
  if (k.prior.kind != 0)
    {
      // penalisation factor relative to the data part of the denominator: spans negligible .. dominating
      const std::vector<double> h = back_subset(F, F.rowsum, -1);
      double mean_h = 0;
      long cnt = 0;
      for (double v : h)
        if (v > 0)
          {
            mean_h += v;
            ++cnt;
          }
      mean_h = cnt ? mean_h / double(cnt) : 1.;
      k.prior.beta = float(std::pow(10., c["beta_exp"].get<double>()) * mean_h / std::max(1., c["count_max"].get<double>()) / 40.);
      if (k.beta_zero)
        k.prior.beta = 0.F; // legal (GeneralisedPrior: penalisation factor, no lower bound documented; 0 = prior switched off)
    }
}

//! reference state of one OSSPS run (what the documented algorithm keeps between sub-iterations)
struct RefRun
{
  std::vector<double> D; // thresholded denominator, fixed at the first sub-iteration of the run
  bool have_D = false;
};

struct StepRef
{
  std::vector<double> next, start_image; // start_image: lambda after the documented first-sub-iteration treatment
  double scale = 0;
  RefFlags fl;
  bool clamped_hi = false, clamped_lo = false;
};

StepRef
ref_step(const Fixture& F, const Cfg& k, const std::vector<double>& D0, std::vector<double> lam, int subiter, bool first_of_run, RefRun& R,
         const OwnPrior& own, GeneralisedPrior<target_type>* prior_object)
{
  StepRef r;
  const std::size_t nv = lam.size();
  const int S = (subiter + k.start_subset - 1) % k.N;
  if (first_of_run)
    // documented (OSSPSReconstruction::update_estimate): "set all voxels to 0 that cannot be estimated" = total sensitivity 0
    for (std::size_t v = 0; v < nv; ++v)
      if (F.sens_total[v] == 0.)
        lam[v] = 0.;
  r.start_image = lam;
  const std::vector<double> den = model_den(F, lam);
  const std::vector<double> q = quotient(F, F.y, den, r.fl);
  // grad_S = P_S^T (y/(P lambda + a) - n)
  std::vector<double> g = back_subset(F, q, S);
  for (std::size_t v = 0; v < nv; ++v)
    g[v] -= F.sens_subset[std::size_t(S)][v];
  shared_ptr<target_type> lam_img;
  if (own.on)
    {
      // the harness's own gradient of the documented quadratic prior; the prior object's gradient is recorded only
      const std::vector<double> pgv = own.gradient(lam);
      for (std::size_t v = 0; v < nv; ++v)
        g[v] -= pgv[v] / double(k.N);
      if (prior_object)
        {
          lam_img = image_from_vec(F, lam);
          shared_ptr<target_type> pg(lam_img->get_empty_copy());
          prior_object->compute_gradient(*pg, *lam_img);
          prior_object_statistic("statistic: max rel diff gradient of a QuadraticPrior object vs the harness's own", image_vec(F, *pg), pgv);
        }
    }
  if (!R.have_D)
    {
      std::vector<double> W = D0;
      if (own.on)
        {
          // the harness's own surrogate curvature (QuadraticPrior.h: "the sum of weighting coefficients", with the kappa
          // factors of the documented prior: beta sum_dr w_dr kappa_r kappa_{r+dr}); the object's curvature is recorded only
          const std::vector<double> cvv = own.curvature(lam);
          for (std::size_t v = 0; v < nv; ++v)
            W[v] = 2. * cvv[v] + D0[v];
          if (prior_object)
            {
              if (!lam_img)
                lam_img = image_from_vec(F, lam);
              shared_ptr<target_type> cv(lam_img->get_empty_copy());
              dynamic_cast<PriorWithParabolicSurrogate<target_type>&>(*prior_object).parabolic_surrogate_curvature(*cv, *lam_img);
              prior_object_statistic("statistic: max rel diff surrogate curvature of a QuadraticPrior object vs the harness's own", image_vec(F, *cv), cvv);
            }
        }
      // documented: threshold_min_to_small_positive_value(denominator, 10.E-6F)
      double minpos = 0;
      for (double w : W)
        if (w > 0 && (minpos == 0 || w < minpos))
          minpos = w;
      const double thr = minpos > 0 ? minpos * double(10.E-6F) : double(10.E-6F);
      for (auto& w : W)
        if (minpos > 0 ? w < thr : true)
          w = thr;
      R.D = W;
      R.have_D = true;
    }
  // relaxation as computed by the class (float; integer division sub-iteration / N)
  const float relax = k.alpha / (1 + k.gamma * float(subiter / k.N));
  r.next.assign(nv, 0.);
  const double ub = double(float(k.upper_bound));
  for (std::size_t v = 0; v < nv; ++v)
    {
      const double step = g[v] * double(k.N) / R.D[v] * double(relax);
      r.scale = std::max(r.scale, std::fabs(lam[v]) + std::fabs(step));
      double nx = lam[v] + step;
      if (nx > ub)
        {
          nx = ub;
          r.clamped_hi = true;
        }
      else if (nx < 0.)
        {
          nx = 0.;
          r.clamped_lo = true;
        }
      r.next[v] = nx;
    }
  return r;
}

struct Run
{
  std::vector<shared_ptr<target_type>> iter;
  shared_ptr<target_type> final_in_memory;
  shared_ptr<target_type> denominator; // <prefix>_precomputed_denominator as written at set_up
};

std::string
fmt(double v)
{
  std::ostringstream s;
  s << std::setprecision(17) << v;
  return s.str();
}

//! one OSSPS object together with the objective function it uses and what that objective function is configured as
struct Sps
{
  shared_ptr<OSSPSReconstruction<target_type>> recon;
  shared_ptr<objective_type> obj;
  ObjSpec ospec;
};

//! all parameters of the reconstruction object (fresh or used: the same calls; the upper bound is always written so that a
//! second parse of a used object goes back to "max float")
std::string
configure(OSSPSReconstruction<target_type>& recon, const Cfg& k, const std::string& prefix, int start)
{
  recon.set_output_filename_prefix(prefix);
  recon.set_output_file_format_ptr(float_interfile());
  {
    // relaxation, upper bound and enforce_initial_positivity have no setters: they are parameters of the parser
    std::stringstream par;
    par << "OSSPSParameters :=\n"
        << "enforce initial positivity condition := " << (k.enforce ? 1 : 0) << "\n"
        << "relaxation parameter := " << fmt(double(k.alpha)) << "\n"
        << "relaxation gamma := " << fmt(double(k.gamma)) << "\n"
        << "upper bound := " << fmt(k.upper_bound) << "\n";
    par << "End :=\n";
    if (!recon.parse(par))
      return "parsing the OSSPS parameters failed";
  }
  recon.set_num_subsets(k.N);
  recon.set_num_subiterations(k.n_sub);
  recon.set_start_subiteration_num(start);
  recon.set_start_subset_num(k.start_subset);
  recon.set_save_interval(k.save_interval);
  recon.set_randomise_subset_order(false);
  return "";
}

//! set_up (+ the denominator file it writes) + reconstruct + read every saved iterate back
std::string
execute(OSSPSReconstruction<target_type>& recon, const Fixture& F, const Cfg& k, const std::string& prefix, const shared_ptr<target_type>& target, int start,
        Run& out, bool* setup_rejected)
{
  *setup_rejected = false;
  try
    {
      // Reconstruction::reconstruct(target): "set_up() has to be called before" with an image of the same characteristics (check()); round 4:
      // with k.other_img the two are DIFFERENT objects (set_up may change the values of its image - the initial positivity threshold -, so
      // its values are copied to the image that is reconstructed).  Every file saved during the run must hold the iterate, not set_up's image.
      shared_ptr<target_type> setup_image = target;
      if (k.other_img)
        setup_image.reset(target->clone());
      if (recon.set_up(setup_image) != Succeeded::yes)
        {
          *setup_rejected = true;
          return "set_up returned Succeeded::no";
        }
      if (k.other_img)
        {
          std::copy(setup_image->begin_all(), setup_image->end_all(), target->begin_all());
          stats().count("runs with set_up(image A) and reconstruct(image B)");
        }
    }
  catch (const stir_verif::AssertionFailure&)
    {
      throw;
    }
  catch (const std::exception& e)
    {
      *setup_rejected = true;
      return std::string("set_up: ") + e.what();
    }
  out.denominator = read_image(F, prefix + "_precomputed_denominator.hv");
  if (recon.reconstruct(target) != Succeeded::yes)
    return "reconstruct returned Succeeded::no";
  out.iter.assign(std::size_t(k.n_sub) + 1, shared_ptr<target_type>());
  for (int j = start; j <= k.n_sub; ++j)
    if (k.file_due(j)) // 'save estimates at subiteration intervals': multiples of the interval and the last sub-iteration
      out.iter[std::size_t(j)] = read_image(F, cat(prefix, "_", j, ".hv"));
  out.final_in_memory = target;
  return "";
}

//! one reconstruction with FRESH objects; `keep` receives the objects (for histories that go on using them)
std::string
run_recon(const Fixture& F, const Cfg& k, const std::string& prefix, const shared_ptr<target_type>& target, int start, Run& out, bool* setup_rejected,
          Sps* keep = nullptr, const SensFiles* write_sensitivities = nullptr)
{
  *setup_rejected = false;
  Sps o;
  o.recon.reset(new OSSPSReconstruction<target_type>);
  o.ospec = final_objspec(F, k.prior, k.use_subsens);
  o.obj = make_objective(F, k.prior, k.use_subsens);
  if (write_sensitivities) // stage 1 of the file-based stages
    set_sensitivity_files_for_writing(*o.obj, *write_sensitivities, k.use_subsens);
  o.recon->set_objective_function_sptr(o.obj);
  const std::string pm = configure(*o.recon, k, prefix, start);
  if (!pm.empty())
    return pm;
  if (keep)
    *keep = o;
  return execute(*o.recon, F, k, prefix, target, start, out, setup_rejected);
}

//! resume on an object that has already run: only what a user changes for a resume (start sub-iteration, output prefix);
//! set_up is called again, as the class documentation demands before every new reconstruction
std::string
resume_same_object(Sps& o, const Fixture& F, const Cfg& k, const std::string& prefix, const shared_ptr<target_type>& target, int start, Run& out,
                   bool* setup_rejected)
{
  o.recon->set_start_subiteration_num(start);
  o.recon->set_output_filename_prefix(prefix);
  o.recon->set_save_interval(k.save_interval);
  return execute(*o.recon, F, k, prefix, target, start, out, setup_rejected);
}

//! stage 2 of the file-based stages: NEW objects; the objective function READS the sensitivities stage 1 wrote ('recompute
//! sensitivity' off), the reconstruction starts at sub-iteration `start` from the image file `start_file`.
//! files = 1: setters (+ the parser for the parameters that have no setter), image read by the harness and passed to
//! set_up()/reconstruct(target);  files = 2: everything that has a keyword in ONE parameter text, 'initial estimate' read by the
//! zero-argument reconstruct(); with `denominator_file` also 'precomputed denominator' = the file stage 1 wrote at set_up (the data
//! part of D; the class adds twice the prior curvature at the first sub-iteration of the run, as for a computed one).
std::string
run_recon_files(const Fixture& F, const Cfg& k, const std::string& prefix, const std::string& start_file, int start, Run& out, const SensFiles& sf, int files,
                const std::string& denominator_file)
{
  Sps o;
  o.recon.reset(new OSSPSReconstruction<target_type>);
  o.obj = make_objective_reading_sensitivities(F, k.prior, k.use_subsens, sf, files);
  o.recon->set_objective_function_sptr(o.obj);
  if (files != 2)
    {
      const std::string pm = configure(*o.recon, k, prefix, start);
      if (!pm.empty())
        return pm;
      bool rej;
      return execute(*o.recon, F, k, prefix, read_image(F, start_file), start, out, &rej);
    }
  o.recon->set_output_file_format_ptr(float_interfile());
  {
    std::stringstream par;
    par << "OSSPSParameters :=\n"
        << "number of subsets := " << k.N << "\n"
        << "number of subiterations := " << k.n_sub << "\n"
        << "start at subiteration number := " << start << "\n"
        << "start at subset := " << k.start_subset << "\n"
        << "save estimates at subiteration intervals := " << k.save_interval << "\n"
        << "uniformly randomise subset order := 0\n"
        << "initial estimate := " << start_file << "\n"
        << "output filename prefix := " << prefix << "\n"
        << "enforce initial positivity condition := " << (k.enforce ? 1 : 0) << "\n"
        << "relaxation parameter := " << fmt(double(k.alpha)) << "\n"
        << "relaxation gamma := " << fmt(double(k.gamma)) << "\n"
        << "upper bound := " << fmt(k.upper_bound) << "\n";
    if (!denominator_file.empty())
      par << "precomputed denominator := " << denominator_file << "\n";
    par << "End :=\n";
    if (!o.recon->parse(par))
      return "parsing the OSSPS parameter text failed";
  }
  try
    {
      if (o.recon->reconstruct() != Succeeded::yes)
        return "the zero-argument reconstruct() returned Succeeded::no";
    }
  catch (const stir_verif::AssertionFailure&)
    {
      throw;
    }
  catch (const std::exception& e)
    {
      return std::string("the zero-argument reconstruct(): ") + e.what();
    }
  if (denominator_file.empty())
    out.denominator = read_image(F, prefix + "_precomputed_denominator.hv"); // written by the set_up inside reconstruct()
  else
    {
      out.denominator.reset(); // read, not computed: no file is written
      stats().count(std::filesystem::exists(prefix + "_precomputed_denominator.hv") ? "stage 2 with 'precomputed denominator' from file: a denominator file was written nevertheless"
                                                                                     : "stage 2 with 'precomputed denominator' from file: none computed (no file written)");
    }
  out.iter.assign(std::size_t(k.n_sub) + 1, shared_ptr<target_type>());
  for (int j = start; j <= k.n_sub; ++j)
    if (k.file_due(j)) // 'save estimates at subiteration intervals': multiples of the interval and the last sub-iteration
      out.iter[std::size_t(j)] = read_image(F, cat(prefix, "_", j, ".hv"));
  out.final_in_memory.reset();
  return "";
}

Result
compare(const char* what, const std::vector<double>& got, const std::vector<double>& want, double scale, double tol, const std::string& stat_key,
        const std::string& ctx)
{
  double worst = 0;
  std::size_t where = 0;
  for (std::size_t v = 0; v < want.size(); ++v)
    {
      const double d = std::fabs(got[v] - want[v]);
      if (!(d <= worst))
        {
          worst = d;
          where = v;
        }
    }
  if (scale > 0)
    stats().maxi(stat_key, worst / scale);
  VF_CHECK(worst <= tol * scale || (scale == 0 && worst == 0), what, ": |diff|=", worst, " at voxel ", where, " (got ", got[where], ", expected ", want[where],
           "), scale ", scale, " ", ctx);
  return Result::pass();
}

Result
check(const json& c_in)
{
  Fixture F;
  TmpDir tmp("c08");
  json c;
  std::string proj_note;
  {
    DataOpts dopt;
    dopt.eff_lo = 0.5; // keeps y/n^2 >= 0.25 so that the quotient cap of the approximate Hessian stays inactive in the main class
    dopt.eff_hi = 2.;
    dopt.force_y_ge_1 = !c_in["y_zeros"].get<bool>();
    dopt.start_zero_fraction = c_in["start_zero_fraction"].get<double>();
    const std::string rej = prepare_fixture(c_in, c, F, tmp.path, MAX_Z, dopt, proj_note);
    if (!rej.empty())
      return Result::reject(rej);
  }
  Cfg k = decode(c);
  if (!k.use_subsens && !balanced(F.vg_per_subset))
    return Result::reject("unbalanced subsets without subset sensitivities (set_up calls error())");
  finish_cfg(k, c, F);
  const int n = k.n_sub;
  const int hist = c.value("hist", int(HIST_FRESH));
  const json hj = c.value("h", json::object());
  const std::string hnote = hist == HIST_FRESH ? std::string() : cat("[history: ", hist_name(hist), "] ");
  // file-based stages (clause 5): only with fresh objects for every run; 1 = setters, 2 = parsed text + reconstruct()
  const int files = hist == HIST_FRESH ? c.value("files", 0) : 0;
  const bool den_file = files == 2 && c.value("den_file", false);
  const SensFiles sf(tmp.path);

  // reference data part of the denominator: - (approximate Hessian) 1 = sum_b P_b^T [ (P 1)_b / (y_b / n_b^2) ] with the
  // documented thresholds of divide_and_truncate (numerator = P 1, per viewgram)
  RefFlags d0_flags;
  std::vector<double> D0;
  {
    std::vector<double> yden(F.y.size());
    for (std::size_t b = 0; b < yden.size(); ++b)
      yden[b] = F.y[b] / (F.n[b] * F.n[b]);
    const std::vector<double> q = quotient(F, F.rowsum, yden, d0_flags);
    D0 = back_subset(F, q, -1);
  }

  // ---------------- run A ----------------
  Run A;
  Sps R; // the objects of run A
  if (hist == HIST_FRESH || hist == HIST_SAME_OBJECT_RESUME)
    {
      bool rej;
      const std::string msg = run_recon(F, k, tmp.path + "/A", image_from_vec(F, F.start), 1, A, &rej, &R, files ? &sf : nullptr);
      if (rej)
        return Result::reject("run A " + msg);
      VF_CHECK(msg.empty(), "run A: ", msg);
      if (files)
        {
          // (5a) the files stage 1 wrote, read back with read_from_file, against the explicit-P sensitivity
          const Result res = check_sensitivity_files(F, sf, k.use_subsens, k.N, proj_note);
          if (res.failed())
            return res;
        }
    }
  else if (hist == HIST_SECOND_RUN)
    {
      // first run: other settings (cfg0: the same keys as the case, overriding) on other data; its results are not asserted
      const json cfg0 = hj.value("cfg0", json::object());
      json c0 = c;
      for (auto& el : cfg0.items())
        c0[el.key()] = el.value();
      Cfg k0 = decode(c0);
      finish_cfg(k0, c0, F);
      // soundness: without subset sensitivities set_up calls error() for unbalanced subsets
      if (!k0.use_subsens && !balanced_number_of_subsets(F, k0.N))
        return Result::reject("first run of the history: unbalanced subsets without subset sensitivities (set_up calls error())");
      const AltData alt = make_alt_data(F, c["dseed"].get<uint64_t>());
      ObjSpec o0 = final_objspec(F, k0.prior, k0.use_subsens);
      o0.data = hj.value("data0", 0);
      o0.add = hj.value("add0", o0.add);
      o0.norm = hj.value("norm0", o0.norm);
      R.recon.reset(new OSSPSReconstruction<target_type>);
      R.ospec = o0;
      R.obj = make_objective_spec(F, o0, alt);
      R.recon->set_objective_function_sptr(R.obj);
      {
        const std::string pm = configure(*R.recon, k0, tmp.path + "/P", 1);
        VF_CHECK(pm.empty(), "first run of the history: ", pm);
        Run P;
        bool rej;
        const std::string msg = execute(*R.recon, F, k0, tmp.path + "/P", image_from_vec(F, F.start), 1, P, &rej);
        if (rej)
          return Result::reject("first run of the history " + msg);
        VF_CHECK(msg.empty(), "first run of the history: ", msg);
      }
      // now the settings of the case: objective function through its setters, reconstruction object through setters + parser
      const ObjSpec o1 = final_objspec(F, k.prior, k.use_subsens);
      reconfigure_objective(*R.obj, F, o0, o1, alt);
      R.ospec = o1;
      const std::string pm = configure(*R.recon, k, tmp.path + "/A", 1);
      VF_CHECK(pm.empty(), hnote, "second configuration of the object: ", pm);
      bool rej;
      const std::string msg = execute(*R.recon, F, k, tmp.path + "/A", image_from_vec(F, F.start), 1, A, &rej);
      VF_CHECK(!rej && msg.empty(), hnote, "run A (second run of the object) failed: ", msg);
      stats().count("second runs on a used OSSPS object");
    }
  else
    {
      // the objective function is first used by an OSMAPOSL object (balanced number of subsets: OSMAPOSL::set_up calls error()
      // otherwise), then by the OSSPS object of the checked run
      const int N0 = hj.value("subsets0", 1);
      if (!balanced_number_of_subsets(F, N0))
        return Result::reject("first run of the history: unbalanced subsets (OSMAPOSL::set_up calls error())");
      R.ospec = final_objspec(F, k.prior, k.use_subsens);
      R.obj = make_objective(F, k.prior, k.use_subsens);
      {
        OSMAPOSLReconstruction<target_type> pre;
        pre.set_objective_function_sptr(R.obj);
        pre.set_output_filename_prefix(tmp.path + "/P");
        pre.set_output_file_format_ptr(float_interfile());
        pre.set_num_subsets(N0);
        pre.set_num_subiterations(hj.value("n_sub0", 1));
        pre.set_save_interval(hj.value("n_sub0", 1));
        shared_ptr<target_type> t = image_from_vec(F, F.start);
        bool ok = false;
        try
          {
            ok = pre.set_up(t) == Succeeded::yes;
          }
        catch (const stir_verif::AssertionFailure&)
          {
            throw;
          }
        catch (const std::exception& e)
          {
            return Result::reject(std::string("first run of the history (OSMAPOSL) set_up: ") + e.what());
          }
        if (!ok)
          return Result::reject("first run of the history (OSMAPOSL): set_up returned Succeeded::no");
        VF_CHECK(pre.reconstruct(t) == Succeeded::yes, "first run of the history (OSMAPOSL): reconstruct returned Succeeded::no");
      }
      R.recon.reset(new OSSPSReconstruction<target_type>);
      R.recon->set_objective_function_sptr(R.obj);
      const std::string pm = configure(*R.recon, k, tmp.path + "/A", 1);
      VF_CHECK(pm.empty(), hnote, pm);
      bool rej;
      const std::string msg = execute(*R.recon, F, k, tmp.path + "/A", image_from_vec(F, F.start), 1, A, &rej);
      VF_CHECK(!rej && msg.empty(), hnote, "run A (objective function used by OSMAPOSL before) failed: ", msg);
      stats().count("runs on an objective function used by an OSMAPOSL object before");
    }
  std::vector<std::vector<double>> lam(std::size_t(n) + 1);
  lam[0] = F.start;
  bool lifted0 = false;
  if (k.enforce)
    lam[0] = lift_initial(F.start, lifted0);
  for (int j = 1; j <= n; ++j)
    lam[std::size_t(j)] = image_vec(F, *A.iter[std::size_t(j)]);
  VF_CHECK(image_vec(F, *A.final_in_memory) == lam[std::size_t(n)], "the image returned by reconstruct() differs from the last saved iterate");

  // (1) precomputed denominator (data part)
  const std::vector<double> D0_stir = image_vec(F, *A.denominator);
  for (std::size_t v = 0; v < D0_stir.size(); ++v)
    VF_CHECK(std::isfinite(D0_stir[v]) && D0_stir[v] >= 0., hnote, "precomputed denominator has value ", D0_stir[v], " at voxel ", v);
  if (!d0_flags.ambiguous)
    {
      // observed maximum over seeds 3.2e-5 (float accumulation of P 1 / y over all bins); asserted 5e-4
      const Result res = compare("precomputed denominator vs -(approximate Hessian) 1", D0_stir, D0, vmax(D0), 5e-4, "max rel err precomputed denominator",
                                 hnote + proj_note);
      if (res.failed())
        return res;
    }
  else
    stats().count("denominator not asserted: value inside the rounding band of a documented threshold");

  // (3) bounds on every iterate
  const double ub = double(float(k.upper_bound));
  for (int j = 1; j <= n; ++j)
    for (std::size_t v = 0; v < lam[std::size_t(j)].size(); ++v)
      VF_CHECK(std::isfinite(lam[std::size_t(j)][v]) && lam[std::size_t(j)][v] >= 0. && lam[std::size_t(j)][v] <= ub, hnote, "iterate ", j, " has value ", lam[std::size_t(j)][v],
               " at voxel ", v, " outside [0, ", ub, "]");

  // (2) every update against the documented formula
  // the reference computes gradient and surrogate curvature of the documented quadratic prior itself (OwnPrior), the same in
  // both modes: with recompute_penalty_term_in_denominator on (QuadraticPriorRecompute in the objects under test) the class adds 2 x curvature to
  // the untouched data part at every sub-iteration, which for a quadratic prior is the same D = max(D0 + 2 curvature, threshold)
  PriorSpec ref_spec = k.prior;
  ref_spec.recompute = false;
  const OwnPrior own_prior = make_own_prior(F, ref_spec); // the oracle
  shared_ptr<GeneralisedPrior<target_type>> ref_prior = make_prior(F, ref_spec); // feeds statistics only
  if (ref_prior)
    ref_prior->set_up(F.image);
  bool any_hi = false, any_lo = false, any_cap = d0_flags.cap_active;
  RefRun RA;
  bool formula_ok = !d0_flags.ambiguous;
  for (int j = 1; j <= n && formula_ok; ++j)
    {
      const StepRef r = ref_step(F, k, D0, lam[std::size_t(j - 1)], j, j == 1, RA, own_prior, ref_prior.get());
      for (double d : RA.D)
        VF_CHECK(d > 0., "reference denominator not strictly positive: ", d);
      any_hi |= r.clamped_hi;
      any_lo |= r.clamped_lo;
      any_cap |= r.fl.cap_active;
      if (r.fl.ambiguous)
        {
          stats().count("steps not asserted: value inside the rounding band of a documented threshold");
          continue;
        }
      // tolerance relative to max(|lambda| + |step|): float projections vs double; observed maximum over seeds 1.9e-5; asserted 3e-4
      const Result res = compare("OSSPS update", lam[std::size_t(j)], r.next, r.scale, 3e-4, "max rel err OSSPS update",
                                 cat(hnote, "(sub-iteration ", j, ", subset ", (j + k.start_subset - 1) % k.N, " of ", k.N, ", relaxation n=", j / k.N, ")", proj_note));
      if (res.failed())
        return res;
      stats().count("update steps checked by formula");
    }

  // ---------------- (4') histories 2 and 3: a run with FRESH objects and the settings of the case reproduces run A ----------------
  if (hist == HIST_SECOND_RUN || hist == HIST_SHARED_OBJECTIVE)
    {
      Run B0;
      bool rej;
      const std::string msg = run_recon(F, k, tmp.path + "/B0", image_from_vec(F, F.start), 1, B0, &rej);
      VF_CHECK(!rej && msg.empty(), "run with fresh objects failed although the run on used objects succeeded: ", msg);
      VF_CHECK(image_vec(F, *B0.denominator) == D0_stir, hnote, "the precomputed denominator of the run on used objects differs from the one of a run on fresh objects");
      for (int j = 1; j <= n; ++j)
        {
          const Result res = compare("run on used objects vs run on freshly configured objects", lam[std::size_t(j)], image_vec(F, *B0.iter[std::size_t(j)]),
                                     vmax(lam[std::size_t(j)]), 1e-6, "max rel diff used objects vs fresh objects", cat(hnote, "(iterate ", j, " of ", n, ", N=", k.N, ")"));
          if (res.failed())
            return res;
        }
      stats().count("runs on used objects compared with a run on fresh objects");
    }

  // ---------------- (4) restart at every k ----------------
  // hist 0: fresh objects; hist 1-3: the same reconstruction object again (set_up is called again, as the class demands).
  // Histories 2 and 3 resume at a sample of the interruption points unless "k_all" (thorough tier).
  std::vector<int> ks;
  if (hist == HIST_FRESH || hist == HIST_SAME_OBJECT_RESUME || hj.value("k_all", false))
    for (int kk = 1; kk < n; ++kk)
      ks.push_back(kk);
  else if (n > 1)
    for (const auto& pk : hj.value("k_pick", std::vector<int>{ 0, 1 }))
      {
        const int kk = 1 + (((pk % (n - 1)) + (n - 1)) % (n - 1));
        if (std::find(ks.begin(), ks.end(), kk) == ks.end())
          ks.push_back(kk);
      }
  long compared = 0;
  // kinds of resumed runs: 0 fresh objects that recompute their sensitivities, 1 the same reconstruction object again,
  // 2 file-based stage 2 (fresh objects that read image AND sensitivities - optionally the denominator - from the files of
  // stage 1).  In a files case the file-based resume replaces the recomputing one; "files_both" (thorough tier) runs both.
  std::vector<int> kinds;
  if (hist != HIST_FRESH)
    kinds.push_back(1);
  else
    {
      if (files)
        kinds.push_back(2);
      if (!files || c.value("files_both", false))
        kinds.push_back(0);
    }
  for (int kk : ks)
    for (int kind : kinds)
      {
        const std::vector<double>& lk = lam[std::size_t(kk)];
        bool has_zero = false, nonident_nonzero = false;
        for (std::size_t v = 0; v < lk.size(); ++v)
          {
            if (lk[v] == 0.)
              has_zero = true;
            if (F.sens_total[v] == 0. && lk[v] != 0.)
              nonident_nonzero = true;
          }
        // documented behaviour of the option: enforce_initial_positivity lifts the zeros of the initial image of a run
        const bool lifting = k.enforce && has_zero;
        // KNOWN FINDING C08-F1 (work/notes/C08_findings.md): update_estimate zeroes the voxels no bin can see at the first
        // sub-iteration OF EVERY RUN (subiteration_num == start_subiteration_num); with a prior these voxels are non-zero in
        // the uninterrupted run from sub-iteration 1 on, so a resumed run differs.  Excluded narrowly by construction: equality
        // with run A is not demanded for a k whose saved image is non-zero at such a voxel (the first update of the resumed run
        // is then checked against the formula WITH the re-zeroing instead).  VERIF_NO_EXCLUDE=1 demands equality.
        const bool rezero = nonident_nonzero;
        Run B;
        bool rej = false;
        const std::string start_file = cat(tmp.path, "/A_", kk, ".hv");
        const std::string bprefix = cat(tmp.path, kind == 2 ? "/F" : "/B", kk);
        const std::string how = kind == 0 ? ", fresh objects"
                                          : (kind == 1 ? ", on the object that has run before"
                                                       : (files == 2 ? (den_file ? ", NEW objects reading image, sensitivities and denominator from files (parsed parameter text, reconstruct())"
                                                                                 : ", NEW objects reading image and sensitivities from files (parsed parameter text, reconstruct())")
                                                                     : ", NEW objects reading image and sensitivities from files (setters)"));
        // AUD_E: the resumed runs save at the interval of the case (the checked run at every sub-iteration): the files that are due -
        // multiples of the interval and the last sub-iteration - must hold the iterates of the uninterrupted run
        Cfg kb = k;
        kb.save_interval = k.save_b;
        const std::string msg = kind == 0 ? run_recon(F, kb, bprefix, read_image(F, start_file), kk + 1, B, &rej)
                                          : (kind == 1 ? resume_same_object(R, F, kb, bprefix, read_image(F, start_file), kk + 1, B, &rej)
                                                       : run_recon_files(F, kb, bprefix, start_file, kk + 1, B, sf, files,
                                                                         den_file ? tmp.path + "/A_precomputed_denominator.hv" : std::string()));
        VF_CHECK(msg.empty(), hnote, "resumed run (start at sub-iteration ", kk + 1, how, ") failed: ", msg);
        const bool first_saved = bool(B.iter[std::size_t(kk + 1)]);
        if (kb.save_interval > 1)
          stats().count("resumed runs with a save interval > 1");
        if (kind == 1)
          stats().count("resumes on the same reconstruction object");
        if (kind == 2)
          stats().count(files == 2 ? (den_file ? "file-based resumes: parsed parameter text + reconstruct(), denominator from file" : "file-based resumes: parsed parameter text + reconstruct()")
                                   : "file-based resumes: setters");
        if (B.denominator)
          {
            // every set_up computes the data part of the denominator from scratch (documented: "call set_up() before running a
            // new reconstruction"): the file it writes must be the one of the first set_up
            const std::vector<double> DB = image_vec(F, *B.denominator);
            double worst = 0;
            std::size_t wv = 0;
            for (std::size_t v = 0; v < DB.size(); ++v)
              if (std::fabs(DB[v] - D0_stir[v]) > worst)
                {
                  worst = std::fabs(DB[v] - D0_stir[v]);
                  wv = v;
                }
            VF_CHECK(DB == D0_stir, hnote, "the precomputed denominator of the resumed run (start at sub-iteration ", kk + 1, how,
                     ") differs from the one of the uninterrupted run: ", DB[wv], " vs ", D0_stir[wv], " at voxel ", wv);
          }
        for (int j = kk + 1; j <= n; ++j)
          {
            if (!B.iter[std::size_t(j)])
              continue; // not due at the save interval of the resumed run
            const std::vector<double> b = image_vec(F, *B.iter[std::size_t(j)]);
            for (std::size_t v = 0; v < b.size(); ++v)
              VF_CHECK(std::isfinite(b[v]) && b[v] >= 0. && b[v] <= ub, "resumed run (from ", kk, how, "): iterate ", j, " has value ", b[v], " at voxel ", v, " outside [0, ",
                       ub, "]");
          }
        const bool excluded = rezero && !no_exclude();
        if (excluded)
          {
            stats().excluded_known++;
            stats().count("excluded: restart equality at a k whose saved image is non-zero at a voxel no bin sees (finding C08-F1)");
          }
        if (!lifting && !excluded)
          {
            for (int j = kk + 1; j <= n; ++j)
              {
                if (!B.iter[std::size_t(j)])
                  continue;
                const Result res = compare(kind == 2 ? "restart through files" : "restart", image_vec(F, *B.iter[std::size_t(j)]), lam[std::size_t(j)], vmax(lam[std::size_t(j)]), 1e-6,
                                           kind == 2 ? "max rel diff restart through files (image and sensitivities read)" : "max rel diff restart",
                                           cat(hnote, "(resumed at sub-iteration ", kk + 1, " from the image saved after ", kk, ", iterate ", j, " of ", n, ", N=", k.N, how,
                                               rezero ? ", saved image non-zero at voxels no bin sees: finding C08-F1" : "", ")"));
                if (res.failed())
                  return res;
              }
            ++compared;
            if (kk % k.N != 0)
              stats().count("restarts compared at k not a multiple of N");
          }
        if ((lifting || excluded || kind == 2) && formula_ok && first_saved)
          {
            // the resumed run is a run of its own: first update from the (lifted, re-zeroed) saved image by formula; for the
            // file-based stage 2 always (the formula with the harness's own sensitivities and denominator, independent of run A)
            bool ch = false;
            const std::vector<double> st = lifting ? lift_initial(lk, ch) : lk;
            RefRun RB;
            const StepRef r = ref_step(F, k, D0, st, kk + 1, true, RB, own_prior, nullptr);
            if (!r.fl.ambiguous)
              {
                const Result res
                    = compare(kind == 2 ? "first update of the run that read its image and sensitivities from files" : "first update of the resumed run (documented treatment of its initial image)",
                              image_vec(F, *B.iter[std::size_t(kk + 1)]), r.next, r.scale, 3e-4,
                              (lifting || excluded) ? "max rel err first update after restart (lifting / re-zeroing)" : "max rel err first update of a file-based resume",
                              cat("(resumed at sub-iteration ", kk + 1, how, ")"));
                if (res.failed())
                  return res;
              }
            if (lifting || excluded)
              stats().count("restarts with documented lifting or re-zeroing: first update checked by formula instead");
            else
              stats().count("first updates of file-based resumes checked by formula");
          }
      }
  stats().count("restarts compared with run A", compared);
  stats().count("restarts run", long(ks.size() * kinds.size()));

  // classes
  stats().cls(cat("history: ", hist_name(hist)));
  if (files)
    {
      stats().cls(files == 2 ? (den_file ? "file-based stages: stage 2 through a parsed parameter text and reconstruct(), 'precomputed denominator' from file"
                                         : "file-based stages: stage 2 through a parsed parameter text and reconstruct()")
                             : "file-based stages: stage 2 through the setters");
      stats().cls(k.use_subsens ? (k.N > 1 ? "file-based stages: 'subset sensitivity filenames', N > 1" : "file-based stages: 'subset sensitivity filenames', N = 1")
                                : (k.N > 1 ? "file-based stages: 'sensitivity filename' (total), N > 1" : "file-based stages: 'sensitivity filename' (total), N = 1"));
      if (n > 1)
        stats().cls("file-based stages with at least one resume");
    }
  if (k.prior.kind != 0 && k.prior.kappa)
    stats().cls("prior curvature with kappa computed by the harness's own formula");
  if (k.prior.kind != 0 && k.prior.kappa && k.prior.kzero != 0)
    stats().cls(k.prior.kzero == 1 ? "kappa exactly 0 in voxels no bin sees" : "kappa exactly 0 in voxels no bin sees and in others");
  if (k.prior.kind && k.beta_zero)
    stats().cls("prior object with penalisation factor exactly 0");
  if (n % k.N != 0)
    stats().cls("run ends inside a full iteration (number of sub-iterations not a multiple of N)");
  if (k.save_b > 1 && n > 1)
    stats().cls(k.save_b >= n ? "resumed runs save only the last sub-iteration" : "resumed runs save at an interval > 1");
  if (c["start_zero_fraction"].get<double>() >= 1.)
    stats().cls("start image all zero");
  stats().cls(k.N == 1 ? "N=1" : (k.N <= 4 ? "N=2-4" : "N>=5"));
  stats().cls(balanced(F.vg_per_subset) ? "balanced subsets" : "unbalanced subsets");
  stats().cls(cat("prior ", k.prior.kind == 0 ? "none" : (k.prior.kappa ? "quadratic with kappa" : "quadratic")));
  if (k.prior.recompute)
    stats().cls(n >= 2 ? (k.prior.kappa ? "recompute_penalty_term_in_denominator on, >= 2 sub-iterations, with kappa"
                                        : "recompute_penalty_term_in_denominator on, >= 2 sub-iterations, without kappa")
                       : "recompute_penalty_term_in_denominator on, 1 sub-iteration");
  stats().cls(k.bounded ? (any_hi ? "upper bound set and active" : "upper bound set") : "upper bound = max float");
  if (any_lo)
    stats().cls("lower bound 0 active");
  stats().cls(k.gamma > 0 ? (c["iters"].get<int>() >= 2 ? "gamma > 0 and >= 2 full iterations" : "gamma > 0") : "gamma = 0");
  if (F.use_add)
    stats().cls("additive term");
  if (F.use_norm)
    stats().cls("normalisation");
  if (!k.use_subsens)
    stats().cls("use_subset_sensitivities off");
  if (k.enforce)
    stats().cls(lifted0 ? "enforce_initial_positivity on, start zeros lifted" : "enforce_initial_positivity on");
  if (c["start_zero_fraction"].get<double>() > 0)
    stats().cls("start image with zeros");
  if (c["y_zeros"].get<bool>())
    stats().cls("data with y = 0 bins inside the FOV (labelled threshold class)");
  if (any_cap)
    stats().cls("quotient cap active (reference implements it)");
  if (k.start_subset != 0)
    stats().cls("start subset != 0");
  stats().cls(F.reference_with_case_switches ? "reference matrix: fresh cache-free matrix with the case's symmetry switches (ray-tracing ties)"
                                             : "reference matrix: symmetry-free cache-free");
  stats().cls(cat("iterations ", c["iters"].get<int>()));
  if (F.header_rounded)
    stats().cls("grid rounded by the Interfile header (case runs on the rounded grid)");
  return Result::pass();
}

json
gen(Src& s, int size)
{
  json c;
  gen_geometry(s, size, c);
  c["use_subsens"] = s.chance(3, 4);
  const int views = c["pdi"]["views"].get<int>();
  int N = 1;
  if (c["use_subsens"].get<bool>())
    // OSSPS does not require balanced subsets when subset sensitivities are used: any N in 1..views
    N = s.chance(1, 5) ? 1 : int(s.range(1, views));
  else
    {
      std::vector<int> bal;
      try
        {
          bal = balanced_subsets(c, MAX_Z);
        }
      catch (...)
        {
          bal = { 1 };
        }
      N = s.pick(bal);
    }
  c["subsets"] = N;
  c["start_subset"] = s.chance(1, 3) ? int(s.range(0, 23)) : 0;
  int iters = int(s.range(1, 3));
  while (iters > 1 && iters * N > 36)
    --iters;
  c["iters"] = iters;
  // AUD_E: a fifth of the runs with N > 1 end INSIDE a full iteration ("number of subiterations" is any number >= 1:
  // IterativeReconstruction::set_up only calls error() below 1), so the last interruption points lie in an incomplete iteration
  if (N > 1 && s.chance(1, 5))
    c["n_sub"] = iters * N - int(s.range(1, N - 1));
  // AUD_E: save interval of the RESUMED runs (the checked run saves every iterate); clipped to the number of sub-iterations in decode()
  // (set_up calls error() above it); 36 >= every run length = "only the last sub-iteration is saved"
  c["save_b"] = s.chance(2, 3) ? 1 : int(s.pick(std::vector<int>{ 2, 3, 5, 36 }));
  c["use_add"] = s.coin();
  c["use_norm"] = s.coin();
  c["count_max"] = s.pick(std::vector<double>{ 8., 40., 200., 2000. });
  c["ymode"] = s.chance(2, 3) ? 0 : 1;
  c["y_zeros"] = s.chance(1, 6);
  c["start_scale"] = s.pick(std::vector<double>{ 0.3, 1., 1., 3. });
  // AUD_E: 1 = the start image is zero everywhere (legal for OSSPS: an additive update; with enforce_initial_positivity the documented lifting applies)
  c["start_zero_fraction"] = s.chance(1, 10) ? 1. : s.pick(std::vector<double>{ 0., 0., 0.15, 0.5 });
  // relaxation: alpha in (0,2], gamma in [0,1] (float-representable so that the text of the parameter file is exact)
  c["alpha"] = double(s.range(1, 32)) / 16.;
  c["gamma"] = s.chance(1, 4) ? 0. : double(s.range(1, 16)) / 16.;
  c["ub_rel"] = s.coin() ? 0. : s.pick(std::vector<double>{ 0.3, 0.7, 1.2 });
  c["prior"] = s.coin() ? 0 : 1;
  c["kappa"] = s.coin();
  // exact zeros in kappa (where no bin sees the voxel / also elsewhere): then data term AND surrogate curvature of the denominator are 0 in a voxel
  // and only the threshold keeps D strictly positive
  c["kzero"] = s.pick(std::vector<int>{ 0, 0, 1, 2 });
  c["beta_exp"] = s.real(-2., 1.5);
  // AUD_E: a prior object whose penalisation factor is exactly 0 (1/8 of the prior cases): no penalty share in the gradient, no curvature in D
  c["beta_zero"] = s.chance(1, 8);
  c["enforce"] = s.chance(1, 4);
  if (c["start_zero_fraction"].get<double>() >= 1. && s.coin())
    c["enforce"] = true; // all-zero start image: both branches of the documented initial threshold (nothing positive to scale with)
  c["other_img"] = s.chance(1, 3);
  // recompute_penalty_term_in_denominator on (property text): a quadratic prior whose surrogate curvature is reported to
  // depend on the argument (QuadraticPriorRecompute), half of the prior cases
  c["recompute"] = s.coin();
  // object-reuse histories (c07_recon_common.h): half of the cases use fresh objects for every run, as before
  {
    const int hr = int(s.range(0, 15));
    const int hist = hr < 8 ? HIST_FRESH : (hr < 11 ? HIST_SAME_OBJECT_RESUME : (hr < 14 ? HIST_SECOND_RUN : HIST_SHARED_OBJECTIVE));
    c["hist"] = hist;
    json h = json::object();
    std::vector<int> bal{ 1 };
    if (hist == HIST_SECOND_RUN || hist == HIST_SHARED_OBJECTIVE)
      try
        {
          bal = balanced_subsets(c, MAX_Z);
        }
      catch (...)
        {
          bal = { 1 };
        }
    if (hist == HIST_SECOND_RUN)
      {
        // the first run's settings: every parameter is changed with probability 1/2
        json c0 = json::object();
        const bool subsens0 = s.coin() ? !c["use_subsens"].get<bool>() : c["use_subsens"].get<bool>();
        c0["use_subsens"] = subsens0;
        if (s.coin())
          c0["subsets"] = subsens0 ? int(s.range(1, views)) : s.pick(bal); // without subset sensitivities set_up error()s for unbalanced subsets
        else if (!subsens0)
          c0["subsets"] = s.pick(bal);
        c0["n_sub"] = int(s.range(1, 3));
        if (s.coin())
          c0["start_subset"] = int(s.range(0, 23));
        if (s.coin())
          {
            c0["prior"] = s.coin() ? 0 : 1;
            c0["kappa"] = s.coin();
          }
        if (s.coin())
          c0["beta_exp"] = s.real(-2., 1.5);
        if (s.coin())
          c0["recompute"] = !c["recompute"].get<bool>();
        if (s.coin())
          {
            c0["alpha"] = double(s.range(1, 32)) / 16.;
            c0["gamma"] = s.chance(1, 4) ? 0. : double(s.range(1, 16)) / 16.;
          }
        if (s.coin())
          c0["ub_rel"] = s.coin() ? 0. : s.pick(std::vector<double>{ 0.3, 0.7, 1.2 });
        if (s.coin())
          c0["enforce"] = !c["enforce"].get<bool>();
        h["cfg0"] = c0;
        h["data0"] = int(s.range(0, 1));
        h["add0"] = s.coin() ? (c["use_add"].get<bool>() ? 1 : 0) : int(s.pick(std::vector<int>{ 0, 2 }));
        h["norm0"] = s.coin() ? (c["use_norm"].get<bool>() ? 1 : 0) : int(s.pick(std::vector<int>{ 0, 2 }));
      }
    if (hist == HIST_SHARED_OBJECTIVE)
      {
        h["subsets0"] = s.pick(bal); // OSMAPOSL::set_up calls error() for unbalanced subsets
        h["n_sub0"] = int(s.range(1, 2));
      }
    if (hist == HIST_SECOND_RUN || hist == HIST_SHARED_OBJECTIVE)
      {
        h["k_all"] = size > 75; // thorough tier: every interruption point; quick tier: a sample of two
        h["k_pick"] = std::vector<int>{ int(s.range(0, 35)), int(s.range(0, 35)) };
      }
    c["h"] = h;
  }
  // file-based stages (effective in the fresh-object history): none 1/2, stage 2 through the setters 1/4, through a parsed
  // parameter text + the zero-argument reconstruct() 1/4 (half of those also read 'precomputed denominator' from stage 1's file)
  {
    const int fr = int(s.range(0, 3));
    c["files"] = fr < 2 ? 0 : fr - 1;
    c["den_file"] = s.coin();
    c["files_both"] = size > 75; // thorough tier: also the recomputing resume at every k
  }
  return c;
}

bool
nontrivial(const json& c)
{
  return (c["gamma"].get<double>() > 0 && c["iters"].get<int>() >= 2) || (c["prior"].get<int>() != 0 && !c.value("beta_zero", false)) || c["ub_rel"].get<double>() > 0;
}

} // namespace

const Property&
the_property()
{
  static Property p;
  p.id = "C08";
  p.gen = gen;
  p.check = check;
  p.nontrivial = nontrivial;
  return p;
}

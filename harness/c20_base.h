// C20: shared pieces of the harness (moved out of c20_mlnorm.cxx so that c20_more.h can use them): the detector pairs of a fan,
// snapshots of fan containers, the Poisson sampler, the case context, the data models (flat / wide dynamic range).
#pragma once
#include "c20_fanref.h"
#include "stir/IndexRange2D.h"
#include <algorithm>
#include <set>
#include <string>
#include <cstdlib>

namespace c20 {
using namespace vf;

//! VERIF_NO_EXCLUDE=1 switches every exclusion of a known finding off; VERIF_NO_EXCLUDE=F4 (a list of tags) only the named ones
inline bool
exclusion_off(const char* tag)
{
  const char* e = std::getenv("VERIF_NO_EXCLUDE");
  if (!e)
    return false;
  const std::string v(e);
  return v.find('F') == std::string::npos || v.find(tag) != std::string::npos;
}
inline const bool no_exclude = exclusion_off("F1");

//! statistics of observed maxima: non-finite values (a failing case is about to be reported) are not recorded
inline void
smax(const std::string& key, double v)
{
  if (std::isfinite(v))
    stats().maxi(key, v);
}

//! exclusions of known findings applied in the current case (each signature counted once per case under excluded_known)
inline std::set<std::string> g_excluded;
inline void
excluded(const std::string& sig)
{
  if (g_excluded.insert(sig).second)
    {
      stats().count("excluded:" + sig);
      if (g_excluded.size() == 1)
        stats().excluded_known++;
    }
}
inline const char* const SIG_F1 = "C20:F1:fan_round_trip:bins_outside_symmetric_fan";

// tolerances (relative to the reference value of the entry unless said otherwise); see props.d/C20.py for the calibration
inline const double TOL_APPLY = 1e-6;   // one float product + one float multiply
inline const double TOL_UNAPPLY = 1e-6; // as the design states
inline const double TOL_SUMS = 1e-4;    // float accumulation of <= fan*rings terms
inline const double TOL_FIXED = 1e-4;   // as the design states
inline const double TOL_KL = 1e-6;

struct Entry
{
  int ra, a, rb, b; // b reduced mod n
};

//! all ordered detector pairs of the fan (both (p,q) and (q,p) appear)
inline std::vector<Entry>
fan_domain(const Blocks& B, const FanDims& F)
{
  std::vector<Entry> v;
  for (int ra = 0; ra < B.nrphys; ++ra)
    for (int a = 0; a < B.nphys; ++a)
      for (int rb = std::max(ra - F.new_max_delta, 0); rb <= std::min(ra + F.new_max_delta, B.nrphys - 1); ++rb)
        for (int b = a + B.nphys / 2 - F.new_half_fan; b <= a + B.nphys / 2 + F.new_half_fan; ++b)
          v.push_back(Entry{ ra, a, rb, b % B.nphys });
  return v;
}

inline std::vector<double>
snapshot(const FanProjData& f, const std::vector<Entry>& dom)
{
  std::vector<double> v(dom.size());
  for (std::size_t i = 0; i < dom.size(); ++i)
    v[i] = f(dom[i].ra, dom[i].a, dom[i].rb, dom[i].b);
  return v;
}

inline void
set_all(FanProjData& f, const std::vector<Entry>& dom, const std::vector<double>& v)
{
  for (std::size_t i = 0; i < dom.size(); ++i)
    f(dom[i].ra, dom[i].a, dom[i].rb, dom[i].b) = float(v[i]);
}

//! simple Poisson sampler driven by SplitMix (pure function of the generator state)
inline long
poisson(vf::SplitMix& g, double mean)
{
  if (mean <= 0)
    return 0;
  if (mean < 40.)
    {
      const double L = std::exp(-mean);
      long k = 0;
      double p = 1.;
      do
        {
          ++k;
          p *= g.unit();
      } while (p > L);
      return k - 1;
    }
  // normal approximation
  const double u1 = std::max(g.unit(), 1e-300), u2 = g.unit();
  const double z = std::sqrt(-2. * std::log(u1)) * std::cos(6.283185307179586 * u2);
  return std::max(0L, long(std::floor(mean + std::sqrt(mean) * z + 0.5)));
}

struct Ctx
{
  const json& c;
  shared_ptr<Scanner> sc;
  shared_ptr<ProjDataInfo> pdi_sptr;
  const ProjDataInfoCylindricalNoArcCorr* pdi;
  Blocks B;
  FanDims F;
  std::vector<Entry> dom;
};
// ---- data models -------------------------------------------------------------------------------------------------
//! Model (and, through it, measured) data on the detector pairs of the fan.
//!  "flat": one hashed value in [1,50] per LOR (the model of the first version of the harness: modest dynamic range).
//!  "wide": the same value times
//!     10^-(e_off  x (|offset from the central LOR| / half fan)^2)    compact source on the axis: LORs at the edge of the fan see little
//!     10^-(e_ring x |ra-rb| / max ring difference)
//!     u(ra,a) x u(rb,b),  u = 10^-(e_det x h),  h in [0,1] smooth in a (compact off-centre source) or hashed per detector
//!   and exact zeros: a fraction zero_frac of the LORs (hashed on the unordered pair) and all LORs of `dead` detectors.
//!   Fan sums then span ~10^(e_det..2 e_det), the sums over geometric classes ~10^(e_off+e_ring), block sums ~10^(2 e_det) with
//!   small non-zero entries next to large ones.  Everything is symmetric under exchange of the two detectors.
struct ModelSpec
{
  bool wide = false;
  int e_off = 0, e_ring = 0, e_det = 0, det_shape = 0, dead = 0;
  double zero_frac = 0.;
  bool extreme_factors = false; // some geometric / block factors are 1e-6, 1e-3, 1e5 or 1e7 instead of [0.5,2]
  static ModelSpec from(const json& c)
  {
    ModelSpec m;
    if (!c.contains("model"))
      return m;
    const json& j = c["model"];
    m.wide = j.value("kind", std::string("flat")) == "wide";
    m.e_off = j.value("e_off", 0);
    m.e_ring = j.value("e_ring", 0);
    m.e_det = j.value("e_det", 0);
    m.det_shape = j.value("det_shape", 0);
    m.dead = j.value("dead", 0);
    m.zero_frac = j.value("zero_frac", 0.);
    m.extreme_factors = j.value("extreme_factors", false);
    return m;
  }
  static json gen(Src& s)
  {
    json j;
    j["kind"] = "wide";
    j["e_off"] = int(s.pick(std::vector<int>{ 0, 3, 5, 6, 8 }));
    j["e_ring"] = int(s.pick(std::vector<int>{ 0, 0, 1, 2 }));
    j["e_det"] = int(s.pick(std::vector<int>{ 0, 2, 3, 4 }));
    j["det_shape"] = int(s.range(0, 1));
    j["dead"] = s.chance(1, 3) ? int(s.range(1, 2)) : 0;
    j["zero_frac"] = s.pick(std::vector<double>{ 0., 0., 0.05, 0.3 });
    j["extreme_factors"] = s.chance(1, 3);
    return j;
  }
};

//! model value of one detector pair (double; callers round to float).  n, nr: physical detectors per ring / rings
inline double
model_value(const ModelSpec& m, uint64_t seed_par, const Entry& e, int n, int nr, const FanDims& F)
{
  const double base = double(float(hreal(seed_par ^ 0x30de1ULL, pair_key(e.ra, e.a, e.rb, e.b, n), 1., 50.)));
  if (!m.wide)
    return base;
  // exact zeros
  if (m.zero_frac > 0 && hreal(seed_par ^ 0x2e20ULL, pair_key(e.ra, e.a, e.rb, e.b, n), 0., 1.) < m.zero_frac)
    return 0.;
  for (int k = 0; k < m.dead; ++k)
    {
      const uint64_t d = uint64_t(hreal(seed_par ^ 0xdeadULL, uint64_t(k), 0., 1.) * double(n) * double(nr));
      if (d == uint64_t(e.ra) * uint64_t(n) + uint64_t(e.a) || d == uint64_t(e.rb) * uint64_t(n) + uint64_t(e.b))
        return 0.;
    }
  int off = ((e.b - e.a - n / 2) % n + n) % n;
  if (off > n / 2)
    off -= n;
  const double xo = F.new_half_fan > 0 ? double(std::abs(off)) / double(F.new_half_fan) : 0.;
  const double xr = F.new_max_delta > 0 ? double(std::abs(e.ra - e.rb)) / double(F.new_max_delta) : 0.;
  auto h = [&](int r, int a) {
    if (m.det_shape == 1)
      return hreal(seed_par ^ 0xde7ULL, uint64_t(r) * 4096 + uint64_t(a), 0., 1.);
    const double a0 = hreal(seed_par ^ 0xa0ULL, 1, 0., double(n));
    const double r0 = hreal(seed_par ^ 0xa0ULL, 2, 0., double(std::max(nr - 1, 0)));
    return 0.7 * 0.5 * (1. - std::cos(6.283185307179586 * (double(a) - a0) / double(n))) + 0.3 * (nr > 1 ? std::fabs(double(r) - r0) / double(nr - 1) : 0.);
  };
  const double lg = -double(m.e_off) * xo * xo - double(m.e_ring) * xr - double(m.e_det) * (h(e.ra, e.a) + h(e.rb, e.b));
  return base * std::pow(10., lg);
}

//! geometric / block factor of a class: [0.5,2], or (extreme_factors) for about one class in six one of 1e-6, 1e-3, 1e5, 1e7
inline float
factor_value(const ModelSpec& m, uint64_t seed, uint64_t key)
{
  if (m.extreme_factors)
    {
      const double u = hreal(seed ^ 0xe87ULL, key, 0., 1.);
      if (u < 1. / 6.)
        {
          static const float ext[4] = { 1e-6F, 1e-3F, 1e5F, 1e7F };
          return ext[int(u * 24.) % 4];
        }
    }
  return float(hreal(seed, key, 0.5, 2.));
}

} // namespace c20

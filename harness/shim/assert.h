/* Verification shim placed first on the include path of the verification builds (never of the
   baseline build): STIR's assert() becomes a run-time switchable, catchable failure.
   No include guard on purpose: <assert.h> is re-evaluated on every inclusion. */
#undef assert
#ifdef NDEBUG
#  define assert(e) ((void)0)
#else
#  ifdef __cplusplus
namespace stir_verif {
extern bool asserts_on;
[[noreturn]] void assert_failed(const char* expr, const char* file, int line);
}
#    define assert(e) ((!::stir_verif::asserts_on || (e)) ? (void)0 : ::stir_verif::assert_failed(#e, __FILE__, __LINE__))
#  else
extern void stir_verif_c_assert_failed(const char* expr, const char* file, int line);
#    define assert(e) ((e) ? (void)0 : stir_verif_c_assert_failed(#e, __FILE__, __LINE__))
#  endif
#endif
#ifndef __cplusplus
#  if defined(__STDC_VERSION__) && __STDC_VERSION__ >= 201112L
#    undef static_assert
#    define static_assert _Static_assert
#  endif
#endif

// C17 (c,d) — Interfile headers: parsed into a consistent object or rejected, never mis-handled.
// A case is: a valid header *written by the library itself* for a generated image / dynamic image / parametric
// image / projection data (PET, TOF, SPECT), or the Siemens sample header of the distribution, or a Multi header;
// a list of grammar-aware mutations (boundary values, index changes, line deletion / duplication / reordering,
// truncation at a line or byte, splicing with a second header, inserted keywords, byte edits); a data file
// (exact, missing, short, empty, long, or exact for the sizes the mutated header declares); and the reader
// that gets the result.  "raw" cases carry the header text itself: that is what libFuzzer mutates byte by byte
// through the same decoder (gen() reads one byte per character from the fuzzer's input).
//
// Oracle (nothing else counts):
//   * a sanitizer report about memory / a crash (the process dies; the driver re-runs the journalled case);
//     UBSan reports about arithmetic on boundary numbers (float -> int conversion of NaN/inf/1e30, signed overflow) are
//     NOT part of the property text (no memory access, no allocation, no wrong size) and are counted separately
//     as "outside the property";
//   * one allocation request above 512 MiB while reading a header shorter than 4 KiB (with data files < 4 MiB);
//   * accepted data whose size contradicts the header: the reader returns an object although the data file is
//     shorter than offset + (number of elements of the returned object) x (bytes per pixel of the header);
//   * an accepted object that contradicts itself (sizes of the object vs. its own index ranges / proj-data-info);
//   * a header written by the library for valid data that the library refuses or reads back with other sizes.
// A null pointer, `false`, or any std::exception (error() throws std::runtime_error) is a clean rejection.
// Internal assert()s: the property speaks about Release behaviour, so they are switched off in the asan flavour
// (memory safety behind them is decided by ASan); in the plain flavour they stay on and count as rejection.
#include "c17_common.h"
#include "stir_gen.h"
#include "stir/IO/interfile.h"
#include "stir/IO/InterfileHeader.h"
#include "stir/IO/InterfileHeaderSiemens.h"
#include "stir/IO/InterfilePDFSHeaderSPECT.h"
#include "stir/IO/read_from_file.h"
#include "stir/MultipleDataSetHeader.h"
#include "stir/ProjData.h"
#include "stir/ProjDataFromStream.h"
#include "stir/ProjDataInfoCylindricalArcCorr.h"
#include "stir/DiscretisedDensity.h"
#include "stir/DynamicDiscretisedDensity.h"
#include "stir/modelling/ParametricDiscretisedDensity.h"
#include "stir/ExamInfo.h"
#include "stir/Radionuclide.h"
#include "stir/TimeFrameDefinitions.h"
#include "stir/ImagingModality.h"
#include "stir/PatientPosition.h"
#include "stir/NumericType.h"
#include "stir/ByteOrder.h"
#include "stir/Viewgram.h"
#include <sys/stat.h>
#include <sys/wait.h>
#include <signal.h>
#include <poll.h>
#include <fcntl.h>
#include <memory>
#include <set>
#include <map>

using namespace vf;
using namespace stir;

namespace {

enum HKind
{
  H_IMAGE,
  H_DYNAMIC,
  H_PARAMETRIC,
  H_PDFS,
  H_PDFS_TOF,
  H_SPECT,
  H_SIEMENS,
  H_MULTI,
  H_SIEMENS_LM, // Siemens list-mode header (InterfileListmodeHeaderSiemens): read through the header class, there is no reader function in the anchors
  H_NKINDS
};
const char* const KIND_NAME[] = { "image", "dynamic image", "parametric image", "projdata PET", "projdata PET TOF", "projdata SPECT", "projdata Siemens", "multi header",
                                  "listmode Siemens" };

enum Target
{
  T_IMAGE_FILE,
  T_READ_FROM_FILE_DENSITY,
  T_IMAGE_STREAM,
  T_DYNAMIC,
  T_PARAMETRIC,
  T_PDFS,
  T_PROJDATA_READ_FROM_FILE,
  T_MULTI,
  T_HEADER_CLASS,
  T_NTARGETS
};
const char* const TARGET_NAME[] = { "read_interfile_image(file)", "read_from_file<DiscretisedDensity>", "read_interfile_image(stream)",
                                    "read_interfile_dynamic_image", "read_interfile_parametric_image", "read_interfile_PDFS",
                                    "ProjData::read_from_file", "MultipleDataSetHeader::parse", "header class parse" };

const std::size_t MAX_DATA_BYTES = std::size_t(256) << 10; // data files are never larger than this
const std::size_t SMALL_INPUT = 4096;                      // the allocation clause speaks about inputs below this

// ---------------------------------------------------------------------------------------------------
// numeric types the library writes
struct NType
{
  NumericType::Type t;
  int bytes;
};
const NType NTYPES[] = { { NumericType::FLOAT, 4 }, { NumericType::SHORT, 2 }, { NumericType::USHORT, 2 }, { NumericType::INT, 4 }, { NumericType::SCHAR, 1 } };

// ---------------------------------------------------------------------------------------------------
// generators of the specs
json
gen_exam(Src& s)
{
  json e;
  e["modality"] = 0;
  e["start"] = s.chance(1, 3) ? long(s.range(1, 1500000000)) : 0L;
  e["calib"] = s.chance(1, 3) ? s.nice_real(0.5, 50.) : -1.;
  e["energy"] = s.chance(1, 3);
  e["orientation"] = int(s.range(0, 3));
  e["rotation"] = int(s.range(0, 5));
  e["nuclide"] = int(s.range(0, 2)); // 0 none, 1 F-18 (^18^Fluorine), 2 unknown name
  return e;
}

json
gen_image_spec(Src& s, int kind)
{
  json j;
  j["nx"] = int(s.range(1, 9));
  j["ny"] = int(s.range(1, 9));
  j["nz"] = int(s.range(1, 6));
  j["vx"] = s.nice_real(0.5, 5.);
  j["vy"] = s.nice_real(0.5, 5.);
  j["vz"] = s.nice_real(0.5, 5.);
  j["origin"] = s.coin();
  j["oz"] = s.nice_real(-20., 20.);
  j["ntype"] = int(s.range(0, 4));
  j["bo"] = int(s.range(0, 1));
  j["scale"] = s.chance(1, 3) ? s.nice_real(0.125, 8.) : 1.;
  j["frames"] = kind == H_DYNAMIC ? int(s.range(2, 3)) : (kind == H_PARAMETRIC ? 2 : 1);
  j["offset"] = s.chance(1, 4) ? int(s.range(1, 64)) : 0;
  j["exam"] = gen_exam(s);
  return j;
}

json
gen_pdfs_spec(Src& s, int kind)
{
  json j;
  vg::ScannerOpts so;
  so.max_ndet = 24;
  so.max_rings = 4;
  so.allow_tof = (kind == H_PDFS_TOF);
  so.allow_blocks = false; // (blocks geometry: a shrunk generated scanner passed its constructor but not check_consistency() when
                           //  read back; round trips of projection data are C02's subject, here only cylindrical scanners are written)
  so.allow_predefined = false;
  json sc;
  for (int guard = 0; guard < 20; ++guard)
    {
      sc = vg::gen_scanner(s, so);
      if (kind != H_PDFS_TOF || sc["tof_poss"].get<int>() > 0)
        break;
    }
  j["scanner"] = sc;
  vg::PdiOpts po;
  po.allow_arccorr = true;
  po.force_noarccorr = false;
  po.max_span = 5;
  if (kind == H_SPECT)
    {
      // one segment, arc-corrected (what write_basic_interfile_PDFS_header needs for the SPECT branch)
      json p;
      p["span"] = 1;
      p["max_delta"] = 0;
      p["views"] = sc["ndet"].get<int>() / 2;
      p["tang"] = int(s.range(2, std::max(2, sc["max_tang"].get<int>())));
      p["arccorr"] = true;
      p["tof_mash"] = 0;
      p["trim"] = json::object();
      p["radii"] = s.coin(); // non-circular orbit: the header gets a "Radii" list with one entry per view
      j["pdi"] = p;
    }
  else
    {
      auto scanner = vg::make_scanner(sc);
      json p = vg::gen_pdi(s, *scanner, po);
      if (kind == H_PDFS_TOF && sc["tof_poss"].get<int>() > 0 && p["tof_mash"].get<int>() == 0)
        p["tof_mash"] = 1; // TOF wanted
      if (kind == H_PDFS_TOF && (sc["tof_poss"].get<int>() % 2 == 0))
        p["tof_mash"] = 0; // an even number of TOF bins cannot be used unmashed: falls back to non-TOF
      j["pdi"] = p;
    }
  j["order"] = int(s.range(0, 1)); // 0 Segment_View_AxialPos_TangPos, 1 Segment_AxialPos_View_TangPos
  j["ntype"] = int(s.range(0, 3));
  j["bo"] = int(s.range(0, 1));
  j["scale"] = s.chance(1, 3) ? s.nice_real(0.125, 8.) : 1.;
  j["offset"] = s.chance(1, 4) ? int(s.range(1, 64)) : 0;
  j["segperm"] = long(s.range(0, 1 << 20));
  j["exam"] = gen_exam(s);
  return j;
}

shared_ptr<ExamInfo>
make_exam(const json& e, bool spect)
{
  shared_ptr<ExamInfo> x(new ExamInfo(spect ? ImagingModality::NM : ImagingModality::PT));
  x->start_time_in_secs_since_1970 = double(e["start"].get<long>());
  if (e["calib"].get<double>() > 0)
    x->set_calibration_factor(float(e["calib"].get<double>()));
  if (e["energy"].get<bool>())
    {
      x->set_low_energy_thres(430.F);
      x->set_high_energy_thres(610.F);
    }
  if (e.value("nuclide", 0) == 1 && !spect)
    x->set_radionuclide(Radionuclide("^18^Fluorine", 511.F, 0.9673F, 6584.04F, ImagingModality(ImagingModality::PT)));
  x->patient_position.set_orientation(static_cast<PatientPosition::OrientationValue>(e["orientation"].get<int>()));
  x->patient_position.set_rotation(static_cast<PatientPosition::RotationValue>(e["rotation"].get<int>()));
  return x;
}

// the Siemens sample header of the distribution (examples/samples/mMR_sinogram.s.hdr), with the 224 bucket
// singles lines cut down to 4 and the data file / offsets replaced
const char* const SIEMENS_TEMPLATE = R"(!INTERFILE:=
%comment:=Sinogram SubHeader for MR-PET VA20
!originating system:=2008
%SMS-MI header name space:=sinogram subheader
%SMS-MI version number:=3.4

!GENERAL DATA:=
%listmode header file:=
%listmode data file:=
!name of data file:=d.s
%compression:=off
%compressor version:=1.1

!GENERAL IMAGE DATA:=
%study date (yyyy:mm:dd):=2017:03:27
%study time (hh:mm:ss GMT+00:00):=17:33:38
isotope name:=F-18
isotope gamma halflife (sec):=6586.2
isotope branching factor:=0.97
radiopharmaceutical:=FDG
relative time of tracer injection (sec):=0
tracer activity at time of injection (Bq):=4.65e+007
injected volume (ml):=0.0
image data byte order:=LITTLEENDIAN
%patient orientation:=HFS
!PET data type:=emission
data format:=sinogram
number format:=signed integer
!number of bytes per pixel:=2
number of dimensions:=3
matrix axis label [1]:=bin
matrix axis label [2]:=projection
matrix axis label [3]:=plane
matrix size [1]:=344
matrix size [2]:=252
matrix size [3]:=4084
scale factor (mm/pixel) [1]:=2.0445
scale factor (degree/pixel) [2]:=0.714286
scale factor (mm/pixel) [3]:=2.03125
horizontal bed translation:=stepped
start horizontal bed position (mm):=0.0
end horizontal bed position (mm):=0.0
start vertical bed position (mm):=0.0
%axial compression:=11
%maximum ring difference:=60
number of rings:=64
%number of segments:=11
%segment table:={127,115,115,93,93,71,71,49,49,27,27}
%total number of sinograms:=837
%coincidence window width (ns):=5.85938
number of energy windows:=1
%energy window lower level (keV) [1]:=430
%energy window upper level (keV) [1]:=610
gantry tilt angle (degrees):=0.0
applied corrections:=
method of attenuation correction:=
method of scatter correction:=
%method of random correction:=none
%decay correction:=none
decay correction factor:=1
scatter fraction (%):=0.0
%number of TOF time bins:=1
%TOF mashing factor:=1
number of scan data types:=2
scan data type description [1]:=prompts
scan data type description [2]:=randoms
data offset in bytes [1]:=0
data offset in bytes [2]:=1000

!IMAGE DATA DESCRIPTION:=
!total number of data sets:=1
total prompts:=266376759
%total randoms:=51663853
%total net trues:=214712906
!image duration (sec):=1140
!image relative start time (sec):=0.0
%image duration from timing tags (msec):=1140012
%GIM loss fraction:=1
%PDR loss fraction:=1

%DETECTOR BLOCK SINGLES:=
%number of buckets:=4
%total uncorrected singles rate:=4865079
%bucket singles rate [1]:=20606
%bucket singles rate [2]:=20670
%bucket singles rate [3]:=20665
%bucket singles rate [4]:=20600
END OF INTERFILE :=
)";

// the Siemens list-mode sample header of the distribution (examples/samples/mMR_listmode.l.hdr), data file name replaced
const char* const SIEMENS_LM_TEMPLATE = R"(!INTERFILE:=
!originating system:=2008
%SMS-MI header name space:=PETLINK bin address
%SMS-MI version number:=3.4

!GENERAL DATA:=
!data offset in bytes:=0
name of data file:=d.s

!GENERAL IMAGE DATA:=
!type of data:=PET
%study date (yyyy:mm:dd):=2017:03:27
%study time (hh:mm:ss GMT+00:00):=17:00:35
isotope name:=F-18
isotope gamma halflife (sec):=6586.2
isotope branching factor:=0.97
radiopharmaceutical:=FDG
relative time of tracer injection (sec):=0
tracer activity at time of injection (Bq):=4.65e+007
injected volume (ml):=0
%tracer injection date (yyyy:mm:dd):=2017:03:27
%tracer injection time (hh:mm:ss GMT+00:00):=16:07:00
%patient orientation:=HFS
PET data type:=Emission
data format:=CoincidenceList
horizontal bed translation:=stepped
start horizontal bed position (mm):=0
end horizontal bed position (mm):=0
start vertical bed position (mm):=0
%bed zero offset (mm):=0
number of energy windows:=1
%energy window lower level (keV) [1]:=430
%energy window upper level (keV) [1]:=610

!PET STUDY (Emission data):=
PET scanner type:=cylindrical
transaxial FOV diameter (cm):=59.6
number of rings:=64
distance between rings (cm):=0.40625
gantry tilt angle (degrees):=0
gantry crystal radius (cm):=32.8
bin size (cm):=0.20445
septa state:=none
%number of TOF time bins:=1
%TOF mashing factor:=1

!IMAGE DATA DESCRIPTION:=
%preset type:=time
%preset value:=900
%preset unit:=seconds
image duration (sec):=900
%total listmode word counts:=331257106

%COINCIDENCE LIST DATA:=
%LM event and tag words format (bits):=32
%timing tagwords interval (msec):=1
%singles polling method:=instantaneous
%singles polling interval (sec):=2
%singles scale factor:=8
%total number of singles blocks:=224
%axial compression:=1
%maximum ring difference:=60
%number of projections:=344
%number of views:=252
%number of segments:=121
%segment table:={64, 63, 63, 62, 62, 61, 61, 60, 60, 59, 59, 58, 58, 57, 57, 56, 56, 55, 55, 54, 54, 53, 53, 52, 52, 51, 51, 50, 50, 49, 49, 48, 48, 47, 47, 46, 46, 45, 45, 44, 44, 43, 43, 42, 42, 41, 41, 40, 40, 39, 39, 38, 38, 37, 37, 36, 36, 35, 35, 34, 34, 33, 33, 32, 32, 31, 31, 30, 30, 29, 29, 28, 28, 27, 27, 26, 26, 25, 25, 24, 24, 23, 23, 22, 22, 21, 21, 20, 20, 19, 19, 18, 18, 17, 17, 16, 16, 15, 15, 14, 14, 13, 13, 12, 12, 11, 11, 10, 10, 9, 9, 8, 8, 7, 7, 6, 6, 5, 5, 4, 4}
%time_sync:=25934299
%comment:=PET/CT gantry offset during PET acquisition was x=0.000000mm, y=0.000000mm, z=0.000000mm
)";

// ---------------------------------------------------------------------------------------------------
// base header text (written by the library) + what the writer was told
struct Base
{
  std::string text;
  std::string ext = "hv"; // extension of the header file
  std::string data_name = "d.v";
  long elements = 0;      // elements per data set
  int bytes = 4;
  int datasets = 1;
  long offset = 0;
  std::vector<int> dims; // image: x,y,z
  long declared_bytes() const { return offset + long(datasets) * elements * bytes; }
};

Base
make_base(int kind, const json& spec)
{
  vg::quiet();
  Base b;
  const std::string dir = c17::scratch_dir();
  if (kind == H_IMAGE || kind == H_DYNAMIC || kind == H_PARAMETRIC)
    {
      const int nx = spec["nx"], ny = spec["ny"], nz = spec["nz"];
      const NType nt = NTYPES[spec["ntype"].get<int>() % 5];
      const int frames = spec["frames"].get<int>();
      auto exam = make_exam(spec["exam"], false);
      if (kind == H_DYNAMIC)
        {
          std::vector<double> st, du;
          for (int f = 0; f < frames; ++f)
            {
              st.push_back(10. * f);
              du.push_back(10.);
            }
          exam->set_time_frame_definitions(TimeFrameDefinitions(st, du));
        }
      else if (spec["exam"]["start"].get<long>() % 2 == 1)
        exam->set_time_frame_definitions(TimeFrameDefinitions(std::vector<double>{ 0. }, std::vector<double>{ 60. }));
      const IndexRange<3> range(make_coordinate(0, -(ny / 2), -(nx / 2)), make_coordinate(nz - 1, -(ny / 2) + ny - 1, -(nx / 2) + nx - 1));
      const CartesianCoordinate3D<float> voxel(spec["vz"].get<float>(), spec["vy"].get<float>(), spec["vx"].get<float>());
      CartesianCoordinate3D<float> origin(0.F, 0.F, 0.F);
      if (spec["origin"].get<bool>())
        origin = CartesianCoordinate3D<float>(spec["oz"].get<float>(), 0.F, 0.F);
      b.elements = long(nx) * ny * nz;
      b.bytes = nt.bytes;
      b.datasets = frames;
      b.offset = spec["offset"].get<int>();
      VectorWithOffset<float> scales(frames);
      VectorWithOffset<unsigned long> offsets(frames);
      for (int f = 0; f < frames; ++f)
        {
          scales[f] = spec["scale"].get<float>();
          offsets[f] = (unsigned long)(b.offset + long(f) * b.elements * b.bytes);
        }
      std::vector<std::string> descr;
      if (kind == H_PARAMETRIC)
        {
          descr.push_back("slope");
          descr.push_back("intercept");
        }
      write_basic_interfile_image_header(dir + "/d.hv", dir + "/d.v", *exam, range, voxel, origin, NumericType(nt.t),
                                         spec["bo"].get<int>() ? ByteOrder::big_endian : ByteOrder::little_endian, scales, offsets, descr);
      b.text = c17::read_file(dir + "/d.hv");
      b.dims = { nx, ny, nz };
      return b;
    }
  if (kind == H_PDFS || kind == H_PDFS_TOF || kind == H_SPECT)
    {
      auto scanner = vg::make_scanner(spec["scanner"]);
      auto pdi = vg::make_pdi(scanner, spec["pdi"]);
      auto exam = make_exam(spec["exam"], kind == H_SPECT);
      if (kind == H_SPECT && spec["pdi"].value("radii", false))
        if (auto* cyl = dynamic_cast<ProjDataInfoCylindrical*>(pdi.get()))
          {
            VectorWithOffset<float> r = cyl->get_ring_radii_for_all_views();
            for (int i = r.get_min_index(); i <= r.get_max_index(); ++i)
              r[i] += float(1 + (i % 3)); // mm
            cyl->set_ring_radii_for_all_views(r);
          }
      const NType nt = NTYPES[spec["ntype"].get<int>() % 4];
      // segment order in the stream: a permutation derived from the seed
      std::vector<int> seq;
      for (int sgm = pdi->get_min_segment_num(); sgm <= pdi->get_max_segment_num(); ++sgm)
        seq.push_back(sgm);
      SplitMix g{ uint64_t(spec["segperm"].get<long>()) };
      if (spec["segperm"].get<long>() % 3 != 0)
        for (std::size_t i = seq.size(); i > 1; --i)
          std::swap(seq[i - 1], seq[std::size_t(g.range(0, long(i) - 1))]);
      const bool tof = pdi->get_num_tof_poss() > 1;
      ProjDataFromStream::StorageOrder order = spec["order"].get<int>() == 0 ? ProjDataFromStream::Segment_View_AxialPos_TangPos
                                                                              : ProjDataFromStream::Segment_AxialPos_View_TangPos;
      if (tof)
        order = ProjDataFromStream::Timing_Segment_View_AxialPos_TangPos; // the only TOF order the writer supports
      if (kind == H_SPECT)
        {
          order = ProjDataFromStream::Segment_View_AxialPos_TangPos;
          seq = { 0 };
        }
      shared_ptr<std::iostream> str(new std::stringstream);
      b.offset = spec["offset"].get<int>();
      ProjDataFromStream pdfs(exam, pdi, str, std::streamoff(b.offset), seq, order, NumericType(nt.t),
                              spec["bo"].get<int>() ? ByteOrder::big_endian : ByteOrder::little_endian, spec["scale"].get<float>());
      write_basic_interfile_PDFS_header(dir + "/d.hs", dir + "/d.s", pdfs);
      b.text = c17::read_file(dir + "/d.hs");
      b.ext = "hs";
      b.data_name = "d.s";
      b.elements = long(pdi->size_all());
      b.bytes = nt.bytes;
      return b;
    }
  if (kind == H_SIEMENS_LM)
    {
      b.text = SIEMENS_LM_TEMPLATE;
      b.ext = "hs";
      b.data_name = "d.s";
      b.elements = 0;
      b.bytes = 4;
      return b;
    }
  if (kind == H_SIEMENS)
    {
      b.text = SIEMENS_TEMPLATE;
      b.ext = "hs";
      b.data_name = "d.s";
      b.elements = 344L * 252 * 837;
      b.bytes = 2;
      return b;
    }
  // multi header
  {
    std::vector<std::string> names;
    const int n = 1 + int(spec.value("n", 2)) % 4;
    for (int i = 0; i < n; ++i)
      names.push_back("part" + std::to_string(i) + ".hv");
    MultipleDataSetHeader::write_header(dir + "/d.txt", names);
    b.text = c17::read_file(dir + "/d.txt");
    b.ext = "txt";
    b.data_name = "";
    b.elements = n;
    return b;
  }
}

// ---------------------------------------------------------------------------------------------------
// mini parser of a header text (for the oracle's bookkeeping only; conservative: anything ambiguous is "unknown")
struct KV
{
  std::string key; // standardised
  bool has_index = false;
  long index = 0;
  std::string value; // trimmed
};
std::vector<KV>
mini_parse(const std::string& text)
{
  std::vector<KV> out;
  std::vector<std::string> phys = c17::split_lines(text);
  std::string line;
  for (std::size_t i = 0; i < phys.size(); ++i)
    {
      std::string l = phys[i];
      if (!l.empty() && l.back() == '\r')
        l.pop_back();
      line += l;
      if (!line.empty() && line.back() == '\\' && i + 1 < phys.size())
        {
          line.pop_back();
          continue;
        }
      const auto assign = line.find(":=");
      if (assign != std::string::npos)
        {
          KV kv;
          std::string k = line.substr(0, assign);
          const auto br = k.find('[');
          if (br != std::string::npos)
            {
              kv.has_index = true;
              kv.index = std::atol(k.c_str() + br + 1);
              k = k.substr(0, br);
            }
          kv.key = c17::ref_standardise(k);
          std::string v = line.substr(assign + 2);
          const auto a = v.find_first_not_of(" \t");
          const auto z = v.find_last_not_of(" \t");
          kv.value = a == std::string::npos ? "" : v.substr(a, z - a + 1);
          out.push_back(kv);
        }
      line.clear();
    }
  return out;
}
//! value of a key that occurs exactly once (with the given index or without index); false if absent/ambiguous
bool
unique_value(const std::vector<KV>& kvs, const std::string& key, long index, std::string& value, int& occurrences)
{
  occurrences = 0;
  for (const KV& kv : kvs)
    if (kv.key == key && (index < 0 || !kv.has_index || kv.index == index))
      {
        ++occurrences;
        value = kv.value;
      }
  return occurrences == 1;
}
bool
as_long(const std::string& v, long& x)
{
  if (v.empty())
    return false;
  char* e = nullptr;
  errno = 0;
  x = std::strtol(v.c_str(), &e, 10);
  return errno == 0 && e && *e == 0;
}

// ---------------------------------------------------------------------------------------------------
// mutations
const char* const BOUNDARY[] = { "0", "-1", "1", "2", "3", "5", "2147483647", "2147483648", "-2147483648", "4294967296", "65536", "100000",
                                 "2000000000", "1e30", "-1e30", "1e-30", "nan", "inf", "", "  ", "{}", "{1}", "{1,2,3}", "{", "{1,", "x", "0x10", "1.5",
                                 "9999999999999999999999", "{0}", "{-1}", "{1,1,1,1,1,1,1,1,1,1,1,1,1,1,1,1,1,1,1,1,1,1,1,1,1,1,1,1,1,1,1,1}", "{2147483647}",
                                 "@LONG@", "STIR3.0", "3.3", "PT", "NM", "Tomographic", "PET", "Static", "Emission", "Image", "float", "signed integer", "bit",
                                 "ascii", "LITTLEENDIAN", "BIGENDIAN", "Cylindrical", "BlocksOnCylindrical", "Generic", "timing positions", "segment", "view",
                                 "axial coordinate", "tangential coordinate", "circular", "non-circular", "cw", "ccw", "None", "on", "arc correction", "../d.v",
                                 "/dev/null", "/dev/zero", "." };
const int NBOUNDARY = int(sizeof(BOUNDARY) / sizeof(BOUNDARY[0]));
const char* const INDEXVALS[] = { "0", "-1", "1", "2", "3", "4", "5", "6", "99", "2147483647", "4294967297", "*", "", " 2 ", "x", "1][2" };
const int NINDEXVALS = int(sizeof(INDEXVALS) / sizeof(INDEXVALS[0]));
const char* const KEYWORDS[] = { "number of dimensions", "matrix size [%]", "matrix axis label [%]", "scaling factor (mm/pixel) [%]", "number of time frames",
                                 "image duration (sec)[%]", "image relative start time (sec)[%]", "number of energy windows", "energy window lower level[%]",
                                 "energy window upper level[%]", "number of image data types", "image data type description[%]", "index nesting level",
                                 "data offset in bytes[%]", "image scaling factor[%]", "quantification units", "number of bytes per pixel", "number format",
                                 "imagedata byte order", "type of data", "PET data type", "imaging modality", "version of keys", "name of data file",
                                 "originating system", "first pixel offset (mm) [%]", "minimum ring difference per segment", "maximum ring difference per segment",
                                 "TOF mashing factor", "number of rings", "number of detectors per ring", "Maximum number of (unmashed) TOF time bins",
                                 "TOF bin order", "applied corrections", "Scanner geometry (BlocksOnCylindrical/Cylindrical/Generic)", "number of projections",
                                 "orbit", "radius", "radii", "extent of rotation", "direction of rotation", "%sms-mi version number", "%number of segments",
                                 "%segment table", "%axial compression", "%maximum ring difference", "number of scan data types", "%number of buckets",
                                 "%bucket singles rate[%]", "total number of data sets", "data set[%]", "patient orientation", "patient rotation", "study date",
                                 "study_time", "radionuclide name[%]", "radionuclide halflife (sec)[%]", "calibration factor", "isotope name", "process status",
                                 "END OF INTERFILE", "INTERFILE", "Name of crystal map", "data offset in bytes", "image duration (sec)",
                                 "%number of normalization components", "%matrix size[%]", "number of dimensions[%]", "%number of projections",
                                 "%number of views", "%number of tof time bins", "%tof mashing factor", "start angle", "effective central bin size (cm)",
                                 "inner ring diameter (cm)", "distance between rings (cm)", "default bin size (cm)", "view offset (degrees)",
                                 "Maximum number of non-arc-corrected bins", "Default number of arc-corrected bins",
                                 "number of blocks_per_bucket in axial direction", "number of crystals_per_block in transaxial direction",
                                 "number of crystals_per_singles_unit in axial direction", "number of detector layers", "Size of unmashed TOF time bins (ps)",
                                 "TOF timing resolution (ps)", "start horizontal bed position (mm)" };
const int NKEYWORDS = int(sizeof(KEYWORDS) / sizeof(KEYWORDS[0]));

std::string
boundary_value(int b)
{
  const std::string v = BOUNDARY[((b % NBOUNDARY) + NBOUNDARY) % NBOUNDARY];
  if (v == "@LONG@")
    return std::string(1100, 'a') + ".v"; // longer than max_filename_length
  return v;
}

struct LineParts
{
  std::string key, index, rest; // key [index] := rest ; has flags
  bool has_index = false, has_assign = false;
};
LineParts
parts(const std::string& l)
{
  LineParts p;
  const auto as = l.find(":=");
  if (as == std::string::npos)
    {
      p.key = l;
      return p;
    }
  p.has_assign = true;
  std::string k = l.substr(0, as);
  p.rest = l.substr(as + 2);
  const auto br = k.find('[');
  const auto bre = k.find(']');
  if (br != std::string::npos && bre != std::string::npos && bre > br)
    {
      p.has_index = true;
      p.index = k.substr(br + 1, bre - br - 1);
      p.key = k.substr(0, br);
    }
  else
    p.key = k;
  return p;
}
std::string
unparts(const LineParts& p)
{
  if (!p.has_assign)
    return p.key;
  return p.key + (p.has_index ? "[" + p.index + "]" : "") + ":=" + p.rest;
}

// ---------------------------------------------------------------------------------------------------
// list-length mutations (operation 12): ONE list-valued key or ONE family of vectorised keys "key[1..n]" of the header is
// made shorter by k, longer by k or empty, while every other line stays as the library wrote it.  The keys are the ones whose
// length has to agree with a count keyword or with sibling lists:
//   InterfilePDFSHeader::post_processing  min/max ring difference per segment and the axial "matrix size" list vs. the number of
//                                         segments ("per-segment information is inconsistent"), "TOF bin order" vs. the number of
//                                         TOF bins ("Inconsistent number of TOF bins ... and size of the 'TOF bin order' list")
//   InterfileHeader::post_processing      "image scaling factor[f]" list: 1 or (last matrix size) entries ("wrong number of image
//                                         scaling factors"); every "matrix size[d]" needs >= 1 entry
//   InterfileImageHeader::post_processing every matrix size list has exactly 1 entry ("homogeneous dimensions")
//   InterfilePDFSHeaderSPECT              "radii" vs. "number of projections" for non-circular orbits
//   InterfileRawDataHeaderSiemens         "%segment table" vs. "%number of segments"
//   KeyParser assign_to_list              key[i] with i above the size given by the count keyword is an error()
//                                         (number of dimensions / time frames / energy windows / image data types / scan data types /
//                                          %number of buckets / total number of data sets)
const int NOPS = 13;
const int OP_LIST_LENGTH = 12;
enum ListMode
{
  LM_SHORTER,
  LM_LONGER,
  LM_EMPTY,
  LM_SAME,
  LM_NMODES
};
const char* const LIST_MODE_NAME[] = { "shorter", "longer", "empty", "same length" };
struct ListFamily
{
  const char* name; // name in the statistics
  const char* key;  // standardised keyword
  char type;        // 'V' family of vectorised keys key[1..n]; 'L' value list {..}; 'S' single value of a list-typed key made a list;
                    // 'T' "TOF bin order" (inserted when absent); 'F' value list of "image scaling factor[1]" (inserted when absent)
};
const ListFamily LIST_FAMILIES[] = {
  { "minimum ring difference per segment {..}", "minimum ring difference per segment", 'L' }, // 0
  { "maximum ring difference per segment {..}", "maximum ring difference per segment", 'L' }, // 1
  { "matrix size[axial] {..}", "matrix size", 'L' },                                           // 2
  { "applied corrections {..}", "applied corrections", 'L' },                                 // 3
  { "TOF bin order {..}", "tof bin order", 'T' },                                             // 4
  { "matrix size[i]", "matrix size", 'V' },                                                   // 5
  { "matrix axis label[i]", "matrix axis label", 'V' },                                       // 6
  { "scaling factor (mm/pixel)[i]", "scaling factor (mm/pixel)", 'V' },                       // 7
  { "first pixel offset (mm)[i]", "first pixel offset (mm)", 'V' },                           // 8
  { "image duration (sec)[i]", "image duration (sec)", 'V' },                                 // 9
  { "image relative start time (sec)[i]", "image relative start time (sec)", 'V' },           // 10
  { "energy window lower level[i]", "energy window lower level", 'V' },                       // 11
  { "energy window upper level[i]", "energy window upper level", 'V' },                       // 12
  { "image scaling factor[i]", "image scaling factor", 'V' },                                 // 13
  { "data offset in bytes[i]", "data offset in bytes", 'V' },                                 // 14
  { "image data type description[i]", "image data type description", 'V' },                   // 15
  { "radionuclide name[i]", "radionuclide name", 'V' },                                       // 16
  { "radionuclide halflife (sec)[i]", "radionuclide halflife (sec)", 'V' },                   // 17
  { "radionuclide branching factor[i]", "radionuclide branching factor", 'V' },               // 18
  { "image scaling factor[1] {..}", "image scaling factor", 'F' },                            // 19
  { "matrix size[i] single value -> {..}", "matrix size", 'S' },                              // 20
  { "index nesting level {..}", "index nesting level", 'L' },                                 // 21
  { "radii {..}", "radii", 'L' },                                                             // 22
  { "%segment table {..}", "%segment table", 'L' },                                           // 23
  { "%bucket singles rate[i]", "%bucket singles rate", 'V' },                                 // 24
  { "scan data type description[i]", "scan data type description", 'V' },                     // 25
  { "%energy window lower level (keV)[i]", "%energy window lower level (kev)", 'V' },         // 26
  { "%energy window upper level (keV)[i]", "%energy window upper level (kev)", 'V' },         // 27
  { "data set[i]", "data set", 'V' },                                                         // 28
  { "scale factor (mm/pixel)[i]", "scale factor (mm/pixel)", 'V' },                           // 29
};
const int NLISTFAM = int(sizeof(LIST_FAMILIES) / sizeof(LIST_FAMILIES[0]));
//! families that occur in (or can be inserted into) the headers of each kind; the generator draws from these
const std::vector<int>&
list_families_of_kind(int kind)
{
  static const std::vector<int> image = { 5, 6, 7, 8, 9, 10, 11, 12, 13, 14, 16, 17, 19, 20 };
  static const std::vector<int> dynamic = { 5, 6, 7, 8, 9, 10, 11, 12, 13, 14, 16, 19, 20 };
  static const std::vector<int> parametric = { 5, 6, 7, 8, 9, 10, 13, 14, 15, 19, 20, 21 };
  static const std::vector<int> pdfs = { 0, 1, 2, 3, 5, 6, 9, 10, 11, 12, 13, 14, 16, 19, 20 };
  static const std::vector<int> pdfs_tof = { 0, 1, 2, 3, 4, 4, 5, 6, 9, 10, 13, 14, 19, 20 };
  static const std::vector<int> spect = { 5, 7, 16, 20, 22, 22 };
  static const std::vector<int> siemens = { 3, 5, 6, 14, 20, 23, 23, 24, 25, 26, 27, 29 };
  static const std::vector<int> multi = { 28 };
  static const std::vector<int> siemens_lm = { 23, 23, 26, 27 };
  switch (kind)
    {
    case H_SIEMENS_LM:
      return siemens_lm;
    case H_IMAGE:
      return image;
    case H_DYNAMIC:
      return dynamic;
    case H_PARAMETRIC:
      return parametric;
    case H_PDFS:
      return pdfs;
    case H_PDFS_TOF:
      return pdfs_tof;
    case H_SPECT:
      return spect;
    case H_SIEMENS:
      return siemens;
    default:
      return multi;
    }
}

std::vector<std::string> g_list_log; // "<family>: <mode>" of every list-length mutation that was applied to the current case

std::string
trim_blanks(const std::string& v)
{
  const auto a = v.find_first_not_of(" \t\r");
  const auto z = v.find_last_not_of(" \t\r");
  return a == std::string::npos ? std::string() : v.substr(a, z - a + 1);
}
//! elements of "{a, b, c}" (top level only); a value without braces is one element; "" and "{}" have none
std::vector<std::string>
list_elements(const std::string& value)
{
  std::vector<std::string> e;
  std::string v = trim_blanks(value);
  if (v.empty())
    return e;
  if (v.front() != '{')
    {
      e.push_back(v);
      return e;
    }
  v = v.substr(1);
  if (!v.empty() && v.back() == '}')
    v.pop_back();
  std::string cur;
  int depth = 0;
  for (char ch : v)
    {
      if (ch == '{')
        ++depth;
      if (ch == '}')
        --depth;
      if (ch == ',' && depth == 0)
        {
          e.push_back(trim_blanks(cur));
          cur.clear();
        }
      else
        cur += ch;
    }
  if (!trim_blanks(cur).empty() || !e.empty())
    e.push_back(trim_blanks(cur));
  return e;
}
std::string
list_text(const std::vector<std::string>& e, long style)
{
  std::string o = (style % 2) ? "{ " : "{";
  for (std::size_t i = 0; i < e.size(); ++i)
    o += (i ? ((style / 2) % 2 ? ", " : ",") : "") + e[i];
  return o + "}";
}
bool
positive_index(const std::string& ix, long& v)
{
  return as_long(trim_blanks(ix), v) && v >= 1 && v < 100000;
}

//! returns true if the text was changed (or, for "same length", rewritten)
bool
list_length_mutation(std::vector<std::string>& lines, long a, long b, long c)
{
  const ListFamily& fam = LIST_FAMILIES[a % NLISTFAM];
  const int mode = int(b % LM_NMODES);
  const long k = 1 + (b / LM_NMODES) % 3; // by how many entries
  const std::string what = std::string(fam.name) + ": " + LIST_MODE_NAME[mode];
  const std::string key = fam.key;
  auto std_key = [](const LineParts& p) { return c17::ref_standardise(p.key); };
  // position in front of the stop key (for inserted lines)
  auto before_stop = [&]() {
    for (std::size_t i = 0; i < lines.size(); ++i)
      {
        const std::string sk = c17::ref_standardise(parts(lines[i]).key);
        if (sk == "end of interfile" || sk == "end")
          return i;
      }
    return lines.size();
  };
  switch (fam.type)
    {
    case 'V':
      {
        std::map<long, std::size_t> at; // index -> line (last occurrence)
        for (std::size_t i = 0; i < lines.size(); ++i)
          {
            const LineParts p = parts(lines[i]);
            long ix = 0;
            if (p.has_assign && p.has_index && std_key(p) == key && positive_index(p.index, ix))
              at[ix] = i;
          }
        if (at.empty())
          return false;
        const long n = at.rbegin()->first;
        if (mode == LM_SAME)
          break;
        if (mode == LM_LONGER)
          {
            const std::size_t li = at.rbegin()->second;
            LineParts p = parts(lines[li]);
            for (long j = k; j >= 1; --j)
              {
                p.index = std::to_string(n + j);
                lines.insert(lines.begin() + std::ptrdiff_t(li) + 1, unparts(p));
              }
            break;
          }
        const long keep = mode == LM_EMPTY ? 0 : std::max(0L, n - std::min(k, std::max(1L, n - 1)));
        std::vector<std::size_t> del;
        for (const auto& kv : at)
          if (kv.first > keep)
            del.push_back(kv.second);
        std::sort(del.begin(), del.end());
        for (std::size_t j = del.size(); j-- > 0;)
          lines.erase(lines.begin() + std::ptrdiff_t(del[j]));
      }
      break;
    case 'L':
    case 'S':
      {
        std::vector<std::size_t> cand;
        for (std::size_t i = 0; i < lines.size(); ++i)
          {
            const LineParts p = parts(lines[i]);
            if (!p.has_assign || std_key(p) != key)
              continue;
            const std::string v = trim_blanks(p.rest);
            const bool braces = !v.empty() && v.front() == '{';
            if ((fam.type == 'L' && braces) || (fam.type == 'S' && !braces && !v.empty() && p.has_index))
              cand.push_back(i);
          }
        if (cand.empty())
          return false;
        const std::size_t li = cand[std::size_t(c / 8) % cand.size()];
        LineParts p = parts(lines[li]);
        std::vector<std::string> e = list_elements(p.rest);
        if (e.empty())
          e.push_back("1");
        if (mode == LM_EMPTY)
          p.rest = (c % 3 == 0) ? " {}" : (c % 3 == 1) ? " { }" : "";
        else
          {
            if (mode == LM_LONGER)
              for (long j = 0; j < k; ++j)
                {
                  if (c % 2 == 0)
                    e.push_back(e.back());
                  else
                    e.insert(e.begin(), e.front());
                }
            else if (mode == LM_SHORTER)
              {
                const long drop = std::min<long>(k, long(e.size()) - 1);
                if (drop <= 0)
                  e.clear(); // a list of one entry can only become empty
                else if (c % 2 == 0)
                  e.resize(e.size() - std::size_t(drop));
                else
                  e.erase(e.begin(), e.begin() + drop);
              }
            p.rest = " " + list_text(e, c / 2);
          }
        lines[li] = unparts(p);
      }
      break;
    case 'T':
    case 'F':
      {
        // the length the list has to have: 'T' the number of TOF bins = matrix size [5]; 'F' the LAST matrix size
        // (InterfileHeader::post_processing: matrix_size[matrix_size.size() - 1][0])
        long want = -1, last_ix = 0;
        for (const std::string& l : lines)
          {
            const LineParts p = parts(l);
            long ix = 0;
            if (p.has_assign && p.has_index && std_key(p) == "matrix size" && positive_index(p.index, ix))
              {
                const std::vector<std::string> e = list_elements(p.rest);
                long v = 0;
                if (e.empty() || !as_long(e[0], v))
                  continue;
                if (fam.type == 'T' ? ix == 5 : ix >= last_ix)
                  {
                    want = v;
                    last_ix = ix;
                  }
              }
          }
        if (want < 1 || want > 200)
          return false;
        const long m = mode == LM_EMPTY ? 0 : mode == LM_SAME ? want : mode == LM_LONGER ? want + k : std::max(0L, want - k);
        std::vector<std::string> e;
        std::size_t li = lines.size();
        std::string first = "1";
        for (std::size_t i = 0; i < lines.size(); ++i)
          {
            const LineParts p = parts(lines[i]);
            if (p.has_assign && std_key(p) == key && (fam.type == 'T' || trim_blanks(p.index) == "1"))
              {
                li = i;
                const std::vector<std::string> old = list_elements(p.rest);
                if (!old.empty())
                  first = old[0];
              }
          }
        if (fam.type == 'T')
          { // a permutation of the TOF bin numbers -(m/2) ... : the natural order rotated
            const long lo = -(m / 2);
            for (long j = 0; j < m; ++j)
              e.push_back(std::to_string(lo + (j + c / 4) % std::max(1L, m)));
          }
        else
          e.assign(std::size_t(m), first);
        const std::string line = std::string(fam.type == 'T' ? "TOF bin order" : "image scaling factor[1]") + " := " + list_text(e, c / 2);
        if (li < lines.size())
          lines[li] = line;
        else
          lines.insert(lines.begin() + std::ptrdiff_t(before_stop()), line);
      }
      break;
    default:
      return false;
    }
  g_list_log.push_back(what);
  return true;
}

std::string
mutate(const std::string& base, const std::string& other, const json& muts)
{
  std::vector<std::string> lines = c17::split_lines(base);
  const std::vector<std::string> olines = c17::split_lines(other);
  std::string text;
  bool as_text = false; // once a byte-level operation was used the line structure is gone
  auto flush = [&]() {
    if (!as_text)
      {
        text = c17::join_lines(lines);
        as_text = true;
      }
  };
  auto unflush = [&]() {
    if (as_text)
      {
        lines = c17::split_lines(text);
        as_text = false;
      }
  };
  for (const auto& m : muts)
    {
      const int op = int(((m[0].get<long>() % NOPS) + NOPS) % NOPS);
      const long a = std::labs(m[1].get<long>()), b = std::labs(m[2].get<long>()), c = std::labs(m[3].get<long>());
      if (op <= 8 || op == OP_LIST_LENGTH)
        unflush();
      const std::size_t n = lines.size();
      switch (op)
        {
        case 0: // replace a value by a boundary value
          if (n)
            {
              // only lines with ":=" are candidates
              std::vector<std::size_t> cand;
              for (std::size_t i = 0; i < n; ++i)
                if (lines[i].find(":=") != std::string::npos)
                  cand.push_back(i);
              if (cand.empty())
                break;
              const std::size_t i = cand[std::size_t(a) % cand.size()];
              LineParts p = parts(lines[i]);
              p.rest = " " + boundary_value(int(b));
              lines[i] = unparts(p);
            }
          break;
        case 1: // change an index
          {
            std::vector<std::size_t> cand;
            for (std::size_t i = 0; i < n; ++i)
              if (parts(lines[i]).has_index)
                cand.push_back(i);
            if (cand.empty())
              break;
            const std::size_t i = cand[std::size_t(a) % cand.size()];
            LineParts p = parts(lines[i]);
            if (c % 3 == 0)
              p.has_index = false; // drop the index
            else
              p.index = INDEXVALS[b % NINDEXVALS];
            lines[i] = unparts(p);
          }
          break;
        case 2: // delete a line
          if (n)
            lines.erase(lines.begin() + std::ptrdiff_t(a % n));
          break;
        case 3: // duplicate a line somewhere else
          if (n)
            {
              const std::string l = lines[a % n];
              lines.insert(lines.begin() + std::ptrdiff_t(b % (n + 1)), l);
            }
          break;
        case 4: // swap two lines
          if (n)
            std::swap(lines[a % n], lines[b % n]);
          break;
        case 5: // truncate at a line
          if (n)
            lines.resize(a % n);
          break;
        case 6: // splice: tail of the other header
          if (n && !olines.empty())
            {
              lines.resize(a % n);
              for (std::size_t i = b % olines.size(); i < olines.size(); ++i)
                lines.push_back(olines[i]);
            }
          break;
        case 7: // insert a keyword of the grammar with a boundary value
          {
            std::string k = KEYWORDS[a % NKEYWORDS];
            const auto pc = k.find('%', 1); // the index placeholder is a '%' that is not the first character
            if (pc != std::string::npos && pc + 1 < k.size() && k[pc + 1] == ']')
              k = k.substr(0, pc) + std::to_string(1 + (c / 64) % 6) + k.substr(pc + 1);
            lines.insert(lines.begin() + std::ptrdiff_t(c % (n + 1)), k + " := " + boundary_value(int(b)));
          }
          break;
        case 8: // add an index to a line without one
          if (n)
            {
              LineParts p = parts(lines[a % n]);
              if (p.has_assign && !p.has_index)
                {
                  p.has_index = true;
                  p.index = INDEXVALS[b % NINDEXVALS];
                  lines[a % n] = unparts(p);
                }
            }
          break;
        case 9: // truncate at a byte
          flush();
          if (!text.empty())
            text.resize(std::size_t(a) % text.size());
          break;
        case 10: // overwrite a byte
          flush();
          if (!text.empty())
            text[std::size_t(a) % text.size()] = char(b % 256);
          break;
        case 11: // insert bytes
          flush();
          {
            static const char* snippets[] = { "\\\n", "\r", "[", "]", ":=", "{", "}", ",", "${HOME}", "${", "!", "\t", ";", "\n\n", "\0x" };
            text.insert(std::size_t(a) % (text.size() + 1), snippets[b % 15]);
          }
          break;
        case OP_LIST_LENGTH: // one list / vectorised family longer, shorter or empty; everything else untouched
          (void)list_length_mutation(lines, a, b, c);
          break;
        }
    }
  flush();
  return text;
}

// ---------------------------------------------------------------------------------------------------
// known findings: signatures computed from the final text (+ reader); "" = not excluded.
// One class is left (all others were repaired in the library; their inputs are regression cases under replays/C17/):
//   F7  the sizes given by "matrix size" drive allocations before the data file is looked at: the image readers allocate
//       prod(matrix size) floats (create_image_and_header_from), and InterfileHeader::post_processing() gives every data
//       set a list of (last matrix size) scale factors.  Known finding: the repair needs the data file to be examined
//       before anything is allocated, in the header class and in three readers.
const char* const SIG_F7 = "C17:alloc:matrix sizes of the header drive allocations > 256 MiB before the data file is checked";
// (F17, read_interfile_parametric_image() writing data set 3.. behind the 2 parameters of a voxel, was repaired in the library:
//  regression input replays/C17/fixed_parametric_image_more_than_two_data_types.json)

std::string
known_signature_of(const std::string& text, int target, int sub)
{
  const std::vector<KV> kvs = mini_parse(text);
  auto first_number = [](const std::string& v) {
    std::string t = v;
    for (char& ch : t)
      if (ch == '{' || ch == '}' || ch == ',')
        ch = ' ';
    return std::strtod(t.c_str(), nullptr);
  };
  double prod = 1, largest = 0;
  for (int k = 1; k <= 3; ++k)
    {
      double mx = 0;
      for (const KV& kv : kvs)
        if (kv.key == "matrix size" && kv.has_index && kv.index == k)
          mx = std::max(mx, first_number(kv.value));
      prod *= std::max(mx, 1.);
    }
  // (both spellings: the Siemens norm header uses "%matrix size")
  for (const KV& kv : kvs)
    if (kv.key == "matrix size" || kv.key == "%matrix size")
      largest = std::max(largest, first_number(kv.value));
  const bool image_reader = target <= T_PARAMETRIC || (target == T_HEADER_CLASS && sub % 7 == 0);
  if (image_reader && prod * 4. > 256. * 1024 * 1024)
    return SIG_F7;
  // the list of scale factors: (last matrix size) doubles per data set, for every kind of header
  if (largest * 8. > 256. * 1024 * 1024)
    return SIG_F7;
  return "";
}

// ---------------------------------------------------------------------------------------------------
// generator
json
gen_muts(Src& s, int size)
{
  json muts = json::array();
  const int n = int(s.small(0, 1 + size / 12));
  for (int i = 0; i < n; ++i)
    {
      // line-level operations dominate; byte-level ones are what the fuzzer is for
      long op = s.range(0, 99);
      op = op < 28 ? 0 : op < 30 ? OP_LIST_LENGTH : op < 40 ? 1 : op < 50 ? 2 : op < 58 ? 3 : op < 63 ? 4 : op < 68 ? 5 : op < 72 ? 6 : op < 88 ? 7 : op < 91 ? 8 : op < 94 ? 9 : op < 97 ? 10 : 11;
      muts.push_back({ op, long(s.range(0, 4095)), long(s.range(0, 4095)), long(s.range(0, 4095)) });
    }
  return muts;
}

int
natural_target(Src& s, int kind)
{
  switch (kind)
    {
    case H_IMAGE:
      return int(s.range(T_IMAGE_FILE, T_IMAGE_STREAM));
    case H_DYNAMIC:
      return T_DYNAMIC;
    case H_PARAMETRIC:
      return T_PARAMETRIC;
    case H_MULTI:
      return T_MULTI;
    case H_SIEMENS_LM:
      return T_HEADER_CLASS; // with sub = 4
    default:
      return s.coin() ? T_PDFS : T_PROJDATA_READ_FROM_FILE;
    }
}

json
gen_spec(Src& s, int kind)
{
  if (kind <= H_PARAMETRIC)
    return gen_image_spec(s, kind);
  if (kind <= H_SPECT)
    return gen_pdfs_spec(s, kind);
  json j;
  j["n"] = int(s.range(0, 3));
  return j;
}

//! a "list-length" case: a library-written header of a kind, ONE (sometimes two) list-length mutation(s), the natural reader,
//! a complete data file.  Negative arguments are drawn.
json
gen_list_case(Src& s, int kind, int fam, int lmode, int amount)
{
  json c;
  c["raw"] = false;
  if (kind < 0)
    { // projection data headers carry most of the lists
      static const std::vector<int> kinds = { H_IMAGE, H_DYNAMIC, H_PARAMETRIC, H_PDFS, H_PDFS, H_PDFS, H_PDFS_TOF, H_PDFS_TOF, H_PDFS_TOF, H_SPECT, H_SIEMENS, H_MULTI, H_SIEMENS_LM };
      kind = int(s.pick(kinds));
    }
  c["kind"] = kind;
  c["spec"] = gen_spec(s, kind);
  {
    // the writer only writes some of the lists for non-default data: make them appear
    json& sp = c["spec"];
    if (kind <= H_SPECT)
      {
        sp["exam"]["energy"] = true;
        sp["exam"]["nuclide"] = 1;
        if (sp["exam"]["start"].get<long>() % 2 == 0)
          sp["exam"]["start"] = sp["exam"]["start"].get<long>() + 1; // (odd: a time frame is written for static images)
        if (s.coin())
          sp["scale"] = 2.5;
        if (s.coin())
          sp["offset"] = 16;
      }
    if (kind == H_SPECT)
      sp["pdi"]["radii"] = true;
  }
  c["okind"] = int(H_MULTI);
  c["ospec"] = gen_spec(s, H_MULTI);
  json muts = json::array();
  const int n = (fam < 0 && s.chance(1, 5)) ? 2 : 1;
  for (int i = 0; i < n; ++i)
    {
      const std::vector<int>& fams = list_families_of_kind(kind);
      const long f = fam >= 0 ? fam : s.pick(fams);
      // mode: shorter / longer twice as often as empty / same length
      static const std::vector<int> modes = { LM_SHORTER, LM_SHORTER, LM_LONGER, LM_LONGER, LM_EMPTY, LM_SAME };
      const long m = lmode >= 0 ? lmode : s.pick(modes);
      const long k = amount >= 1 ? amount - 1 : s.range(0, 2);
      muts.push_back({ long(OP_LIST_LENGTH), f, m + LM_NMODES * k, long(s.range(0, 4095)) });
    }
  c["muts"] = muts;
  c["target"] = natural_target(s, kind);
  c["sub"] = kind == H_SIEMENS_LM ? 4 : int(s.range(0, 1));
  c["dmode"] = int(s.pick(std::vector<int>{ 0, 0, 0, 5, 4 }));
  c["dlen"] = long(s.range(1, 64));
  c["dseed"] = long(s.range(0, 255));
  return c;
}


//! (ext5) a "cut pair" case: a library-written header (or the Siemens samples), unmutated, a complete data file, the natural reader;
//! the header is cut at the lines given by "cuts" (interpreted modulo the number of lines; negative: counted from the end;
//! empty list = every line), once directly behind the end-of-line of line k and once directly before it.
json
gen_cut_case(Src& s, int kind, bool all_lines)
{
  json c;
  c["raw"] = false;
  c["cutpair"] = true;
  if (kind < 0)
    {
      static const std::vector<int> kinds = { H_IMAGE, H_IMAGE, H_DYNAMIC, H_PARAMETRIC, H_PDFS, H_PDFS, H_PDFS_TOF, H_SPECT, H_SIEMENS, H_MULTI, H_SIEMENS_LM };
      kind = int(s.pick(kinds));
    }
  c["kind"] = kind;
  c["spec"] = gen_spec(s, kind);
  if (kind <= H_SPECT)
    {
      // values that differ from what a reader assumes when the line is absent: a lost last line must show
      json& sp = c["spec"];
      if (s.coin())
        sp["scale"] = s.nice_real(1.5, 8.);
      if (s.coin())
        sp["offset"] = int(s.range(1, 64));
    }
  c["okind"] = int(H_MULTI);
  c["ospec"] = gen_spec(s, H_MULTI);
  c["muts"] = json::array();
  json cuts = json::array();
  if (!all_lines)
    {
      const int n = int(s.range(3, 8));
      for (int i = 0; i < n; ++i)
        cuts.push_back(s.coin() ? -long(s.range(1, 8)) : long(s.range(0, 199))); // half of them among the last 8 lines
    }
  c["cuts"] = cuts;
  c["eol"] = int(s.range(0, 2)); // 0 as written ("\n"), 1 every line "\r\n", 2 as written, and the stop key line dropped first
  c["target"] = natural_target(s, kind);
  c["sub"] = kind == H_SIEMENS_LM ? 4 : int(s.range(0, 1));
  c["dmode"] = 0;
  c["dlen"] = 1L;
  c["dseed"] = long(s.range(0, 255));
  return c;
}

json
gen(Src& s, int size)
{
  json c;
  const long mode = s.range(0, 15);
  if (mode == 15)
    {
      // raw: the header text itself is part of the case (one choice per byte: this is what libFuzzer edits)
      c["raw"] = true;
      c["kind"] = int(s.range(0, 7));
      c["target"] = int(s.range(0, T_NTARGETS - 1));
      c["sub"] = int(s.range(0, 7));
      c["dmode"] = int(s.range(0, 5));
      c["dlen"] = long(s.range(0, 65535));
      c["dseed"] = long(s.range(0, 255));
      const long len = s.range(0, 4095);
      std::string t;
      t.reserve(std::size_t(len));
      for (long i = 0; i < len; ++i)
        t += char(s.range(0, 255));
      c["text"] = c17::enc(t);
      return c;
    }
  c["raw"] = false;
  if (mode >= 12)
    return gen_list_case(s, -1, -1, -1, -1);
  if (mode == 11)
    return gen_cut_case(s, -1, false);
  const int kind = int(s.range(0, H_NKINDS - 1));
  c["kind"] = kind;
  c["spec"] = gen_spec(s, kind);
  // second header for splicing (another kind)
  const int okind = int(s.range(0, H_NKINDS - 1));
  c["okind"] = okind;
  c["ospec"] = gen_spec(s, okind);
  c["muts"] = gen_muts(s, size);
  c["target"] = s.chance(1, 8) ? int(s.range(0, T_NTARGETS - 1)) : natural_target(s, kind);
  c["sub"] = int(s.range(0, 7));
  if (kind == H_SIEMENS_LM && c["target"].get<int>() == T_HEADER_CLASS && !s.chance(1, 8))
    c["sub"] = 4; // the header class of that kind
  c["dmode"] = int(s.pick(std::vector<int>{ 0, 0, 0, 5, 5, 5, 1, 2, 2, 3, 4 }));
  c["dlen"] = long(s.range(1, 64));
  c["dseed"] = long(s.range(0, 255));
  return c;
}

// ---------------------------------------------------------------------------------------------------
// the readers
struct Outcome
{
  bool accepted = false;
  bool is_image = false, is_projdata = false;
  std::string how;       // "null", "exception: ...", "false", "accepted"
  long elements = -1;    // elements of the returned object (per data set)
  int datasets = 1;
  std::vector<int> dims; // image x,y,z
  std::string inconsistency; // non-empty: the accepted object contradicts itself
  bool read_all_ok = false;  // projdata: every viewgram could be read
  bool read_attempted = false;
  bool reached_post_processing = false;
  std::string fp; // (ext5) fingerprint of the accepted object: everything the readers took from the header, as text
};

// ---- (ext5) fingerprint of an accepted object: sizes / index ranges, voxel sizes, origin, exam info, time frames, the data values
// (they depend on number type, byte order, offset and scale factors of the header), for projection data also the ProjDataInfo
// text and the stream parameters.  Two parses of texts that have to mean the same must give the same fingerprint (exact
// string equality: the same code ran on the same numbers).
template <class T>
void
fp_add(std::string& fp, const char* name, const T& v)
{
  std::ostringstream s;
  s.precision(9);
  s << name << "=" << v << ";";
  fp += s.str();
}

template <class ImageT>
void
inspect_image(const ImageT& im, Outcome& o)
{
  o.is_image = true;
  BasicCoordinate<3, int> mn, mx;
  if (!im.get_regular_range(mn, mx))
    {
      o.inconsistency = "image index range is not regular";
      return;
    }
  o.dims = { mx[3] - mn[3] + 1, mx[2] - mn[2] + 1, mx[1] - mn[1] + 1 };
  o.elements = long(o.dims[0]) * o.dims[1] * o.dims[2];
  if (std::size_t(o.elements) != im.size_all())
    o.inconsistency = cat("product of the index range ", o.elements, " != size_all() ", im.size_all());
  // touch everything (ASan checks the memory)
  double sum = 0;
  for (auto it = im.begin_all(); it != im.end_all(); ++it)
    sum += double(*it);
  (void)sum;
  (void)im.get_origin();
  (void)im.get_exam_info().get_time_frame_definitions().get_num_frames();
  {
    double wsum = 0;
    long i = 0;
    for (auto it = im.begin_all(); it != im.end_all(); ++it, ++i)
      wsum += double(*it) * double(1 + i % 97);
    fp_add(o.fp, "min", cat(mn[1], ",", mn[2], ",", mn[3]));
    fp_add(o.fp, "max", cat(mx[1], ",", mx[2], ",", mx[3]));
    fp_add(o.fp, "origin", cat(im.get_origin()[1], ",", im.get_origin()[2], ",", im.get_origin()[3]));
    if (const auto* v = dynamic_cast<const VoxelsOnCartesianGrid<float>*>(&im))
      fp_add(o.fp, "voxel", cat(v->get_voxel_size()[1], ",", v->get_voxel_size()[2], ",", v->get_voxel_size()[3]));
    fp_add(o.fp, "sum", sum);
    fp_add(o.fp, "wsum", wsum);
    fp_add(o.fp, "exam", im.get_exam_info().parameter_info());
  }
}

void
inspect_projdata(ProjData& pd, Outcome& o)
{
  o.is_projdata = true;
  const auto pdi = pd.get_proj_data_info_sptr();
  long total = 0;
  const int ntof = pdi->get_num_tof_poss();
  if (pd.get_num_segments() != pdi->get_num_segments() || pd.get_num_views() != pdi->get_num_views()
      || pd.get_num_tangential_poss() != pdi->get_num_tangential_poss())
    o.inconsistency = "ProjData and its ProjDataInfo disagree about sizes";
  if (pdi->get_min_segment_num() != -pdi->get_max_segment_num() && pdi->get_num_segments() > 0)
    { /* not required by the documentation */
    }
  for (int sgm = pdi->get_min_segment_num(); sgm <= pdi->get_max_segment_num(); ++sgm)
    total += long(pdi->get_num_axial_poss(sgm)) * pdi->get_num_views() * pdi->get_num_tangential_poss();
  total *= std::max(ntof, 1);
  o.elements = total;
  if (std::size_t(total) != pdi->size_all() && o.inconsistency.empty())
    o.inconsistency = cat("sum over segments ", total, " != ProjDataInfo::size_all() ", pdi->size_all());
  (void)pd.get_exam_info().get_time_frame_definitions().get_num_frames();
  fp_add(o.fp, "pdi", pdi->parameter_info());
  fp_add(o.fp, "exam", pd.get_exam_info().parameter_info());
  if (const auto* pdfs = dynamic_cast<const ProjDataFromStream*>(&pd))
    {
      fp_add(o.fp, "order", int(pdfs->get_storage_order()));
      fp_add(o.fp, "offset", long(pdfs->get_offset_in_stream()));
      fp_add(o.fp, "type", int(pdfs->get_data_type_in_stream().id));
      fp_add(o.fp, "big_endian", pdfs->get_byte_order_in_stream() == ByteOrder::big_endian);
      fp_add(o.fp, "scale", pdfs->get_scale_factor());
      std::string sq;
      for (int x : pdfs->get_segment_sequence_in_stream())
        sq += std::to_string(x) + ",";
      fp_add(o.fp, "sequence", sq);
    }
  double fp_wsum = 0;
  long fp_i = 0;
  // read everything when it is small (lazy reader: only now the data file is looked at)
  if (total >= 0 && total <= long(MAX_DATA_BYTES))
    {
      o.read_attempted = true;
      bool ok = true;
      try
        {
          for (int t = pdi->get_min_tof_pos_num(); t <= pdi->get_max_tof_pos_num() && ok; ++t)
            for (int sgm = pdi->get_min_segment_num(); sgm <= pdi->get_max_segment_num() && ok; ++sgm)
              for (int v = pdi->get_min_view_num(); v <= pdi->get_max_view_num() && ok; ++v)
                {
                  const Viewgram<float> vg = pd.get_viewgram(v, sgm, false, t);
                  double sum = 0;
                  for (auto it = vg.begin_all(); it != vg.end_all(); ++it, ++fp_i)
                    {
                      sum += double(*it);
                      fp_wsum += double(*it) * double(1 + fp_i % 97);
                    }
                  (void)sum;
                }
        }
      catch (const stir_verif::AssertionFailure&)
        {
          ok = false;
        }
      catch (const std::exception&)
        {
          ok = false;
        }
      o.read_all_ok = ok;
      fp_add(o.fp, "read", ok);
      if (ok)
        fp_add(o.fp, "wsum", fp_wsum);
    }
}

// ---------------------------------------------------------------------------------------------------
// Reference model of an ACCEPTED header, computed from the header TEXT (never from the library's header classes): used for
// headers written by the library itself, unmutated or with list-length mutations only, where every keyword of the text is
// unambiguous.  An accepted object has to agree with ALL lists the header kept: a reader that silently ignores a list whose
// length (or content) contradicts the others has produced an object that contradicts the header.  Anything the model cannot
// read unambiguously from the text makes it return "" (no verdict).
struct TextModel
{
  std::vector<KV> kvs;
  explicit TextModel(const std::string& text)
  {
    kvs = mini_parse(text);
    for (std::size_t i = 0; i < kvs.size(); ++i)
      if (kvs[i].key == "end of interfile" || kvs[i].key == "end")
        {
          kvs.resize(i);
          break;
        }
  }
  //! number of lines with this key and index (index < 0: lines without index)
  int count(const std::string& key, long index) const
  {
    int n = 0;
    for (const KV& kv : kvs)
      if (kv.key == key && (index < 0 ? !kv.has_index : (kv.has_index && kv.index == index)))
        ++n;
    return n;
  }
  bool one(const std::string& key, long index, std::string& v) const
  {
    if (count(key, index) != 1)
      return false;
    for (const KV& kv : kvs)
      if (kv.key == key && (index < 0 ? !kv.has_index : (kv.has_index && kv.index == index)))
        v = kv.value;
    return true;
  }
  bool integer(const std::string& key, long index, long& x) const
  {
    std::string v;
    return one(key, index, v) && as_long(v, x);
  }
  bool real(const std::string& key, long index, double& x) const
  {
    std::string v;
    if (!one(key, index, v) || v.empty())
      return false;
    char* e = nullptr;
    x = std::strtod(v.c_str(), &e);
    return e && *e == 0;
  }
  //! elements of the list value of a key that occurs exactly once; ok=false if the key is absent or repeated
  std::vector<std::string> list(const std::string& key, long index, bool& ok) const
  {
    std::string v;
    ok = one(key, index, v);
    return ok ? list_elements(v) : std::vector<std::string>();
  }
};
bool
all_integers(const std::vector<std::string>& e, std::vector<long>& out)
{
  out.clear();
  for (const std::string& x : e)
    {
      long v = 0;
      if (!as_long(x, v))
        return false;
      out.push_back(v);
    }
  return true;
}
bool
close_enough(double a, double b)
{ // header numbers carry 6 significant digits and are converted to float by the readers; a wrong entry differs by >= 1e-2 relative
  return std::fabs(a - b) <= 1e-5 * std::max(std::fabs(a), std::fabs(b)) + 1e-12;
}

std::string
model_pdfs_pet(const TextModel& t, const ProjData& pd)
{
  const auto pdi = pd.get_proj_data_info_sptr();
  long ndim = 0;
  if (!t.integer("number of dimensions", -1, ndim) || (ndim != 4 && ndim != 5))
    return "";
  long ax = -1, view = -1;
  for (long d = 1; d <= ndim; ++d)
    {
      std::string lab;
      if (!t.one("matrix axis label", d, lab))
        return "";
      if (lab == "axial coordinate")
        ax = d;
      else if (lab == "view")
        view = d;
    }
  if (ax < 0 || view < 0)
    return "";
  bool ok1, ok2, ok3, ok4, ok5, ok6;
  std::vector<long> tang, segs, views, axl, minrd, maxrd;
  if (!all_integers(t.list("matrix size", 1, ok1), tang) || !all_integers(t.list("matrix size", 4, ok2), segs)
      || !all_integers(t.list("matrix size", view, ok3), views) || !all_integers(t.list("matrix size", ax, ok4), axl)
      || !all_integers(t.list("minimum ring difference per segment", -1, ok5), minrd)
      || !all_integers(t.list("maximum ring difference per segment", -1, ok6), maxrd))
    return "";
  if (!(ok1 && ok2 && ok3 && ok4 && ok5 && ok6) || tang.empty() || segs.empty() || views.empty())
    return "";
  const long nseg = segs[0];
  // a keyword WITHOUT value is documented to leave the variable alone (KeyParser.h: "if the keyword had no value, set_variable will do
  // nothing"): the header then keeps no such list, and the reader goes on with the zero-filled list of resize_segments_and_set().
  // The object cannot contradict a list that is not there: nothing is demanded about the ring differences in that case.
  // (An explicit empty list "{}" is a list of length 0.)
  bool rd_lists_given = true;
  {
    std::string v1, v2;
    if (t.one("minimum ring difference per segment", -1, v1) && t.one("maximum ring difference per segment", -1, v2)
        && (trim_blanks(v1).empty() || trim_blanks(v2).empty()))
      {
        rd_lists_given = false;
        stats().count("accepted: a ring difference keyword without value (the reader goes on with zeros)");
        if (trim_blanks(v1).empty())
          minrd.assign(std::size_t(nseg), 0);
        if (trim_blanks(v2).empty())
          maxrd.assign(std::size_t(nseg), 0);
      }
  }
  if (long(minrd.size()) != nseg)
    return cat("accepted although 'minimum ring difference per segment' has ", minrd.size(), " entries and the header declares ", nseg, " segments");
  if (long(maxrd.size()) != nseg)
    return cat("accepted although 'maximum ring difference per segment' has ", maxrd.size(), " entries and the header declares ", nseg, " segments");
  if (long(axl.size()) != nseg)
    return cat("accepted although the 'matrix size' list of the axial coordinate has ", axl.size(), " entries and the header declares ", nseg, " segments");
  if (pdi->get_num_segments() != nseg)
    return cat("the header declares ", nseg, " segments, the accepted object has ", pdi->get_num_segments());
  if (pdi->get_num_views() != views[0])
    return cat("the header declares ", views[0], " views, the accepted object has ", pdi->get_num_views());
  if (pdi->get_num_tangential_poss() != tang[0])
    return cat("the header declares ", tang[0], " tangential positions, the accepted object has ", pdi->get_num_tangential_poss());
  long ntof = 1;
  if (ndim == 5)
    {
      bool okt;
      std::vector<long> tof;
      if (!all_integers(t.list("matrix size", 5, okt), tof) || !okt || tof.empty())
        return "";
      ntof = tof[0];
      if (pdi->get_num_tof_poss() != ntof)
        return cat("the header declares ", ntof, " TOF bins, the accepted object has ", pdi->get_num_tof_poss());
    }
  const auto* cyl = dynamic_cast<const ProjDataInfoCylindrical*>(pdi.get());
  const auto* pdfs = dynamic_cast<const ProjDataFromStream*>(&pd);
  if (cyl && rd_lists_given)
    {
      // ProjDataInfoCylindrical's constructor documents: "min_ring_difference is larger than max_ring_difference ... Swapping them around"
      for (long i = 0; i < nseg; ++i)
        if (minrd[std::size_t(i)] > maxrd[std::size_t(i)])
          std::swap(minrd[std::size_t(i)], maxrd[std::size_t(i)]);
      // the reader numbers the segments by sorting min+max: with equal sums the order of the tied entries is not defined
      bool distinct_sums = true;
      for (long i = 0; i < nseg; ++i)
        for (long j = i + 1; j < nseg; ++j)
          if (minrd[std::size_t(i)] + maxrd[std::size_t(i)] == minrd[std::size_t(j)] + maxrd[std::size_t(j)])
            distinct_sums = false;
      if (pdfs && distinct_sums)
        {
          // the i-th entry of the three lists describes the i-th segment in the stream
          const std::vector<int> seq = pdfs->get_segment_sequence_in_stream();
          if (long(seq.size()) != nseg)
            return cat("segment sequence in the stream has ", seq.size(), " entries, the header declares ", nseg, " segments");
          for (long i = 0; i < nseg; ++i)
            {
              const int sg = seq[std::size_t(i)];
              if (sg < pdi->get_min_segment_num() || sg > pdi->get_max_segment_num())
                return cat("segment sequence in the stream names segment ", sg, " outside the range of the object");
              if (cyl->get_min_ring_difference(sg) != minrd[std::size_t(i)] || cyl->get_max_ring_difference(sg) != maxrd[std::size_t(i)]
                  || pdi->get_num_axial_poss(sg) != axl[std::size_t(i)])
                return cat("entry ", i + 1, " of the per-segment lists is (min ", minrd[std::size_t(i)], ", max ", maxrd[std::size_t(i)], ", axial positions ",
                           axl[std::size_t(i)], ") but the segment at that place of the accepted object (segment ", sg, ") has (min ",
                           cyl->get_min_ring_difference(sg), ", max ", cyl->get_max_ring_difference(sg), ", axial positions ", pdi->get_num_axial_poss(sg), ")");
            }
        }
      else
        {
          std::vector<std::vector<long>> a, b;
          for (long i = 0; i < nseg; ++i)
            a.push_back({ minrd[std::size_t(i)], maxrd[std::size_t(i)], axl[std::size_t(i)] });
          for (int sg = pdi->get_min_segment_num(); sg <= pdi->get_max_segment_num(); ++sg)
            b.push_back({ long(cyl->get_min_ring_difference(sg)), long(cyl->get_max_ring_difference(sg)), long(pdi->get_num_axial_poss(sg)) });
          std::sort(a.begin(), a.end());
          std::sort(b.begin(), b.end());
          if (a != b)
            return "the (min ring difference, max ring difference, axial positions) triples of the accepted object differ from the header's per-segment lists";
        }
    }
  // the scanner keys the writer put into the header (Scanner::parameter_info) have to come back in the accepted object's Scanner
  // (only for scanners the library does not know by name: for a known name the header values are merged with the stored model)
  {
    const Scanner& sc = *pdi->get_scanner_ptr();
    if (sc.get_type() == Scanner::User_defined_scanner || sc.get_type() == Scanner::Unknown_scanner)
      {
        struct IKey
        {
          const char* key;
          long got;
        };
        const IKey ikeys[] = {
          { "number of rings", sc.get_num_rings() },
          { "number of detectors per ring", sc.get_num_detectors_per_ring() },
          { "maximum number of non-arc-corrected bins", sc.get_max_num_non_arccorrected_bins() },
          { "default number of arc-corrected bins", sc.get_default_num_arccorrected_bins() },
          { "number of blocks per bucket in transaxial direction", sc.get_num_transaxial_blocks_per_bucket() },
          { "number of blocks per bucket in axial direction", sc.get_num_axial_blocks_per_bucket() },
          { "number of crystals per block in axial direction", sc.get_num_axial_crystals_per_block() },
          { "number of crystals per block in transaxial direction", sc.get_num_transaxial_crystals_per_block() },
          { "number of detector layers", sc.get_num_detector_layers() },
          { "number of crystals per singles unit in axial direction", sc.get_num_axial_crystals_per_singles_unit() },
          { "number of crystals per singles unit in transaxial direction", sc.get_num_transaxial_crystals_per_singles_unit() },
        };
        for (const IKey& k : ikeys)
          {
            long want = 0;
            if (t.integer(k.key, -1, want) && want != k.got)
              return cat("scanner key '", k.key, "' is ", want, " in the header, the accepted object's scanner has ", k.got);
          }
        struct RKey
        {
          const char* key;
          double got;
        };
        const RKey rkeys[] = {
          { "inner ring diameter (cm)", sc.get_inner_ring_radius() * 2 / 10. },
          { "average depth of interaction (cm)", sc.get_average_depth_of_interaction() / 10. },
          { "distance between rings (cm)", sc.get_ring_spacing() / 10. },
          { "default bin size (cm)", sc.get_default_bin_size() / 10. },
          { "view offset (degrees)", sc.get_intrinsic_azimuthal_tilt() * 180. / _PI },
          { "energy resolution", sc.get_energy_resolution() },
          { "reference energy (in kev)", sc.get_reference_energy() },
        };
        for (const RKey& k : rkeys)
          {
            double want = 0;
            if (!t.real(k.key, -1, want))
              continue;
            stats().maxi("max rel difference scanner key header/object", std::fabs(k.got - want) / std::max(1e-9, std::max(std::fabs(want), std::fabs(k.got))));
            if (!close_enough(k.got, want) && std::fabs(k.got - want) > 1e-6)
              return cat("scanner key '", k.key, "' is ", want, " in the header, the accepted object's scanner has ", k.got);
          }
      }
  }
  // "TOF bin order": absent or empty = natural order (InterfilePDFSHeader::post_processing only looks at a non-empty list)
  if (t.count("tof bin order", -1) > 0)
    {
      bool okb;
      std::vector<long> tbo;
      if (!all_integers(t.list("tof bin order", -1, okb), tbo) || !okb)
        return "";
      if (!tbo.empty())
        {
          if (long(tbo.size()) != ntof)
            return cat("accepted although 'TOF bin order' has ", tbo.size(), " entries and the header declares ", ntof, " TOF bins");
          if (pdfs && tbo.size() > 1)
            {
              const std::vector<int> got = pdfs->get_timing_poss_sequence_in_stream();
              if (got.size() != tbo.size())
                return cat("'TOF bin order' has ", tbo.size(), " entries, the accepted object's sequence has ", got.size());
              for (std::size_t i = 0; i < got.size(); ++i)
                if (got[i] != tbo[i])
                  return cat("'TOF bin order' entry ", i + 1, " is ", tbo[i], ", the accepted object has ", got[i]);
            }
        }
    }
  return "";
}

std::string
model_pdfs_spect(const TextModel& t, const ProjData& pd)
{
  const auto pdi = pd.get_proj_data_info_sptr();
  long views = 0;
  bool ok1, ok2;
  std::vector<long> tang, axial;
  if (!t.integer("number of projections", -1, views) || !all_integers(t.list("matrix size", 1, ok1), tang)
      || !all_integers(t.list("matrix size", 2, ok2), axial) || !ok1 || !ok2 || tang.empty() || axial.empty())
    return "";
  if (pdi->get_num_segments() != 1 || pdi->get_num_views() != views || pdi->get_num_tangential_poss() != tang[0] || pdi->get_num_axial_poss(0) != axial[0])
    return cat("the header declares ", views, " projections x ", axial[0], " x ", tang[0], ", the accepted object has ", pdi->get_num_segments(), " segment(s), ",
               pdi->get_num_views(), " x ", pdi->get_num_axial_poss(0), " x ", pdi->get_num_tangential_poss());
  std::string orbit;
  if (t.one("orbit", -1, orbit) && c17::ref_standardise(orbit) == "non-circular")
    {
      bool okr;
      const std::vector<std::string> radii = t.list("radii", -1, okr);
      if (!okr)
        return "";
      if (long(radii.size()) != views)
        return cat("accepted although 'radii' has ", radii.size(), " entries and the header declares ", views, " projections (non-circular orbit)");
      if (const auto* cyl = dynamic_cast<const ProjDataInfoCylindrical*>(pdi.get()))
        {
          const VectorWithOffset<float> got = cyl->get_ring_radii_for_all_views();
          if (got.get_length() != views)
            return cat("the accepted object has ", got.get_length(), " radii for ", views, " views");
          for (long i = 0; i < views; ++i)
            {
              const double want = std::strtod(radii[std::size_t(i)].c_str(), nullptr);
              stats().maxi("max rel difference radius header/object", std::fabs(got[got.get_min_index() + int(i)] - want) / std::max(1e-9, std::fabs(want)));
              if (!close_enough(got[got.get_min_index() + int(i)], want))
                return cat("'radii' entry ", i + 1, " is ", want, ", the accepted object has ", got[got.get_min_index() + int(i)]);
            }
        }
    }
  return "";
}

std::string
model_pdfs_siemens(const TextModel& t, const ProjData& pd)
{
  long nseg = 0;
  bool ok;
  const std::vector<std::string> table = t.list("%segment table", -1, ok);
  if (!ok || !t.integer("%number of segments", -1, nseg))
    return "";
  if (long(table.size()) != nseg)
    return cat("accepted although '%segment table' has ", table.size(), " entries and '%number of segments' is ", nseg);
  if (pd.get_proj_data_info_sptr()->get_num_segments() != nseg)
    return cat("'%number of segments' is ", nseg, ", the accepted object has ", pd.get_proj_data_info_sptr()->get_num_segments());
  return "";
}

std::string
model_projdata(int model_kind, const std::string& text, const ProjData& pd)
{
  const TextModel t(text);
  switch (model_kind)
    {
    case H_PDFS:
    case H_PDFS_TOF:
      return model_pdfs_pet(t, pd);
    case H_SPECT:
      return model_pdfs_spect(t, pd);
    case H_SIEMENS:
      return model_pdfs_siemens(t, pd);
    default:
      return "";
    }
}

struct ImgFacts
{
  std::vector<int> dims;      // x,y,z
  double vox[3] = { 0, 0, 0 }; // x,y,z
  bool have_vox = false;
  long nframes = -1;
  std::vector<std::pair<double, double>> frames; // start, duration
  long nparams = -1;
};
template <class ImageT>
void
voxel_facts(const ImageT& im, ImgFacts& f)
{
  if (const auto* v = dynamic_cast<const VoxelsOnCartesianGrid<float>*>(&im))
    {
      f.vox[0] = v->get_voxel_size().x();
      f.vox[1] = v->get_voxel_size().y();
      f.vox[2] = v->get_voxel_size().z();
      f.have_vox = true;
    }
}
std::string
model_image(const std::string& text, const ImgFacts& f, int target)
{
  const TextModel t(text);
  if (f.dims.size() != 3)
    return "";
  long n[3] = { 0, 0, 0 };
  for (long d = 1; d <= 3; ++d)
    {
      bool ok;
      std::vector<long> l;
      if (!all_integers(t.list("matrix size", d, ok), l) || !ok || l.empty())
        return "";
      if (l.size() != 1)
        return cat("accepted although 'matrix size[", d, "]' has ", l.size(), " entries (an image has one size per axis)");
      n[d - 1] = l[0];
      if (f.dims[std::size_t(d - 1)] != l[0])
        return cat("'matrix size[", d, "]' is ", l[0], ", the accepted image has ", f.dims[std::size_t(d - 1)]);
    }
  if (f.have_vox)
    for (long d = 1; d <= 3; ++d)
      {
        double want = 1.; // InterfileHeader: pixel_sizes.resize(num_dimensions, 1.)
        const int c = t.count("scaling factor (mm/pixel)", d);
        if (c > 1 || (c == 1 && !t.real("scaling factor (mm/pixel)", d, want)))
          continue;
        stats().maxi("max rel difference voxel size header/object", std::fabs(f.vox[d - 1] - want) / std::max(1e-9, std::fabs(want)));
        if (!close_enough(f.vox[d - 1], want))
          return cat("'scaling factor (mm/pixel)[", d, "]' is ", c ? cat(want) : std::string("absent (default 1)"), ", the accepted image has voxel size ", f.vox[d - 1]);
      }
  for (const KV& kv : t.kvs)
    if (kv.key == "image scaling factor" && kv.has_index)
      {
        const std::size_t m = list_elements(kv.value).size();
        if (m != 0 && m != 1 && long(m) != n[2])
          return cat("accepted although 'image scaling factor[", kv.index, "]' has ", m, " entries (1 or the last matrix size ", n[2], " expected)");
      }
  if (target == T_DYNAMIC)
    {
      long ntf = 0;
      if (!t.integer("number of time frames", -1, ntf))
        return "";
      if (f.nframes != ntf)
        return cat("'number of time frames' is ", ntf, ", the accepted dynamic image has ", f.nframes);
      for (long fr = 1; fr <= ntf && fr <= long(f.frames.size()); ++fr)
        {
          double st = 0, du = 0;
          if (t.real("image relative start time (sec)", fr, st) && t.real("image duration (sec)", fr, du) && du > 0)
            if (!close_enough(f.frames[std::size_t(fr - 1)].first, st) || !close_enough(f.frames[std::size_t(fr - 1)].second, du))
              return cat("time frame ", fr, " of the header is (start ", st, ", duration ", du, "), the accepted image has (", f.frames[std::size_t(fr - 1)].first, ", ",
                         f.frames[std::size_t(fr - 1)].second, ")");
        }
    }
  if (target == T_PARAMETRIC)
    {
      long np = 1;
      if (t.count("number of image data types", -1) > 0 && !t.integer("number of image data types", -1, np))
        return "";
      if (f.nparams != np)
        return cat("'number of image data types' is ", np, ", the accepted parametric image has ", f.nparams, " parameters");
    }
  return "";
}

std::string
model_multi(const std::string& text, const MultipleDataSetHeader& h)
{
  const TextModel t(text);
  long n = 0;
  if (!t.integer("total number of data sets", -1, n))
    return "";
  if (long(h.get_num_data_sets()) != n)
    return cat("'total number of data sets' is ", n, ", the accepted header has ", h.get_num_data_sets());
  for (long i = 1; i <= n; ++i)
    {
      std::string v;
      // (MultipleDataSetHeader::post_processing: "Data set[i] is empty" is an error)
      if (t.count("data set", i) == 0)
        return cat("accepted although 'data set[", i, "]' is missing and 'total number of data sets' is ", n);
      if (t.one("data set", i, v) && h.get_filename(std::size_t(i - 1)) != v)
        return cat("'data set[", i, "]' is '", c17::enc(v), "', the accepted header has '", c17::enc(h.get_filename(std::size_t(i - 1))), "'");
    }
  return "";
}

//! overwrite the part of the stack the readers are going to use: read_interfile_image(istream&) goes on with an
//! uninitialised char[1000] file name (and a null image pointer) when the header does not parse (finding F14), which makes
//! the outcome depend on what the previous case left on the stack; zeroes make every case start from the same state
__attribute__((noinline)) void
scrub_stack()
{
  volatile char pad[192 * 1024];
  for (std::size_t i = 0; i < sizeof pad; i += 1)
    pad[i] = 0;
  asm volatile("" ::: "memory");
}

Outcome
run_target_impl(int target, int sub, const std::string& hdr_path, const std::string& text, int model_kind);

//! model_kind: kind of the library-written header when the reference model applies (unmutated, or list-length mutations only); -1: none
Outcome
run_target(int target, int sub, const std::string& hdr_path, const std::string& text, int model_kind)
{
  // "prime:" prefix of the path (only used by the F14 probe): first read the valid image prime.hv with the same reader and do
  // NOT scrub in between, then read the case's header: the stale file name on the stack is an existing file
  if (hdr_path.rfind("prime:", 0) == 0)
    {
      const std::string real = hdr_path.substr(6);
      const std::string dir = c17::scratch_dir();
      scrub_stack();
      (void)run_target_impl(target, sub, dir + "/prime.hv", c17::read_file(dir + "/prime.hv"), -1);
      return run_target_impl(target, sub, real, text, model_kind);
    }
  scrub_stack();
  return run_target_impl(target, sub, hdr_path, text, model_kind);
}

Outcome
run_target_impl(int target, int sub, const std::string& hdr_path, const std::string& text, int model_kind)
{
  Outcome o;
  const bool image_model = model_kind == H_IMAGE || model_kind == H_DYNAMIC || model_kind == H_PARAMETRIC;
  auto apply_image_model = [&](const ImgFacts& f) {
    if (image_model && o.inconsistency.empty())
      o.inconsistency = model_image(text, f, target);
  };
  const std::string dir = c17::scratch_dir();
  try
    {
      switch (target)
        {
        case T_IMAGE_FILE:
          {
            std::unique_ptr<VoxelsOnCartesianGrid<float>> im(read_interfile_image(hdr_path));
            if (!im)
              o.how = "null";
            else
              {
                o.accepted = true;
                inspect_image(*im, o);
                ImgFacts f;
                f.dims = o.dims;
                voxel_facts(*im, f);
                apply_image_model(f);
              }
          }
          break;
        case T_READ_FROM_FILE_DENSITY:
          {
            auto im = read_from_file<DiscretisedDensity<3, float>>(hdr_path);
            if (!im)
              o.how = "null";
            else
              {
                o.accepted = true;
                inspect_image(*im, o);
                ImgFacts f;
                f.dims = o.dims;
                voxel_facts(*im, f);
                apply_image_model(f);
              }
          }
          break;
        case T_IMAGE_STREAM:
          {
            std::istringstream in(text);
            std::unique_ptr<VoxelsOnCartesianGrid<float>> im(read_interfile_image(in, dir));
            if (!im)
              o.how = "null";
            else
              {
                o.accepted = true;
                inspect_image(*im, o);
                ImgFacts f;
                f.dims = o.dims;
                voxel_facts(*im, f);
                apply_image_model(f);
              }
          }
          break;
        case T_DYNAMIC:
          {
            std::istringstream in_dyn(text);
            // (odd sub: the std::istream overload, which the file name overload calls after opening the file)
            std::unique_ptr<DynamicDiscretisedDensity> d(sub % 2 ? read_interfile_dynamic_image(in_dyn, dir) : read_interfile_dynamic_image(hdr_path));
            if (!d)
              o.how = "null";
            else
              {
                o.accepted = true;
                o.datasets = int(d->get_num_time_frames());
                for (unsigned f = 1; f <= d->get_num_time_frames(); ++f)
                  {
                    Outcome fo;
                    inspect_image(d->get_density(f), fo);
                    if (f == 1)
                      {
                        o.dims = fo.dims;
                        o.elements = fo.elements;
                      }
                    else if (fo.dims != o.dims && o.inconsistency.empty())
                      o.inconsistency = "frames of a dynamic image have different sizes";
                    if (!fo.inconsistency.empty())
                      o.inconsistency = fo.inconsistency;
                    o.fp += cat("frame", f, ":{", fo.fp, "}");
                  }
                for (unsigned fr = 1; fr <= d->get_time_frame_definitions().get_num_frames(); ++fr)
                  fp_add(o.fp, "tf", cat(d->get_time_frame_definitions().get_start_time(fr), "+", d->get_time_frame_definitions().get_duration(fr)));
                fp_add(o.fp, "dyn_exam", d->get_exam_info().parameter_info());
                o.is_image = true;
                ImgFacts f;
                f.dims = o.dims;
                if (d->get_num_time_frames() >= 1)
                  voxel_facts(d->get_density(1), f);
                f.nframes = long(d->get_num_time_frames());
                const TimeFrameDefinitions& tfd = d->get_time_frame_definitions();
                for (unsigned fr = 1; fr <= tfd.get_num_frames() && fr <= d->get_num_time_frames(); ++fr)
                  f.frames.push_back({ tfd.get_start_time(fr), tfd.get_duration(fr) });
                apply_image_model(f);
              }
          }
          break;
        case T_PARAMETRIC:
          {
            std::istringstream in_par(text);
            std::unique_ptr<ParametricVoxelsOnCartesianGrid> p(sub % 2 ? read_interfile_parametric_image(in_par, dir)
                                                                       : read_interfile_parametric_image(hdr_path));
            if (!p)
              o.how = "null";
            else
              {
                o.accepted = true;
                o.is_image = true;
                o.datasets = int(p->get_num_params());
                BasicCoordinate<3, int> mn, mx;
                if (p->get_regular_range(mn, mx))
                  {
                    o.dims = { mx[3] - mn[3] + 1, mx[2] - mn[2] + 1, mx[1] - mn[1] + 1 };
                    o.elements = long(o.dims[0]) * o.dims[1] * o.dims[2];
                  }
                for (unsigned k = 1; k <= p->get_num_params(); ++k)
                  {
                    Outcome fo;
                    inspect_image(p->construct_single_density(int(k)), fo);
                    if (fo.dims != o.dims && o.inconsistency.empty())
                      o.inconsistency = "a single parameter image has another size than the parametric image";
                    o.fp += cat("param", k, ":{", fo.fp, "}");
                  }
                ImgFacts f;
                f.dims = o.dims;
                if (p->get_num_params() >= 1)
                  voxel_facts(p->construct_single_density(1), f);
                f.nparams = long(p->get_num_params());
                apply_image_model(f);
              }
          }
          break;
        case T_PDFS:
          {
            std::istringstream in_pd(text);
            std::unique_ptr<ProjDataFromStream> pd(sub % 2 ? read_interfile_PDFS(in_pd, dir, std::ios::in) : read_interfile_PDFS(hdr_path, std::ios::in));
            if (!pd)
              o.how = "null";
            else
              {
                o.accepted = true;
                inspect_projdata(*pd, o);
                if (model_kind >= H_PDFS && model_kind <= H_SIEMENS && o.inconsistency.empty())
                  o.inconsistency = model_projdata(model_kind, text, *pd);
              }
          }
          break;
        case T_PROJDATA_READ_FROM_FILE:
          {
            shared_ptr<ProjData> pd = ProjData::read_from_file(hdr_path);
            if (!pd)
              o.how = "null";
            else
              {
                o.accepted = true;
                inspect_projdata(*pd, o);
                if (model_kind >= H_PDFS && model_kind <= H_SIEMENS && o.inconsistency.empty())
                  o.inconsistency = model_projdata(model_kind, text, *pd);
              }
          }
          break;
        case T_MULTI:
          {
            MultipleDataSetHeader h;
            if (!h.parse(hdr_path.c_str(), false))
              o.how = "false";
            else
              {
                o.accepted = true;
                o.elements = long(h.get_num_data_sets());
                for (std::size_t i = 0; i < h.get_num_data_sets() && i < 100000; ++i)
                  {
                    try
                      {
                        (void)h.get_filename(i);
                      }
                    catch (const std::exception&)
                      {
                        o.inconsistency = cat("get_num_data_sets()=", h.get_num_data_sets(), " but get_filename(", i, ") is out of range");
                        break;
                      }
                  }
                for (std::size_t i = 0; i < h.get_num_data_sets() && i < 1000 && o.inconsistency.empty(); ++i)
                  fp_add(o.fp, "set", c17::enc(h.get_filename(i)));
                if (model_kind == H_MULTI && o.inconsistency.empty())
                  o.inconsistency = model_multi(text, h);
              }
          }
          break;
        default:
          {
            // header classes directly (stream parse; no data file involved)
            std::istringstream in(text);
            bool ok = false;
            switch (sub % 7)
              {
              case 0:
                {
                  InterfileImageHeader h;
                  ok = h.parse(in, false);
                }
                break;
              case 1:
                {
                  InterfilePDFSHeader h;
                  ok = h.parse(in, false);
                }
                break;
              case 2:
                {
                  InterfilePDFSHeaderSPECT h;
                  ok = h.parse(in, false);
                }
                break;
              case 3:
                {
                  InterfilePDFSHeaderSiemens h;
                  ok = h.parse(in, false);
                }
                break;
              case 4:
                {
                  InterfileListmodeHeaderSiemens h;
                  ok = h.parse(in, false);
                  if (ok && !h.data_info_ptr)
                    o.inconsistency = "InterfileListmodeHeaderSiemens::parse returned true but there is no ProjDataInfo";
                  else if (ok)
                    {
                      // accessors of the accepted header and of its ProjDataInfo
                      const ProjDataInfo& pdi = *h.data_info_ptr;
                      fp_add(o.fp, "pdi", pdi.parameter_info());
                      fp_add(o.fp, "exam", h.get_exam_info().parameter_info());
                      if (pdi.get_num_views() != h.get_num_views() || pdi.get_num_tangential_poss() != h.get_num_projections())
                        o.inconsistency = cat("listmode header says ", h.get_num_views(), " views x ", h.get_num_projections(), " projections, its ProjDataInfo has ",
                                              pdi.get_num_views(), " x ", pdi.get_num_tangential_poss());
                      else if (model_kind == H_SIEMENS_LM)
                        {
                          const TextModel t(text);
                          long nseg = 0, nv = 0, np = 0;
                          bool okl;
                          const std::vector<std::string> table = t.list("%segment table", -1, okl);
                          if (okl && t.integer("%number of segments", -1, nseg) && t.integer("%number of views", -1, nv) && t.integer("%number of projections", -1, np))
                            {
                              if (long(table.size()) != nseg)
                                o.inconsistency = cat("accepted although '%segment table' has ", table.size(), " entries and '%number of segments' is ", nseg);
                              else if (pdi.get_num_segments() != nseg || pdi.get_num_views() != nv || pdi.get_num_tangential_poss() != np)
                                o.inconsistency = cat("the header declares ", nseg, " segments, ", nv, " views, ", np, " projections; the accepted object has ",
                                                      pdi.get_num_segments(), ", ", pdi.get_num_views(), ", ", pdi.get_num_tangential_poss());
                            }
                        }
                    }
                }
                break;
              case 5:
                {
                  InterfileNormHeaderSiemens h;
                  ok = h.parse(in, false);
                }
                break;
              default:
                {
                  MinimalInterfileHeader h;
                  ok = h.parse(in, false);
                }
                break;
              }
            o.accepted = ok;
            if (!ok)
              o.how = "false";
          }
          break;
        }
    }
  catch (const stir_verif::AssertionFailure& e)
    {
      o.accepted = false;
      o.how = std::string("assert: ") + c17::enc(std::string(e.what()).substr(0, 100));
    }
  catch (const std::bad_alloc&)
    {
      o.accepted = false;
      o.how = "exception: bad_alloc";
    }
  catch (const std::exception& e)
    {
      o.accepted = false;
      o.how = std::string("exception: ") + c17::enc(std::string(e.what()).substr(0, 60)); // (may quote bytes of the header)
    }
  if (o.accepted)
    o.how = "accepted";
  return o;
}


// ---- optional process isolation (VERIF_C17_FORK=1, set by the driver for the rapidcheck workers): the reader runs in a
// forked child, so that a crash (SIGSEGV, SIGFPE, sanitizer abort) becomes an ordinary failing case that rapidcheck and
// the list shrinker can minimise.  Replays and the libFuzzer target run in-process: there the crash is the signal.
json
outcome_to_json(const Outcome& o, std::size_t refused, std::size_t max_single)
{
  json j;
  j["accepted"] = o.accepted;
  j["is_image"] = o.is_image;
  j["is_projdata"] = o.is_projdata;
  j["how"] = o.how;
  j["elements"] = o.elements;
  j["datasets"] = o.datasets;
  j["dims"] = o.dims;
  j["inconsistency"] = c17::enc(o.inconsistency);
  j["read_all_ok"] = o.read_all_ok;
  j["read_attempted"] = o.read_attempted;
  j["fp"] = c17::enc(o.fp);
  j["refused"] = refused;
  j["max_single"] = max_single;
  return j;
}
void
outcome_from_json(const json& j, Outcome& o, std::size_t& refused, std::size_t& max_single)
{
  o.accepted = j["accepted"];
  o.is_image = j["is_image"];
  o.is_projdata = j["is_projdata"];
  o.how = j["how"].get<std::string>();
  o.elements = j["elements"];
  o.datasets = j["datasets"];
  o.dims = j["dims"].get<std::vector<int>>();
  o.inconsistency = j["inconsistency"].get<std::string>();
  o.read_all_ok = j["read_all_ok"];
  o.read_attempted = j["read_attempted"];
  o.fp = j.value("fp", std::string());
  refused = j["refused"];
  max_single = j["max_single"];
}

// ---- crash / allocation sites that are confirmed defects and stay known findings (known_findings.json).  A sanitizer
// report with one of these functions among its library frames is a known finding: the case is counted as excluded, not as
// a new violation.  VERIF_NO_EXCLUDE=1 switches the table off.
struct KnownSite
{
  const char* function; // substring of a frame of the report
  bool anywhere;        // false: must be the first library frame; true: any library frame above the harness
  const char* headline; // substring of the report's headline ("" = any)
  const char* signature;
};
const KnownSite KNOWN_SITES[] = {
  // F7: allocations sized by "matrix size" before the data file is looked at
  // (the image constructor somewhere in the stack; NOT create_image_and_header_from, which is also in the stack of
  //  everything the header parser allocates)
  { "VoxelsOnCartesianGrid", true, "lloc", SIG_F7 },
  // (the list of scale factors: post_processing itself is the first library frame)
  { "InterfileHeader::post_processing", false, "lloc", SIG_F7 },
};

//! UBSan reports about arithmetic on boundary numbers (NaN/inf/huge converted to int, signed overflow, shift): the property
//! text speaks about memory accesses, allocations and sizes, not about arithmetic; such a report is neither a finding nor a
//! known finding.  (Limit of the method: the asan flavour stops at the first such report, so what the library would do
//! afterwards is only seen by the plain flavour.)
bool
outside_the_property(const std::string& headline)
{
  return headline.find("runtime error:") != std::string::npos
         && (headline.find("is outside the range of representable values") != std::string::npos
             || headline.find("signed integer overflow") != std::string::npos
             || headline.find("cannot be represented in type") != std::string::npos);
}
const char* const OUTSIDE = "outside the property: UBSan report about arithmetic on boundary numbers (no memory access, allocation or size involved)";

//! library frames of a sanitizer report above the harness (function + file:line), and the report's headline
void
parse_report(const std::string& err, std::vector<std::string>& frames, std::string& headline)
{
  frames.clear();
  headline.clear();
  bool in_harness = false;
  for (const std::string& l : c17::split_lines(err))
    {
      if (headline.empty()
          && (l.find("ERROR: AddressSanitizer") != std::string::npos || l.find("runtime error:") != std::string::npos
              || l.find("C17-BIG-ALLOC") != std::string::npos || l.find("ERROR: libFuzzer") != std::string::npos))
        headline = l.substr(0, 200);
      const auto fr = l.find(" in ");
      if (l.find("    #") != 0 || fr == std::string::npos)
        continue;
      if (l.find("    #0 ") == 0)
        {
          if (!frames.empty())
            break; // a second stack (allocation / deallocation site): not part of the fault's own stack
          in_harness = false;
        }
      if (l.find("/harness/") != std::string::npos)
        in_harness = true;
      if (in_harness)
        continue;
      const auto src = l.find("/src/", fr);
      if (src != std::string::npos && l.find("/usr/") == std::string::npos)
        {
          std::string f = l.substr(fr + 4);
          const auto sp = f.find(" /");
          frames.push_back(c17::enc(f.substr(0, sp)) + " (" + c17::enc(f.substr(f.rfind('/') + 1)) + ")");
        }
    }
}
std::string
known_site_signature(const std::vector<std::string>& frames, const std::string& headline)
{
  if (c17::no_exclude())
    return "";
  if (frames.empty())
    return "";
  for (const KnownSite& k : KNOWN_SITES)
    {
      if (k.headline[0] && headline.find(k.headline) == std::string::npos)
        continue;
      if (!k.anywhere)
        {
          if (frames[0].find(k.function) != std::string::npos)
            return k.signature;
        }
      else
        for (const std::string& f : frames)
          if (f.find(k.function) != std::string::npos)
            return k.signature;
    }
  return "";
}


// ---- process isolation: the reader runs in a child process that serves one case after the other (a "fork server":
// forking an ASan process costs ~100 ms, so the child is only replaced after it died).  A crash (SIGSEGV, SIGFPE, sanitizer
// abort) thereby becomes an ordinary failing case that rapidcheck and the list shrinker can minimise, and the sanitizer's
// report can be read.  In-process execution: libFuzzer target (VERIF_STATS_OUT is set there) or VERIF_C17_NOFORK=1.
struct Server
{
  pid_t pid = -1;
  int to = -1, from = -1, err = -1;
  void stop()
  {
    if (pid > 0)
      {
        close(to);
        close(from);
        close(err);
        kill(pid, SIGKILL);
        int st = 0;
        waitpid(pid, &st, 0);
        pid = -1;
      }
  }
  ~Server() { stop(); }
  //! 1: a line was read; 0: timeout (the other side is alive but silent); -1: EOF (the other side is gone)
  static int read_line(int fd, std::string& line, int timeout_ms)
  {
    line.clear();
    char ch;
    for (;;)
      {
        struct pollfd p = { fd, POLLIN, 0 };
        const int r = poll(&p, 1, timeout_ms);
        if (r <= 0)
          return 0; // timeout
        const ssize_t n = read(fd, &ch, 1);
        if (n <= 0)
          return -1; // EOF: the other side is gone
        if (ch == '\n')
          return 1;
        line += ch;
      }
  }
  void child_loop(int in, int out)
  {
    std::string line;
    while (read_line(in, line, -1) == 1)
      {
        std::string reply;
        try
          {
            const json q = json::parse(line);
            c17::AllocGuard guard;
            Outcome co = run_target(q["target"].get<int>(), q["sub"].get<int>(), q["hdr"].get<std::string>(), c17::dec(q["text"].get<std::string>()),
                                    q.value("model", -1));
            guard.stop();
            reply = outcome_to_json(co, guard.refused(), guard.max_single()).dump();
          }
        catch (...)
          {
            reply = "{}";
          }
        reply += "\n";
        std::size_t off = 0;
        while (off < reply.size())
          {
            const ssize_t w = write(out, reply.data() + off, reply.size() - off);
            if (w <= 0)
              _exit(0);
            off += std::size_t(w);
          }
      }
    _exit(0);
  }
  void ensure()
  {
    if (pid > 0)
      return;
    (void)c17::scratch_dir(); // fixed before the fork: parent and child use the same directory
    int a[2], b[2], e[2];
    if (pipe(a) != 0 || pipe(b) != 0 || pipe(e) != 0)
      throw std::runtime_error("pipe failed");
    std::cout.flush();
    pid = fork();
    if (pid < 0)
      throw std::runtime_error("fork failed");
    if (pid == 0)
      {
        close(a[1]);
        close(b[0]);
        close(e[0]);
        dup2(e[1], 2); // sanitizer reports (STIR's own messages are silenced at the iostream level)
        child_loop(a[0], b[1]);
      }
    close(a[0]);
    close(b[1]);
    close(e[1]);
    to = a[1];
    from = b[0];
    err = e[0];
    fcntl(err, F_SETFL, fcntl(err, F_GETFL) | O_NONBLOCK);
  }
  std::string drain_err(bool until_eof)
  {
    std::string s;
    char buf[4096];
    for (;;)
      {
        if (until_eof)
          {
            struct pollfd p = { err, POLLIN, 0 };
            if (poll(&p, 1, 5000) <= 0)
              break;
          }
        const ssize_t n = read(err, buf, sizeof buf);
        if (n <= 0)
          break;
        if (s.size() < (1u << 20))
          s.append(buf, std::size_t(n));
      }
    return s;
  }
};

struct Isolated
{
  std::string died;  // "" | "timeout" | description of the fatal signal / exit
  std::vector<std::string> frames; // library frames of the sanitizer report (asan flavour)
  std::string headline;
};

Isolated
run_isolated(int target, int sub, const std::string& hdr_path, const std::string& text, int model_kind, Outcome& o, std::size_t& refused,
             std::size_t& max_single)
{
  Isolated iso;
  static const bool isolate = std::getenv("VERIF_STATS_OUT") == nullptr && std::getenv("VERIF_C17_NOFORK") == nullptr;
  if (!isolate)
    {
      c17::AllocGuard guard;
      o = run_target(target, sub, hdr_path, text, model_kind);
      guard.stop();
      refused = guard.refused();
      max_single = guard.max_single();
      return iso;
    }
  static Server srv;
  srv.ensure();
  json q;
  q["target"] = target;
  q["sub"] = sub;
  q["hdr"] = hdr_path;
  q["text"] = c17::enc(text);
  q["model"] = model_kind;
  const std::string line = q.dump() + "\n";
  bool sent = true;
  {
    std::size_t off = 0;
    while (off < line.size())
      {
        const ssize_t w = write(srv.to, line.data() + off, line.size() - off);
        if (w <= 0)
          {
            sent = false;
            break;
          }
        off += std::size_t(w);
      }
  }
  std::string reply;
  const int got = sent ? Server::read_line(srv.from, reply, 120000) : -1;
  if (got == 1)
    {
      const std::string e = srv.drain_err(false); // e.g. the stack of a big allocation that did not kill the child
      parse_report(e, iso.frames, iso.headline);
      try
        {
          outcome_from_json(json::parse(reply), o, refused, max_single);
        }
      catch (const std::exception&)
        {
          iso.died = "the reader process returned no result";
          srv.stop();
        }
      return iso;
    }
  // no reply: the child died, or hangs
  int status = 0;
  if (got == 0)
    {
      // still alive: a hang (or very slow); end it
      iso.died = "timeout";
      srv.stop();
      return iso;
    }
  // EOF on the reply pipe: the child is dead or dying (a sanitizer may still be writing its report): wait for it.
  // (A WNOHANG test at this place raced with the dying process and classified crashes as "timeout".)
  waitpid(srv.pid, &status, 0);
  const std::string e = srv.drain_err(true);
  parse_report(e, iso.frames, iso.headline);
  close(srv.to);
  close(srv.from);
  close(srv.err);
  srv.pid = -1;
  if (WIFSIGNALED(status))
    {
      const int sg = WTERMSIG(status);
      iso.died = cat("the reader killed the process: signal ", sg, " (",
                     sg == SIGSEGV ? "SIGSEGV" : sg == SIGFPE ? "SIGFPE" : sg == SIGABRT ? "SIGABRT" : sg == SIGBUS ? "SIGBUS" : sg == SIGILL ? "SIGILL" : "other", ")");
    }
  else
    iso.died = cat("the reader ended the process with exit status ", WIFEXITED(status) ? WEXITSTATUS(status) : -1);
  return iso;
}

#ifndef C17_ASAN
//! plain flavour: a crash or a refused allocation is classified by the asan build of the same harness on the same case
//! (first output line: "PASS ...", "REJECT ..." or "FAIL ..."); "" if that binary is not there
std::string
ask_asan_flavour_uncached(const json& c);
std::string
ask_asan_flavour(const json& c)
{
  // every question costs a process start of the asan binary: answers are remembered, and a worker asks at most 40 times
  static std::map<uint64_t, std::string> memo;
  static int asked = 0;
  const uint64_t h = hash_json(c);
  auto it = memo.find(h);
  if (it != memo.end())
    return it->second;
  if (asked >= 40 && std::getenv("RC_PARAMS"))
    return "(not asked: budget of this worker used up)";
  ++asked;
  return memo[h] = ask_asan_flavour_uncached(c);
}
std::string
ask_asan_flavour_uncached(const json& c)
{
  char exe[4096];
  const ssize_t n = readlink("/proc/self/exe", exe, sizeof exe - 1);
  if (n <= 0)
    return "";
  std::string path(exe, std::size_t(n));
  const auto dot = path.rfind(".plain");
  if (dot == std::string::npos)
    return "";
  path = path.substr(0, dot) + ".asan";
  if (access(path.c_str(), X_OK) != 0)
    return "";
  const std::string cf = c17::scratch_dir() + "/delegate_case.json";
  {
    json j;
    j["case"] = c;
    c17::write_file(cf, j.dump());
  }
  const std::string cmd = "ASAN_OPTIONS=detect_leaks=0:abort_on_error=1:allocator_may_return_null=1:max_allocation_size_mb=2048:detect_odr_violation=0 "
                          "UBSAN_OPTIONS=print_stacktrace=1:halt_on_error=1 '"
                          + path + "' --replay '" + cf + "' 2>/dev/null </dev/null";
  std::string out;
  if (FILE* f = popen(cmd.c_str(), "r"))
    {
      char buf[4096];
      while (std::size_t k = fread(buf, 1, sizeof buf, f))
        if (out.size() < 20000)
          out.append(buf, k);
      pclose(f);
    }
  return out;
}
#endif

std::string
reason_class(const std::string& how)
{
  // first words of the message, digits removed, for the histogram
  std::string r;
  for (char ch : how.substr(0, 48))
    r += (isdigit((unsigned char)ch) ? '#' : (ch == '\n' ? ' ' : ch));
  return r;
}

bool g_last_nontrivial = false;

// ---- (ext5) the truncation clause as a metamorphic relation -------------------------------------------------------------------
// "truncation at every line and byte": a header cut directly BEFORE the end-of-line character of line k and the same header
// cut directly BEHIND it consist of the same lines (KeyParser.h: "reads input line by line and parses each line separately";
// std::getline returns a last line without end-of-line like any other line).  Both must get the same accept / reject
// decision from the same reader and, if accepted, give the same object (fingerprint: sizes, voxel sizes, origin, exam info,
// time frames, stream parameters, data values = number type x byte order x offset x scale factors).  For "\r\n" headers
// ("It allows for '\r' at the end of the line (as in files originating in DOS/Windows)") the cut between '\r' and '\n' and
// the cut before "\r\n" are both compared with the cut behind "\r\n", and the complete "\r\n" header with the complete "\n"
// header.  Nothing is demanded about WHICH decision a truncated header gets.
Result
check_cut_pairs(const json& c)
{
  const int kind = int(c["kind"].get<int>() % H_NKINDS);
  const int target = int(c["target"].get<int>() % T_NTARGETS);
  const int sub = c["sub"].get<int>();
  const std::string dir = c17::scratch_dir();
  Base base;
  try
    {
      base = make_base(kind, c["spec"]);
    }
  catch (const std::exception& e)
    {
      return Result::reject(std::string("generated configuration refused at construction: ") + c17::enc(std::string(e.what()).substr(0, 80)));
    }
  c17::clean_scratch();
  stats().cls(std::string("cut pairs | kind: ") + KIND_NAME[kind]);
  std::vector<std::string> lines = c17::split_lines(base.text);
  for (std::string& l : lines)
    if (!l.empty() && l.back() == '\r')
      l.pop_back();
  const int eol_mode = int(c.value("eol", 0)) % 3;
  if (eol_mode == 2)
    {
      // without the stop key line: the last line of every cut is an ordinary "key := value" line
      for (std::size_t i = lines.size(); i-- > 0;)
        {
          const std::string k = c17::ref_standardise(lines[i].substr(0, lines[i].find(":=")));
          if (k == "end of interfile" || k == "end")
            {
              lines.erase(lines.begin() + std::ptrdiff_t(i));
              break;
            }
        }
    }
  const std::string eol = eol_mode == 1 ? "\r\n" : "\n";
  const long n = long(lines.size());
  if (n == 0)
    return Result::reject("empty header");
  // the data file (complete, as for data mode 0)
  {
    long want = std::min(base.declared_bytes(), long(MAX_DATA_BYTES));
    std::string bytes(std::size_t(std::max(0L, want)), '\0');
    SplitMix g{ uint64_t(c["dseed"].get<long>()) * 7919 + 1 };
    for (std::size_t i = 0; i < bytes.size(); ++i)
      bytes[i] = char(g.next() & 0x3f);
    if (base.data_name != "d.s")
      c17::write_file(dir + "/d.v", bytes);
    if (base.data_name != "d.v")
      c17::write_file(dir + "/d.s", bytes);
  }
  const std::string hdr_path = dir + "/d." + base.ext;
#ifdef C17_ASAN
  stir_verif::asserts_on = false;
#endif
  struct AssertsBack
  {
    ~AssertsBack() { stir_verif::asserts_on = true; }
  } asserts_back;
  std::string failure;
  bool inconclusive = false;
  auto run = [&](const std::string& text, Outcome& o) {
    c17::write_file(hdr_path, text);
    std::size_t refused = 0, max_single = 0;
    const Isolated iso = run_isolated(target, sub, hdr_path, text, -1, o, refused, max_single);
    if (iso.died == "timeout")
      inconclusive = true;
    else if (!iso.died.empty() && failure.empty())
      failure = cat("a truncated library-written header makes the reader crash: ", iso.died, " ", c17::enc(iso.headline), "\n--- header:\n", c17::enc(text));
    else if (refused != 0 && failure.empty())
      failure = cat("a truncated library-written header makes the reader request ", refused, " bytes\n--- header:\n", c17::enc(text));
  };
  std::vector<long> ks;
  if (c["cuts"].empty())
    for (long k = 0; k < n; ++k)
      ks.push_back(k);
  else
    for (const auto& x : c["cuts"])
      ks.push_back(((x.get<long>() % n) + n) % n);
#ifdef C17_ASAN
  if (!c["cuts"].empty() && !c.value("keepcuts", false) && ks.size() > 3) // (generated cases: three cuts are enough for the memory checker)
    ks.resize(3);
#endif
  std::sort(ks.begin(), ks.end());
  ks.erase(std::unique(ks.begin(), ks.end()), ks.end());
  const std::string where = cat("\n  kind=", KIND_NAME[kind], " reader=", TARGET_NAME[target], " sub=", sub % 7, " end-of-line=", eol_mode == 1 ? "\\r\\n" : "\\n",
                                eol_mode == 2 ? " (stop key line dropped)" : "");
  for (const long k : ks)
    {
      std::string behind;
      for (long i = 0; i <= k; ++i)
        behind += lines[std::size_t(i)] + eol;
      std::vector<std::pair<std::string, std::string>> befores = { { "directly before the '\\n'", behind.substr(0, behind.size() - 1) } };
      if (eol_mode == 1)
        befores.push_back({ "directly before the \"\\r\\n\"", behind.substr(0, behind.size() - 2) });
      Outcome oa;
      run(behind, oa);
      for (const auto& b : befores)
        {
          Outcome ob;
          run(b.second, ob);
          if (inconclusive)
            return Result::reject("inconclusive: timeout");
          if (!failure.empty())
            return Result::fail(failure + where);
          const std::string ctx = cat(where, "\n  line ", k + 1, " of ", n, ": '", c17::enc(lines[std::size_t(k)]), "'\n  cut behind the end-of-line: ", oa.how,
                                      "\n  cut ", b.first, ": ", ob.how, "\n--- header (cut behind the end-of-line of the last line shown):\n", c17::enc(behind));
          VF_CHECK(oa.accepted == ob.accepted, "truncation ", b.first, " of a line and directly behind it get different decisions", ctx);
          if (oa.accepted)
            {
              VF_CHECK(oa.elements == ob.elements && oa.dims == ob.dims && oa.datasets == ob.datasets, "truncation ", b.first,
                       " of a line gives an object of other sizes than truncation directly behind it: ", ob.elements, " / ", oa.elements, " elements", ctx);
              VF_CHECK(oa.fp == ob.fp, "truncation ", b.first, " of a line gives another object than truncation directly behind it\n  behind: ", oa.fp,
                       "\n  before: ", ob.fp, ctx);
              VF_CHECK(oa.inconsistency.empty(), "accepted object is inconsistent: ", oa.inconsistency, ctx);
            }
          stats().cls(oa.accepted ? "cut pair: both accepted, same object" : "cut pair: both rejected");
          stats().count("cut pairs compared");
        }
      // the complete header: "\r\n" line ends give what "\n" line ends give (documented)
      if (k == n - 1 && eol_mode == 1)
        {
          std::string lf;
          for (const std::string& l : lines)
            lf += l + "\n";
          Outcome ol;
          run(lf, ol);
          if (inconclusive)
            return Result::reject("inconclusive: timeout");
          if (!failure.empty())
            return Result::fail(failure + where);
          const std::string ctx = cat(where, "\n  \\n: ", ol.how, "\n  \\r\\n: ", oa.how, "\n--- header:\n", c17::enc(lf));
          VF_CHECK(oa.accepted == ol.accepted, "the same header is decided differently with \"\\r\\n\" line ends than with \"\\n\" line ends", ctx);
          if (oa.accepted)
            VF_CHECK(oa.fp == ol.fp && oa.elements == ol.elements && oa.dims == ol.dims, "a header with \"\\r\\n\" line ends gives another object than with \"\\n\" line ends\n  \\r\\n: ",
                     oa.fp, "\n  \\n:   ", ol.fp, ctx);
          stats().cls("complete header: \\r\\n line ends compared with \\n line ends");
          // unmutated library header with complete data: has to be accepted (as in the main clause)
          if (kind != H_SIEMENS && kind != H_SIEMENS_LM)
            VF_CHECK(ol.accepted, "a header written by the library itself (with a complete data file) is refused: ", ol.how, ctx);
        }
    }
  g_last_nontrivial = true; // (truncated, start key present, both parses ran to the end of their input)
  stats().cls("non-trivial (mutated, start key present, parse ran to the end)");
  return Result::pass();
}

Result
check(const json& c)
{
  c17::quiet();
  g_last_nontrivial = false;
  c17::ScratchCleaner cleaner;
  c17::clean_scratch();
  if (c.value("cutpair", false))
    return check_cut_pairs(c);
  const bool raw = c["raw"].get<bool>();
  const int kind = int(c["kind"].get<int>() % H_NKINDS);
  const int target = int(c["target"].get<int>() % T_NTARGETS);
  const int sub = c["sub"].get<int>();
  const std::string dir = c17::scratch_dir();

  // ---- the header text
  std::string text;
  Base base;
  bool mutated = true;
  bool pure_list = false;
  int model_kind = -1;
  if (raw)
    {
      text = c17::dec(c["text"].get<std::string>());
      base.ext = (target >= T_PDFS && target <= T_PROJDATA_READ_FROM_FILE) ? "hs" : "hv";
      stats().cls("raw text case");
    }
  else
    {
      try
        {
          base = make_base(kind, c["spec"]);
        }
      catch (const std::exception& e)
        {
          return Result::reject(std::string("generated configuration refused at construction: ") + c17::enc(std::string(e.what()).substr(0, 80)));
        }
      std::string other;
      bool needs_other = false;
      for (const auto& m : c["muts"])
        if (((m[0].get<long>() % NOPS) + NOPS) % NOPS == 6)
          needs_other = true;
      if (needs_other)
        {
          try
            {
              // (written to the same scratch names: re-create the base afterwards)
              other = make_base(int(c["okind"].get<int>() % H_NKINDS), c["ospec"]).text;
              base = make_base(kind, c["spec"]);
            }
          catch (const std::exception&)
            {
              other.clear();
            }
        }
      g_list_log.clear();
      text = mutate(base.text, other, c["muts"]);
      mutated = text != base.text;
      stats().cls(std::string("kind: ") + KIND_NAME[kind]);
      // the reference model of an accepted object applies to the library's own header, unmutated or with list-length mutations only
      pure_list = !c["muts"].empty();
      for (const auto& m : c["muts"])
        if (((m[0].get<long>() % NOPS) + NOPS) % NOPS != OP_LIST_LENGTH)
          pure_list = false;
      const bool natural_reader = (kind == H_IMAGE && target <= T_IMAGE_STREAM) || (kind == H_DYNAMIC && target == T_DYNAMIC)
                                  || (kind == H_PARAMETRIC && target == T_PARAMETRIC)
                                  || ((kind == H_PDFS || kind == H_PDFS_TOF || kind == H_SPECT || kind == H_SIEMENS) && (target == T_PDFS || target == T_PROJDATA_READ_FROM_FILE))
                                  || (kind == H_MULTI && target == T_MULTI) || (kind == H_SIEMENS_LM && target == T_HEADER_CLASS && sub % 7 == 4);
      if ((!mutated || pure_list) && natural_reader)
        model_kind = kind;
    }
  c17::clean_scratch(); // the library's own files (.hv/.ahv) go; the case's files are written below
  stats().cls(std::string("target: ") + TARGET_NAME[target]);

  const std::string sig = c17::no_exclude() ? "" : known_signature_of(text, target, sub);
  if (!sig.empty())
    {
      stats().excluded_known++;
      stats().count("excluded:" + sig);
      return Result::reject("known:" + sig);
    }

  // ---- bookkeeping from the text (conservative)
  std::vector<KV> kvs = mini_parse(text);
  bool has_start = false, has_stop = false;
  for (const KV& kv : kvs)
    {
      if (kv.key == "interfile" || kv.key == "multi")
        has_start = true;
      if (kv.key == "end of interfile" || kv.key == "end")
        has_stop = true;
    }
  // parsing stops at the stop key (documented): what follows "END OF INTERFILE" is not part of the header
  for (std::size_t i = 0; i < kvs.size(); ++i)
    if (kvs[i].key == "end of interfile")
      {
        kvs.resize(i);
        break;
      }
  long bpp = -1, offset = -1;
  {
    std::string v;
    int occ = 0;
    if (unique_value(kvs, "number of bytes per pixel", -1, v, occ))
      {
        if (!as_long(v, bpp))
          bpp = -1;
      }
    // offset: "data offset in bytes[1]" (vectorised) or without index (SPECT/Siemens listmode); absent = 0
    int occ_any = 0;
    std::string va;
    unique_value(kvs, "data offset in bytes", -1, va, occ_any);
    if (occ_any == 0)
      offset = 0;
    else
      {
        int occ1 = 0;
        std::string v1;
        bool only_first = true;
        for (const KV& kv : kvs)
          if (kv.key == "data offset in bytes" && kv.has_index && kv.index != 1)
            only_first = false;
        if (unique_value(kvs, "data offset in bytes", 1, v1, occ1) && only_first)
          {
            if (!as_long(v1, offset))
              offset = -1;
          }
        // "data offset in bytes" only becomes a keyword of the image and PET projection data headers when the line
        // "type of data := PET" is processed (InterfileHeader::set_type_of_data); an offset line before that is an unknown
        // keyword, which KeyParser ignores as documented (the offset stays 0).  The offset of the text is therefore only
        // treated as known when a "type of data" line precedes every offset line.
        bool type_seen = false;
        for (const KV& kv : kvs)
          {
            if (kv.key == "type of data")
              type_seen = true;
            else if (kv.key == "data offset in bytes" && !type_seen)
              offset = -1;
          }
      }
  }
  // sizes the (mutated) header declares, for data mode 5
  long declared = -1;
  if (bpp > 0 && offset >= 0)
    {
      // product of all "matrix size" values (lists are summed: per-segment axial sizes)
      double prod = 1;
      int nsz = 0;
      for (const KV& kv : kvs)
        if (kv.key == "matrix size")
          {
            double sum = 0;
            std::string t = kv.value;
            for (char& ch : t)
              if (ch == '{' || ch == '}' || ch == ',')
                ch = ' ';
            std::istringstream is(t);
            double x;
            while (is >> x)
              sum += x;
            prod *= sum;
            ++nsz;
          }
      // SPECT headers give the number of views separately
      {
        std::string v;
        int occ = 0;
        long nproj = 0;
        if (unique_value(kvs, "number of projections", -1, v, occ) && as_long(v, nproj) && nproj > 0)
          prod *= double(nproj);
      }
      if (nsz > 0 && prod >= 0 && prod * double(bpp) < 1e9)
        declared = offset + long(prod) * bpp;
    }

  // ---- the data file
  const int dmode = int(c["dmode"].get<int>() % 6);
  long want = -1;
  const long dlen = c["dlen"].get<long>();
  switch (dmode)
    {
    case 0:
      want = raw ? dlen : base.declared_bytes();
      break;
    case 1:
      want = -1; // no file
      break;
    case 2:
      want = raw ? dlen / 2 : std::max(0L, base.declared_bytes() - std::max(1L, dlen % 64));
      break;
    case 3:
      want = 0;
      break;
    case 4:
      want = (raw ? dlen : base.declared_bytes()) + 1 + dlen % 64;
      break;
    default:
      want = declared >= 0 ? declared : (raw ? dlen : base.declared_bytes());
      break;
    }
  if (want > long(MAX_DATA_BYTES))
    want = long(MAX_DATA_BYTES);
  long data_size = -1;
  if (want >= 0)
    {
      std::string bytes(std::size_t(want), '\0');
      SplitMix g{ uint64_t(c["dseed"].get<long>()) * 7919 + 1 };
      for (std::size_t i = 0; i < bytes.size(); ++i)
        bytes[i] = char(g.next() & 0x3f); // small positive numbers in every number format (no NaN patterns)
      // the name the valid headers use; raw texts get both
      if (raw || base.data_name != "d.s")
        c17::write_file(dir + "/d.v", bytes);
      if (raw || base.data_name != "d.v")
        c17::write_file(dir + "/d.s", bytes);
      data_size = want;
    }
  stats().cls(std::string("data file: ") + (dmode == 0 ? "as written" : dmode == 1 ? "missing" : dmode == 2 ? "short" : dmode == 3 ? "empty" : dmode == 4 ? "long" : "as the mutated header declares"));
  const std::string hdr_path = dir + "/d." + base.ext;
  c17::write_file(hdr_path, text);

  // ---- run
#ifdef C17_ASAN
  stir_verif::asserts_on = false; // Release behaviour; ASan decides about the memory accesses behind the assertions
#endif
  Outcome o;
  std::size_t refused = 0, max_single = 0;
  const bool prime = c.value("prime", false);
  if (prime)
    {
      // a small valid image for the F14 probe
      c17::write_file(dir + "/prime.hv", "!INTERFILE :=\nname of data file := prime.v\n!type of data := PET\nimagedata byte order := LITTLEENDIAN\n!PET data type := Image\n"
                                          "!number format := float\n!number of bytes per pixel := 4\nnumber of dimensions := 3\n!matrix size [1] := 1\n!matrix size [2] := 1\n"
                                          "!matrix size [3] := 1\nnumber of time frames := 1\n!END OF INTERFILE :=\n");
      c17::write_file(dir + "/prime.v", std::string(4, '\0'));
    }
  const Isolated iso = run_isolated(target, sub, (prime ? "prime:" : "") + hdr_path, text, model_kind, o, refused, max_single);
  stir_verif::asserts_on = true;
  if (iso.died == "timeout")
    {
      stats().count("inconclusive: reader did not return within 120 s");
      return Result::reject("inconclusive: timeout");
    }
  const std::string ctx = cat("\n  kind=", raw ? "raw" : KIND_NAME[kind], " reader=", TARGET_NAME[target], " sub=", sub % 7, " data file=", data_size,
                              " bytes\n--- header:\n", c17::enc(text));
  const bool small_input = text.size() < SMALL_INPUT;

  // 0. crash or unbounded allocation (seen here thanks to the process isolation; in-process the crash itself is the signal)
  if (!iso.died.empty() || (refused != 0 && small_input))
    {
      const std::string what = !iso.died.empty()
                                   ? iso.died
                                   : cat("a single allocation of ", refused, " bytes (> 512 MiB) was requested while reading a header of ", text.size(),
                                         " bytes (data file ", data_size, " bytes); outcome: ", o.how);
#ifdef C17_ASAN
      if (outside_the_property(iso.headline))
        {
          stats().count(OUTSIDE);
          return Result::reject(OUTSIDE);
        }
      const std::string known = known_site_signature(iso.frames, iso.headline);
      if (!known.empty())
        {
          stats().excluded_known++;
          stats().count("excluded (after the fact, by report site):" + known);
          return Result::reject("known:" + known);
        }
      std::string fr;
      for (std::size_t i = 0; i < iso.frames.size() && i < 6; ++i)
        fr += "\n    " + iso.frames[i];
      return Result::fail(cat(what, "\n  report: ", c17::enc(iso.headline), "\n  library frames:", fr, ctx));
#else
      const std::string verdict = ask_asan_flavour(c);
      if (verdict.rfind(std::string("REJECT ") + OUTSIDE, 0) == 0)
        {
          stats().count(OUTSIDE);
          return Result::reject(OUTSIDE);
        }
      if (verdict.rfind("REJECT known:", 0) == 0)
        {
          stats().excluded_known++;
          stats().count("excluded (after the fact, classified by the asan flavour):" + c17::enc(verdict.substr(13, 120)));
          return Result::reject(c17::enc(verdict.substr(7, 150)));
        }
      std::string pv = verdict.substr(0, 600);
      for (char& ch : pv)
        if ((static_cast<unsigned char>(ch) < 0x20 && ch != '\n') || static_cast<unsigned char>(ch) > 0x7e)
          ch = '?';
      return Result::fail(cat(what, "\n  asan flavour on the same case: ", verdict.empty() ? "(not available)" : pv, ctx));
#endif
    }
  stats().maxi("largest single allocation (MiB)", double(max_single) / (1 << 20));
  stats().cls(o.accepted ? "outcome: accepted" : "outcome: rejected (" + reason_class(o.how) + ")");
  if (o.how.rfind("assert", 0) == 0)
    stats().count("plain flavour: internal assertion reached (counted as rejection; decided by the asan flavour)");

  // 2. the library's own header for valid data must be accepted and give the sizes that were written
  const bool natural = (kind == H_IMAGE && target <= T_IMAGE_STREAM) || (kind == H_DYNAMIC && target == T_DYNAMIC)
                       || (kind == H_PARAMETRIC && target == T_PARAMETRIC)
                       || ((kind == H_PDFS || kind == H_PDFS_TOF || kind == H_SPECT || kind == H_SIEMENS) && (target == T_PDFS || target == T_PROJDATA_READ_FROM_FILE))
                       || (kind == H_MULTI && target == T_MULTI) || (kind == H_SIEMENS_LM && target == T_HEADER_CLASS && sub % 7 == 4);
  if (pure_list && natural && !g_list_log.empty())
    {
      // (a case with two list mutations is counted under its own heading: either of them may be the reason for a rejection)
      const std::string w = g_list_log.size() == 1 ? g_list_log[0] : "two lists at once";
      stats().cls("list length | " + w + (o.accepted ? " -> accepted" : " -> rejected"));
      if (const char* tr = std::getenv("VERIF_C17_TRACE")) // development aid: which case gave which outcome
        {
          std::string how = o.how;
          for (char& ch : how)
            if (ch == '\n' || ch == '\t')
              ch = ' ';
          std::ofstream f(tr, std::ios::app);
          f << w << (o.accepted ? " -> accepted" : " -> rejected (" + how + ")") << "\t" << c.dump() << "\n";
        }
    }
  if (model_kind >= 0 && o.accepted && natural)
    stats().cls("accepted object compared with the model of the header text");
  if (!raw && !mutated && natural && kind == H_SIEMENS_LM)
    VF_CHECK(o.accepted, "the Siemens list-mode sample header of the distribution is refused by InterfileListmodeHeaderSiemens: ", o.how, ctx);
  if (!raw && !mutated && natural && (dmode == 0 || dmode == 4) && kind != H_SIEMENS && kind != H_SIEMENS_LM)
    {
      stats().cls("unmutated library header with complete data");
      VF_CHECK(o.accepted, "a header written by the library itself (with a complete data file) is refused: ", o.how, ctx);
      VF_CHECK(o.elements == base.elements, "a header written by the library itself reads back with ", o.elements, " elements, written were ",
               base.elements, ctx);
      if (!base.dims.empty())
        VF_CHECK(o.dims == base.dims, "image sizes read back differ from the ones written", ctx);
      if (o.read_attempted)
        VF_CHECK(o.read_all_ok, "complete data written for the library's own header cannot be read", ctx);
    }

  if (o.accepted)
    {
      // 3. self-consistency of the accepted object
      VF_CHECK(o.inconsistency.empty(), "accepted object is inconsistent: ", o.inconsistency, ctx);
      // 4. no silently short data: needs bytes-per-pixel and offset known unambiguously from the text
      if ((o.is_image || (o.is_projdata && o.read_attempted && o.read_all_ok)) && bpp > 0 && offset >= 0 && o.elements >= 0)
        {
          // data sets beyond the first have their own offsets; the first one alone already gives a lower bound
          const long needed = offset + o.elements * bpp;
          const long have = std::max(0L, data_size);
          // (a header may name another data file than d.v/d.s, e.g. /dev/zero: then nothing is known)
          std::string dn;
          int occ = 0;
          const bool names_our_file = unique_value(kvs, "name of data file", -1, dn, occ) && (dn == "d.v" || dn == "d.s");
          if (names_our_file)
            {
              stats().cls(have >= needed ? "accepted with sufficient data" : "accepted although the data file is too short");
              VF_CHECK(have >= needed, "data silently short: the reader returned an object of ", o.elements, " elements x ", bpp, " bytes at offset ",
                       offset, " = ", needed, " bytes, but the data file has only ", have, " bytes", ctx);
            }
        }
    }
  // non-trivial: the text still has a start key, and the parse got as far as deciding (accepted, or rejected otherwise than by the start-key test)
  o.reached_post_processing = o.accepted || has_stop;
  g_last_nontrivial = (raw || mutated) && has_start && o.reached_post_processing;
  if (g_last_nontrivial)
    stats().cls("non-trivial (mutated, start key present, parse ran to the end)");
  return Result::pass();
}

bool
nontrivial(const json&)
{
  return g_last_nontrivial;
}

// ---- fixed cases: every kind unmutated with every natural reader (the campaign's sanity base) ----------------
std::vector<json>
fixed_cases(int)
{
  std::vector<json> v;
  for (int kind = 0; kind < H_NKINDS; ++kind)
    for (uint64_t sd = 1; sd <= 3; ++sd)
      {
        PrngSrc s(1000 * uint64_t(kind) + sd);
        json c;
        c["raw"] = false;
        c["kind"] = kind;
        c["spec"] = gen_spec(s, kind);
        c["okind"] = 0;
        c["ospec"] = gen_spec(s, 0);
        c["muts"] = json::array();
        c["target"] = natural_target(s, kind);
        c["sub"] = kind == H_SIEMENS_LM ? 4 : 0;
        c["dmode"] = 0;
        c["dlen"] = 1;
        c["dseed"] = long(sd);
        v.push_back(c);
      }
  // (ext5) cut pairs at EVERY line of one header of every kind, for each end-of-line mode
  // (the comparison is the plain flavour's job; under ASan a reader run costs ~30 ms, so that flavour cuts at the last 6 lines only)
  for (int kind = 0; kind < H_NKINDS; ++kind)
    for (int eol = 0; eol < 3; ++eol)
      {
        PrngSrc s(90000 + 10 * uint64_t(kind) + uint64_t(eol));
        json c = gen_cut_case(s, kind, true);
        c["eol"] = eol;
#ifdef C17_ASAN
        if (eol != kind % 3)
          continue;
        c["cuts"] = json::array({ -1, -2, -3, -4, -5, -6 });
        c["keepcuts"] = true;
#endif
        v.push_back(c);
      }
  // every list x {shorter by 1, shorter by 2, longer by 1, longer by 2, empty, same length} of every kind once, deterministically
  for (int kind = 0; kind < H_NKINDS; ++kind)
    {
      std::set<int> done;
      for (int fam : list_families_of_kind(kind))
        {
          if (!done.insert(fam).second)
            continue;
          for (int lm = 0; lm < LM_NMODES; ++lm)
            for (int amount = 1; amount <= ((lm == LM_SHORTER || lm == LM_LONGER) ? 2 : 1); ++amount)
              {
                // ("same length" only rewrites the lists that are inserted with the right length: the unmutated headers above are the
                //  positive control of the others)
                if (lm == LM_SAME && LIST_FAMILIES[fam].type != 'T' && LIST_FAMILIES[fam].type != 'F')
                  continue;
                PrngSrc s(50000 + 1000 * uint64_t(kind) + 20 * uint64_t(fam) + 4 * uint64_t(lm) + uint64_t(amount));
                v.push_back(gen_list_case(s, kind, fam, lm, amount));
              }
        }
    }
  return v;
}

// ---- seed corpus for libFuzzer: VERIF_C17_WRITE_CORPUS=<dir> makes the binary write it and exit ----------------
// encoding = what gen() reads from a BytesSrc: [size][mode=15][kind][target][sub][dmode][dlen hi,lo][dseed][len hi,lo][text...]
void
maybe_write_corpus()
{
  const char* d = std::getenv("VERIF_C17_WRITE_CORPUS");
  if (!d)
    return;
  c17::quiet();
  std::error_code ec;
  std::filesystem::create_directories(d, ec);
  int n = 0;
  for (int kind = 0; kind < H_NKINDS; ++kind)
    for (uint64_t sd = 1; sd <= 3; ++sd)
      {
        PrngSrc s(77 * uint64_t(kind) + sd);
        const json spec = gen_spec(s, kind);
        Base b;
        try
          {
            b = make_base(kind, spec);
          }
        catch (const std::exception&)
          {
            continue;
          }
        if (b.text.size() > 4095)
          continue;
        const int target = natural_target(s, kind);
        std::string bytes;
        bytes += char(50);
        bytes += char(15);
        bytes += char(std::min(kind, 7)); // (raw cases only know 8 kinds; the kind of a raw case is informative)
        bytes += char(target);
        bytes += char(kind == H_SIEMENS_LM ? 4 : 0);
        bytes += char(5); // data file as the header declares
        bytes += char(0);
        bytes += char(64);
        bytes += char(sd);
        bytes += char((b.text.size() >> 8) & 0xff);
        bytes += char(b.text.size() & 0xff);
        bytes += b.text;
        c17::write_file(std::string(d) + "/seed_" + std::to_string(kind) + "_" + std::to_string(sd), bytes);
        ++n;
      }
  c17::clean_scratch();
  std::cout << "wrote " << n << " seed inputs to " << d << std::endl;
  std::exit(0);
}

} // namespace

const Property&
the_property()
{
  static Property p;
  if (p.id.empty())
    {
      maybe_write_corpus();
      p.id = "C17";
      p.gen = gen;
      p.check = check;
      p.nontrivial = nontrivial;
      p.fixed_cases = fixed_cases;
      p.shrink_lists = { "muts" };
      p.rule = "";
    }
  return p;
}

// C01 — detector pairs <-> sinogram bins are a consistent partition.
// For one generated configuration ALL ordered detector pairs x ring pairs x unmashed TOF indices
// are enumerated (strided for the largest predefined scanners) and compared, by pure set
// reasoning, with what the bins report.
//
// Object histories (c12_history.h, shared with C12): the property's anchors name the lazily built tables
// (uncompressed_view_tangpos_to_det1det2, det1det2_to_uncompressed_view_tangpos, the Michelogram tables) as state.  In about half of
// the generated configurations, every other enumerated one and part of the fixed ones the object under test is therefore DERIVED
// from another, already used object (clone / SSRB(ProjDataInfo&,...) / public setters); all clauses run on the derived object, and
// it must equal (operator==) the fresh twin constructed directly with the final parameters and map every detector pair and ring
// pair as the twin does.
// Aliasing (c12_history.h (iv)): about half of the histories additionally KEEP objects (the original of a clone / SSRB call, side
// copies made by clone / create_shared_clone / copy constructor / copy assignment / create_non_tof_clone) while the other object is
// changed with the setters and used; every kept object must afterwards still equal, and answer on the whole API of the property like,
// a fresh twin of its OWN settings that was built on its own Scanner object and never copied.
#include "stir_gen.h"
#include "c12_history.h"
#include "stir/ProjDataInfoCylindricalNoArcCorr.h"
#include "stir/ProjDataInfoGenericNoArcCorr.h"
#include "stir/ProjDataInfoBlocksOnCylindricalNoArcCorr.h"
#include "stir/DetectionPositionPair.h"
#include "stir/Bin.h"
#include <map>
#include <set>
#include <tuple>

using namespace vf;
using namespace stir;

namespace {

typedef std::tuple<int, int, int, int, int> BinKey;  // seg, ax, view, tang, tof
typedef std::tuple<int, int, int, int, int> PairKey; // d1, r1, d2, r2, t   (canonical orientation)

inline BinKey
key(const Bin& b)
{
  return BinKey(b.segment_num(), b.axial_pos_num(), b.view_num(), b.tangential_pos_num(), b.timing_pos_num());
}
// canonical representative modulo DetectionPositionPair::operator== : (p1,p2,t) ~ (p2,p1,-t)
inline PairKey
canon(int d1, int r1, int d2, int r2, int t)
{
  if (std::make_pair(d1, r1) <= std::make_pair(d2, r2))
    return PairKey(d1, r1, d2, r2, t);
  return PairKey(d2, r2, d1, r1, -t);
}

inline bool
in_range(const ProjDataInfo& p, const Bin& b)
{
  if (b.segment_num() < p.get_min_segment_num() || b.segment_num() > p.get_max_segment_num())
    return false;
  if (b.axial_pos_num() < p.get_min_axial_pos_num(b.segment_num()) || b.axial_pos_num() > p.get_max_axial_pos_num(b.segment_num()))
    return false;
  if (b.view_num() < p.get_min_view_num() || b.view_num() > p.get_max_view_num())
    return false;
  if (b.tangential_pos_num() < p.get_min_tangential_pos_num() || b.tangential_pos_num() > p.get_max_tangential_pos_num())
    return false;
  if (b.timing_pos_num() < p.get_min_tof_pos_num() || b.timing_pos_num() > p.get_max_tof_pos_num())
    return false;
  return true;
}

template <class PDI>
struct Api;
template <>
struct Api<ProjDataInfoCylindricalNoArcCorr>
{
  static void all(const ProjDataInfoCylindricalNoArcCorr& p, std::vector<DetectionPositionPair<>>& v, const Bin& b, bool ignore)
  {
    p.get_all_det_pos_pairs_for_bin(v, b, ignore);
  }
  static unsigned num(const ProjDataInfoCylindricalNoArcCorr& p, const Bin& b, bool ignore) { return p.get_num_det_pos_pairs_for_bin(b, ignore); }
};
template <>
struct Api<ProjDataInfoGenericNoArcCorr>
{
  static void all(const ProjDataInfoGenericNoArcCorr& p, std::vector<DetectionPositionPair<>>& v, const Bin& b, bool)
  {
    p.get_all_det_pos_pairs_for_bin(v, b);
  }
  static unsigned num(const ProjDataInfoGenericNoArcCorr& p, const Bin& b, bool) { return p.get_num_det_pos_pairs_for_bin(b); }
};

template <class PDI>
Result
check_config(const PDI& p, const json& c)
{
  const Scanner& sc = *p.get_scanner_ptr();
  const int ndet = sc.get_num_detectors_per_ring();
  const int rings = sc.get_num_rings();
  const int ring_stride = c.value("ring_stride", 1);
  const int det_stride = c.value("det_stride", 1); // only used for clause 1/3 sampling on the very largest scanners
  const int tofmash = p.get_tof_mash_factor();
  const bool tof = p.is_tof_data();
  // unmashed TOF indices to enumerate
  int tmin = 0, tmax = 0;
  if (tof)
    {
      const int N = sc.get_max_num_timing_poss();
      tmin = -(N / 2) - 1;
      tmax = N / 2 + 1;
    }
  const bool odd_mash = !tof || (tofmash % 2 == 1);
  const bool full = ring_stride == 1 && det_stride == 1;
  const int mash = p.get_view_mashing_factor();

  // ---- clause 4: ring pairs are partitioned over (segment, axial position) -----------------
  {
    std::map<std::pair<int, int>, std::set<std::pair<int, int>>> listed; // (s,a) -> ring pairs listed
    for (int s = p.get_min_segment_num(); s <= p.get_max_segment_num(); ++s)
      for (int a = p.get_min_axial_pos_num(s); a <= p.get_max_axial_pos_num(s); ++a)
        {
          const auto& rp = p.get_all_ring_pairs_for_segment_axial_pos_num(s, a);
          VF_CHECK(rp.size() == p.get_num_ring_pairs_for_segment_axial_pos_num(s, a), "num ring pairs != list size at seg ", s, " ax ", a);
          std::set<std::pair<int, int>> st;
          for (auto& pr : rp)
            {
              VF_CHECK(pr.first >= 0 && pr.first < rings && pr.second >= 0 && pr.second < rings, "ring pair outside scanner in seg ", s, " ax ", a);
              VF_CHECK(st.insert(std::make_pair(pr.first, pr.second)).second, "duplicate ring pair (", pr.first, ",", pr.second, ") in seg ", s, " ax ", a);
              // maps back
              int s2, a2;
              VF_CHECK(p.get_segment_axial_pos_num_for_ring_pair(s2, a2, pr.first, pr.second) == Succeeded::yes && s2 == s && a2 == a,
                       "listed ring pair (", pr.first, ",", pr.second, ") of seg ", s, " ax ", a, " maps to seg ", s2, " ax ", a2);
            }
          listed[std::make_pair(s, a)] = st;
        }
    for (int r1 = 0; r1 < rings; ++r1)
      for (int r2 = 0; r2 < rings; ++r2)
        {
          bool covered = false;
          for (int s = p.get_min_segment_num(); s <= p.get_max_segment_num(); ++s)
            if (p.get_min_ring_difference(s) <= r2 - r1 && r2 - r1 <= p.get_max_ring_difference(s))
              covered = true;
          int s, a;
          const Succeeded ok = p.get_segment_axial_pos_num_for_ring_pair(s, a, r1, r2);
          VF_CHECK((ok == Succeeded::yes) == covered, "ring pair (", r1, ",", r2, ") covered=", covered, " but lookup says ", ok == Succeeded::yes);
          int count = 0;
          for (auto& kv : listed)
            if (kv.second.count(std::make_pair(r1, r2)))
              {
                ++count;
                VF_CHECK(covered && kv.first == std::make_pair(s, a), "ring pair (", r1, ",", r2, ") listed under seg ", kv.first.first, " ax ",
                         kv.first.second, " but assigned to seg ", s, " ax ", a);
              }
          // The axial ranges of the configurations of this property are never reduced (the quantifier has reduced segment and
          // tangential ranges only; get_segment_axial_pos_num_for_ring_pair documents an axial position "outside the actual range"
          // for reduced ranges): every covered ring pair must lie in an (in-range) axial position of its segment.
          if (covered)
            VF_CHECK(a >= p.get_min_axial_pos_num(s) && a <= p.get_max_axial_pos_num(s), "covered ring pair (", r1, ",", r2, ") is assigned to seg ", s, " ax ", a,
                     ", outside the axial range ", p.get_min_axial_pos_num(s), "..", p.get_max_axial_pos_num(s), " of that segment, which was never reduced");
          if (covered)
            VF_CHECK(count == 1, "covered ring pair (", r1, ",", r2, ") is listed ", count, " times (assigned to seg ", s, " ax ", a, ")");
          else
            VF_CHECK(count == 0, "ring pair (", r1, ",", r2, ") not assigned to an in-range (seg,ax) but listed ", count, " times");
        }
  }

  // ---- clause 1: f(pair,t) is a function into at most one bin; exchange law ----------------
  // fibres: bin -> set of canonical pairs (with TOF), and -> set without TOF
  std::map<BinKey, std::set<PairKey>> fibre;
  long n_pairs = 0, n_assigned = 0;
  for (int r1 = 0; r1 < rings; r1 += ring_stride)
    for (int r2 = 0; r2 < rings; r2 += ring_stride)
      for (int d1 = 0; d1 < ndet; d1 += det_stride)
        for (int d2 = 0; d2 < ndet; ++d2)
          {
            if (d1 == d2)
              continue;
            for (int t = tmin; t <= tmax; ++t)
              {
                ++n_pairs;
                const DetectionPositionPair<> dp(DetectionPosition<>(d1, r1), DetectionPosition<>(d2, r2), t);
                Bin b, b2, bx;
                const Succeeded ok = p.get_bin_for_det_pos_pair(b, dp);
                const Succeeded ok2 = p.get_bin_for_det_pos_pair(b2, dp);
                VF_CHECK(ok == ok2 && (ok == Succeeded::no || key(b) == key(b2)), "get_bin_for_det_pos_pair not a function for (", d1, ",", r1, ",", d2,
                         ",", r2, ",t=", t, ")");
                // exchange law: swapped detectors and negated TOF index -> same spatial bin, TOF bin negated
                const DetectionPositionPair<> dpx(DetectionPosition<>(d2, r2), DetectionPosition<>(d1, r1), -t);
                const Succeeded okx = p.get_bin_for_det_pos_pair(bx, dpx);
                VF_CHECK(ok == okx, "exchange law: success differs for (", d1, ",", r1, ",", d2, ",", r2, ",t=", t, ")");
                if (ok == Succeeded::yes)
                  {
                    // (d2,r2,d1,r1,-t) is the SAME event, so it must land in the SAME bin
                    VF_CHECK(key(b) == key(bx), "exchange law: (", d1, ",", r1, ",", d2, ",", r2, ",t=", t, ") -> bin(", b.segment_num(), ",",
                             b.axial_pos_num(), ",", b.view_num(), ",", b.tangential_pos_num(), ",", b.timing_pos_num(), ") but swapped pair -> bin(",
                             bx.segment_num(), ",", bx.axial_pos_num(), ",", bx.view_num(), ",", bx.tangential_pos_num(), ",", bx.timing_pos_num(), ")");
                    // and swapping the detectors while keeping t gives the same spatial bin with the TOF index negated
                    if (tof && odd_mash)
                      {
                        Bin by;
                        const DetectionPositionPair<> dpy(DetectionPosition<>(d2, r2), DetectionPosition<>(d1, r1), t);
                        VF_CHECK(p.get_bin_for_det_pos_pair(by, dpy) == Succeeded::yes, "exchange law: swapped pair with same t rejected");
                        VF_CHECK(by.segment_num() == b.segment_num() && by.axial_pos_num() == b.axial_pos_num() && by.view_num() == b.view_num()
                                     && by.tangential_pos_num() == b.tangential_pos_num() && by.timing_pos_num() == -b.timing_pos_num(),
                                 "exchange law (TOF negation) violated for (", d1, ",", r1, ",", d2, ",", r2, ",t=", t, ")");
                      }
                    if (in_range(p, b))
                      {
                        ++n_assigned;
                        if (odd_mash)
                          fibre[key(b)].insert(canon(d1, r1, d2, r2, t));
                      }
                  }
              }
          }
  stats().count("pairs_enumerated", n_pairs);
  stats().count("pairs_assigned", n_assigned);

  // ---- clause 2: reported fibres == preimages ---------------------------------------------
  if (full && odd_mash)
    {
      std::vector<DetectionPositionPair<>> dps;
      long nbins = 0;
      for (int s = p.get_min_segment_num(); s <= p.get_max_segment_num(); ++s)
        for (int a = p.get_min_axial_pos_num(s); a <= p.get_max_axial_pos_num(s); ++a)
          for (int v = p.get_min_view_num(); v <= p.get_max_view_num(); ++v)
            for (int tp = p.get_min_tangential_pos_num(); tp <= p.get_max_tangential_pos_num(); ++tp)
              for (int k = p.get_min_tof_pos_num(); k <= p.get_max_tof_pos_num(); ++k)
                {
                  ++nbins;
                  const Bin b(s, v, a, tp, k);
                  // with TOF multiplicity
                  Api<PDI>::all(p, dps, b, false);
                  VF_CHECK(dps.size() == Api<PDI>::num(p, b, false), "reported count != list size for bin(", s, ",", a, ",", v, ",", tp, ",", k, ")");
                  std::set<PairKey> got;
                  for (auto& dp : dps)
                    {
                      const PairKey pk = canon(dp.pos1().tangential_coord(), dp.pos1().axial_coord(), dp.pos2().tangential_coord(),
                                               dp.pos2().axial_coord(), dp.timing_pos());
                      VF_CHECK(got.insert(pk).second, "duplicate detector pair in the list of bin(", s, ",", a, ",", v, ",", tp, ",", k, ")");
                    }
                  static const std::set<PairKey> empty;
                  auto it = fibre.find(key(b));
                  const std::set<PairKey>& want = it == fibre.end() ? empty : it->second;
                  if (got != want)
                    {
                      std::string diff;
                      for (auto& x : got)
                        if (!want.count(x))
                          {
                            diff += cat(" listed-but-not-assigned(", std::get<0>(x), ",", std::get<1>(x), ",", std::get<2>(x), ",", std::get<3>(x),
                                        ",t=", std::get<4>(x), ")");
                            break;
                          }
                      for (auto& x : want)
                        if (!got.count(x))
                          {
                            diff += cat(" assigned-but-not-listed(", std::get<0>(x), ",", std::get<1>(x), ",", std::get<2>(x), ",", std::get<3>(x),
                                        ",t=", std::get<4>(x), ")");
                            break;
                          }
                      return Result::fail(cat("bin(", s, ",", a, ",", v, ",", tp, ",", k, "): reported pairs (", got.size(), ") != assigned pairs (",
                                              want.size(), "):", diff));
                    }
                  // without the non-spatial dimension
                  Api<PDI>::all(p, dps, b, true);
                  VF_CHECK(dps.size() == Api<PDI>::num(p, b, true), "reported spatial count != list size");
                  std::set<PairKey> got_sp, want_sp;
                  for (auto& dp : dps)
                    got_sp.insert(canon(dp.pos1().tangential_coord(), dp.pos1().axial_coord(), dp.pos2().tangential_coord(), dp.pos2().axial_coord(), 0));
                  VF_CHECK(got_sp.size() == dps.size(), "duplicate spatial pair in list");
                  // spatial fibre of this (s,a,v,tp): union over TOF bins of pairs with orientation dropped
                  for (int kk = p.get_min_tof_pos_num(); kk <= p.get_max_tof_pos_num(); ++kk)
                    {
                      auto it2 = fibre.find(BinKey(s, a, v, tp, kk));
                      if (it2 != fibre.end())
                        for (auto& x : it2->second)
                          want_sp.insert(PairKey(std::get<0>(x), std::get<1>(x), std::get<2>(x), std::get<3>(x), 0));
                    }
                  VF_CHECK(got_sp == want_sp, "bin(", s, ",", a, ",", v, ",", tp, "): spatial pair list (", got_sp.size(), ") != assigned (", want_sp.size(), ")");
                }
      stats().count("bins_checked", nbins);
    }

  // ---- clause 3: uncompressed data: mutual inverses ------------------------------------------
  const bool uncompressed = mash == 1 && (!tof || tofmash == 1)
                            && [&]() {
                                 for (int s = p.get_min_segment_num(); s <= p.get_max_segment_num(); ++s)
                                   if (p.get_min_ring_difference(s) != p.get_max_ring_difference(s))
                                     return false;
                                 return true;
                               }();
  if (uncompressed)
    {
      for (int s = p.get_min_segment_num(); s <= p.get_max_segment_num(); ++s)
        for (int a = p.get_min_axial_pos_num(s); a <= p.get_max_axial_pos_num(s); ++a)
          for (int v = p.get_min_view_num(); v <= p.get_max_view_num(); ++v)
            for (int tp = p.get_min_tangential_pos_num(); tp <= p.get_max_tangential_pos_num(); ++tp)
              for (int k = p.get_min_tof_pos_num(); k <= p.get_max_tof_pos_num(); ++k)
                {
                  const Bin b(s, v, a, tp, k);
                  DetectionPositionPair<> dp;
                  p.get_det_pos_pair_for_bin(dp, b);
                  Bin back;
                  VF_CHECK(p.get_bin_for_det_pos_pair(back, dp) == Succeeded::yes && key(back) == key(b), "bin->pair->bin is not the identity at bin(", s,
                           ",", a, ",", v, ",", tp, ",", k, "): got bin(", back.segment_num(), ",", back.axial_pos_num(), ",", back.view_num(), ",",
                           back.tangential_pos_num(), ",", back.timing_pos_num(), ")");
                }
      // pair->bin->pair on all pairs with an in-range bin
      for (auto& kv : fibre)
        {
          VF_CHECK(kv.second.size() == 1, "uncompressed data but ", kv.second.size(), " pairs in one bin");
          const BinKey& bk = kv.first;
          const Bin b(std::get<0>(bk), std::get<2>(bk), std::get<1>(bk), std::get<3>(bk), std::get<4>(bk));
          DetectionPositionPair<> dp;
          p.get_det_pos_pair_for_bin(dp, b);
          const PairKey pk = canon(dp.pos1().tangential_coord(), dp.pos1().axial_coord(), dp.pos2().tangential_coord(), dp.pos2().axial_coord(), dp.timing_pos());
          VF_CHECK(pk == *kv.second.begin(), "pair->bin->pair is not the identity (modulo exchange) for bin(", std::get<0>(bk), ",", std::get<1>(bk), ",",
                   std::get<2>(bk), ",", std::get<3>(bk), ",", std::get<4>(bk), ")");
        }
      stats().cls("uncompressed");
    }
  return Result::pass();
}

Result
check(const json& c)
{
  shared_ptr<Scanner> sc;
  shared_ptr<ProjDataInfo> pdi;
  try
    {
      sc = vg::make_scanner(c["scanner"]);
      if (sc->check_consistency() != Succeeded::yes)
        return Result::reject("scanner inconsistent");
      pdi = vg::make_pdi(sc, c["pdi"]);
    }
  catch (const std::exception& e)
    {
      return Result::reject(std::string("construction rejected: ") + e.what());
    }
  if (!dynamic_cast<const ProjDataInfoCylindricalNoArcCorr*>(pdi.get()) && !dynamic_cast<const ProjDataInfoGenericNoArcCorr*>(pdi.get()))
    return Result::reject("not a no-arc-correction geometry");
  // ---- which ring differences are "covered": the harness's own statement of the segments of (span, max ring difference, trim), so
  // that clause 4 does not take "covered" from whatever segment table the code built (c12_history.h (v)); objects reached through a
  // history must equal this fresh twin
  {
    const Result ro = vh::check_own_segments(*pdi, c["pdi"]);
    if (ro.failed())
      return ro;
    const Result rs = vh::check_own_sampling(*pdi, *sc, c["pdi"]);
    if (rs.failed())
      return rs;
  }
  if (pdi->get_min_segment_num() > 0 || pdi->get_max_segment_num() < 0)
    stats().cls("segment range without segment 0");
  if (pdi->get_num_tangential_poss() == 1)
    stats().cls("a single tangential position");
  if (c["scanner"]["type"].get<int>() < 0 && (sc->get_num_rings() == 5 || sc->get_num_rings() == 7))
    stats().cls("5 or 7 rings");
  // ---- object history: the object under test is derived from another, used object; pdi (constructed directly) is its fresh twin ----
  // (the history works on its OWN Scanner object: the fresh twin shares nothing with the objects of the history)
  const bool with_history = c.contains("hist") && c["hist"].is_object();
  shared_ptr<Scanner> sc_hist;
  shared_ptr<ProjDataInfo> fresh = pdi;
  vh::Alias al;
  vh::DiffOpts o;
  if (with_history)
    {
      const json& h = c["hist"];
      shared_ptr<ProjDataInfo> derived;
      sc_hist = vg::make_scanner(c["scanner"]);
      o.ring_stride = c.value("ring_stride", 1);
      o.det_stride = c.value("det_stride", 1);
      o.all_pairs = true;
      o.coords = false;
      // the lists of detector pairs per bin are compared with the twin's on a strided set of bins for the large scanners (the
      // clauses of the property itself always visit all bins of the derived object)
      o.view_stride = sc->get_num_detectors_per_ring() > 128 ? 5 : 1;
      o.ax_stride = sc->get_num_rings() > 16 ? 3 : 1;
      // aliasing re-checks (c12_history.h (iv)): the same differential, on coarser sets of bins and detector pairs for all but the
      // smallest scanners (the ring-pair tables and the ring pair -> (segment, axial position) map are always compared completely)
      al.scanner_spec = c["scanner"];
      vh::set_alias_opts(al, o, *sc);
      if (sc->get_num_detectors_per_ring() > 128 || sc->get_num_rings() > 16)
        al.opts.all_pairs = al.light.all_pairs = false; // (predefined scanners: the detector pairs of the corner ring pairs only)
      const Result rd = vh::derive(derived, sc_hist, h, c["pdi"]["trim"], json(), &al);
      if (rd.failed())
        return rd;
      vh::count_history_classes(h);
      const Result rt = vh::diff_twin(*derived, *fresh, o);
      if (rt.failed())
        return rt;
      pdi = derived;
    }
  else
    stats().cls("history: none (fresh object)");
  Result r = Result::reject("not a no-arc-correction geometry");
  if (auto p = dynamic_cast<const ProjDataInfoCylindricalNoArcCorr*>(pdi.get()))
    {
      stats().cls("cylindrical");
      if (p->is_tof_data())
        stats().cls("tof");
      r = check_config(*p, c);
    }
  else if (auto p = dynamic_cast<const ProjDataInfoGenericNoArcCorr*>(pdi.get()))
    {
      stats().cls("blocks/generic");
      r = check_config(*p, c);
    }
  if (r.kind != Result::PASS || !with_history)
    return r;
  // ---- aliasing: every object that was kept while its copy / original was changed and used still answers like a fresh twin of its
  // own settings; then the object under test once more (the re-checks rebuilt the lazy tables of the kept objects); the Scanner
  // object of the history is unchanged
  {
    const Result ra = vh::recheck_all(al);
    if (ra.failed())
      return ra;
    if (!al.kept.empty())
      {
        const Result rt = vh::diff_twin(*pdi, *fresh, al.light);
        if (rt.failed())
          return Result::fail("ALIASING: the object under test after the kept objects were re-checked :: " + rt.msg);
      }
    const Result rs = vh::scanner_unchanged(*sc_hist, c["scanner"]);
    if (rs.failed())
      return rs;
  }
  return r;
}

json
gen(Src& s, int size)
{
  json c;
  vg::ScannerOpts so;
  so.max_ndet = size < 30 ? 24 : (size < 70 ? 48 : 96);
  so.max_rings = size < 30 ? 3 : 6;
  so.allow_blocks = true;
  so.allow_predefined = false;
  c["scanner"] = vg::gen_scanner(s, so);
  // (domain audit) vg::gen_scanner builds the number of rings as a product of small block / bucket counts (1..4 x 1..2 x 1..3): 5 and 7
  // rings were never generated ("1..N rings" in the quantifier; odd counts > 3).  One block of 5 or 7 crystals, one block per bucket.
  if (size >= 30 && s.chance(1, 8))
    {
      const int r = s.coin() ? 5 : 7;
      c["scanner"]["rings"] = r;
      c["scanner"]["ax_cryst_per_block"] = r;
      c["scanner"]["ax_blocks_per_bucket"] = 1;
    }
  shared_ptr<Scanner> sc = vg::make_scanner(c["scanner"]);
  vg::PdiOpts po;
  po.allow_asym_segments = true;
  po.allow_clamped_seg0 = true;
  c["pdi"] = vg::gen_pdi(s, *sc, po);
  c["pdi"]["arccorr"] = false;
  // (domain audit) a single tangential position (min == max == 0; vg::gen_pdi starts at 2)
  if (s.chance(1, 25))
    c["pdi"]["tang"] = 1;
  // (domain audit) "reduced segment range": ProjDataInfo::reduce_segment_range accepts any sub-range (its only precondition are the
  // two assertions min >= get_min_segment_num(), max <= get_max_segment_num()); vg::gen_pdi always keeps segment 0.  Ranges a..b with
  // 0 < a <= b (or their mirror image), chosen inside the harness's own segment table so that vg::make_pdi's clamping cannot empty it.
  {
    vh::OwnSegments os;
    json untrimmed = c["pdi"];
    untrimmed["trim"] = json::object();
    if (vh::own_segments(os, untrimmed) && os.max_seg >= 1 && s.chance(1, 10))
      {
        const int a = int(s.range(1, os.max_seg)), b = int(s.range(a, os.max_seg));
        const bool neg = s.coin();
        c["pdi"]["trim"] = { { "max_seg", neg ? -a : b }, { "min_seg", neg ? -b : a }, { "tang_cut", int(s.range(0, 2)) } };
      }
  }
  // known finding C01-H1 (c12_history.h): blocks/generic data with span > 1 lose ring pairs as soon as a setter makes the
  // Michelogram tables be rebuilt; the segment reduction of the trim (vg::make_pdi: reduce_segment_range) is such a setter
  if (!vh::exclusions_off() && sc->get_scanner_geometry() != "Cylindrical" && c["pdi"]["span"].get<int>() > 1 && c["pdi"]["trim"].contains("max_seg"))
    {
      c["pdi"]["trim"] = json::object();
      vh::count_excluded_H1();
    }
  if (s.chance(1, 2))
    { // object history (c12_history.h)
      const json h = vh::gen_history(s, sc, c["pdi"]);
      if (!h.is_null())
        c["hist"] = h;
    }
  return c;
}

// fixed cases: predefined scanners at a few compressions (strided for the largest)
std::vector<json>
fixed_cases(int tier)
{
  std::vector<json> v;
  const std::vector<int> quick_types = { int(Scanner::E931), int(Scanner::E953), int(Scanner::RATPET), int(Scanner::Advance), int(Scanner::HRRT),
                                         int(Scanner::test_scanner), int(Scanner::SAFIRDualRingPrototype) };
  const std::vector<int>& types = tier == 1 ? vg::predefined_types() : quick_types;
  for (int t : types)
    {
      shared_ptr<Scanner> sc(new Scanner(static_cast<Scanner::Type>(t)));
      const int rings = sc->get_num_rings();
      const int ndet = sc->get_num_detectors_per_ring();
      const bool cyl = sc->get_scanner_geometry() == "Cylindrical";
      struct Cfg
      {
        int span, mash, tofmash;
      };
      std::vector<Cfg> cfgs = { { 1, 1, 1 }, { 3, 2, 0 } };
      if (tier == 1)
        {
          cfgs.push_back({ 5, 1, 1 });
          cfgs.push_back({ 2, 1, 0 });
          cfgs.push_back({ 7, 4, 3 });
        }
      for (auto& cf : cfgs)
        {
          json c;
          c["scanner"] = { { "type", t } };
          int span = std::min(cf.span, 2 * rings - 1);
          if (!cyl && span % 2 == 0)
            span = 1;
          int mash = cyl ? cf.mash : 1;
          while ((ndet / 2) % mash != 0)
            --mash;
          int tofmash = 0;
          if (sc->is_tof_ready() && cyl)
            {
              tofmash = cf.tofmash;
              if (tofmash > 0)
                { // need an odd number of TOF bins
                  const int N = sc->get_max_num_timing_poss();
                  while (tofmash <= N && !(N % tofmash == 0 && (N / tofmash) % 2 == 1))
                    ++tofmash;
                  if (tofmash > N)
                    tofmash = 0;
                }
            }
          // work bound: pairs ~ (ndet^2) * (rings/stride)^2 * tof
          const double ntof = tofmash > 0 ? sc->get_max_num_timing_poss() + 3 : 1;
          int ring_stride = 1;
          // memory: the fibre sets cost ~40 bytes per enumerated (detector pair, ring pair, TOF index); 16 thorough workers x 7e7 entries stay below ~45 GB
          // (4e8 made single workers grow to 8-15 GB and the kernel killed them)
          const double budget = tier == 1 ? 7e7 : 6e7;
          while (double(ndet) * ndet * std::ceil(double(rings) / ring_stride) * std::ceil(double(rings) / ring_stride) * ntof > budget && ring_stride < rings)
            ++ring_stride;
          c["pdi"] = { { "span", span },
                       { "max_delta", std::max((span - 1) / 2, std::min(rings - 1, tier == 1 ? rings - 1 : 9)) },
                       { "views", ndet / 2 / mash },
                       { "tang", std::min(sc->get_max_num_non_arccorrected_bins(), ndet - 2) },
                       { "arccorr", false },
                       { "tof_mash", tofmash },
                       { "trim", json::object() } };
          c["ring_stride"] = ring_stride;
          if (&cf == &cfgs[1] || (tier == 1 && &cf != &cfgs[0]))
            { // the compressed samplings are reached through an object history (deterministic per scanner); thorough: both ways
              PrngSrc ph(uint64_t(t) * 977 + uint64_t(&cf - &cfgs[0]) * 31 + 5);
              const json h = vh::gen_history(ph, sc, c["pdi"]);
              if (tier == 1 || h.is_null())
                v.push_back(c);
              if (!h.is_null())
                {
                  json ch = c;
                  ch["hist"] = h;
                  v.push_back(ch);
                }
            }
          else
            v.push_back(c);
          if (&cf == &cfgs[0] && rings > 2)
            { // the same data with an asymmetric segment range (more negative than positive segments, and vice versa)
              json c2 = c;
              c2["pdi"]["trim"] = { { "max_seg", 1 }, { "min_seg", -2 }, { "tang_cut", 1 } };
              v.push_back(c2);
              c2["pdi"]["trim"] = { { "max_seg", 2 }, { "min_seg", 0 }, { "tang_cut", 0 } };
              v.push_back(c2);
            }
        }
    }
  // (domain audit) corners of the generator's new sub-domains, always run: 5 and 7 rings, segment ranges without segment 0 (positive
  // only, negative only, a single segment), a single tangential position, on small user-defined scanners (cylindrical, TOF, blocks)
  {
    auto small_scanner = [](int ndet, int rings, const char* geom, int tof_poss) {
      json sc;
      sc["type"] = -1;
      sc["ndet"] = ndet;
      sc["rings"] = rings;
      sc["tr_cryst_per_block"] = geom[0] == 'B' ? ndet / 4 : 1;
      sc["tr_blocks_per_bucket"] = 1;
      sc["ax_cryst_per_block"] = rings;
      sc["ax_blocks_per_bucket"] = 1;
      sc["singles_units"] = 0;
      sc["max_tang"] = ndet - 1;
      sc["radius"] = 100.;
      sc["doi"] = 0.;
      sc["ring_spacing"] = 4.;
      sc["bin_size"] = 2.;
      sc["tilt"] = 0.;
      sc["tof_poss"] = 0;
      sc["geometry"] = geom;
      if (geom[0] == 'B')
        {
          sc["ax_crystal_spacing"] = 4.;
          sc["tr_crystal_spacing"] = 4.;
          sc["block_gap_ax"] = 0.;
          sc["block_gap_tr"] = 0.;
          sc["radius"] = std::floor(0.999 * (4. * (ndet / 4)) / 2. * 8.) / 8.; // square of 4 buckets: R = side / (2 tan(pi/4))
        }
      if (tof_poss > 0)
        {
          const double fov_d = 2. * vg::make_scanner(sc)->get_max_FOV_radius();
          sc["tof_poss"] = tof_poss;
          sc["tof_size"] = fov_d / 0.149896229 / tof_poss;
          sc["tof_res"] = fov_d / 0.149896229 / 4;
        }
      return sc;
    };
    struct Corner
    {
      int ndet, rings;
      const char* geom;
      int tof_poss, span, max_delta, mash, tang, tof_mash, min_seg, max_seg, tang_cut;
      bool trim;
    };
    const std::vector<Corner> corners = {
      { 12, 5, "Cylindrical", 0, 1, 4, 1, 11, 0, 1, 3, 0, true },           // 5 rings, segments 1..3
      { 12, 5, "Cylindrical", 0, 3, 3, 2, 10, 0, -1, -1, 1, true },         // only the (cut) last negative segment of span 3
      { 8, 7, "Cylindrical", 5, 2, 6, 1, 7, 1, 2, 3, 0, true },             // 7 rings, even span, TOF, segments 2..3
      { 8, 7, "Cylindrical", 5, 5, 5, 4, 1, 5, 1, 1, 0, true },             // a single tangential position, a single positive segment
      { 10, 5, "Cylindrical", 0, 1, 4, 1, 1, 0, 0, 0, 0, false },           // a single tangential position, all segments
      { 8, 5, "BlocksOnCylindrical", 0, 1, 4, 1, 7, 0, -3, -2, 0, true },   // blocks, 5 rings, negative segments only
      { 8, 7, "BlocksOnCylindrical", 0, 3, 6, 1, 6, 0, 1, 2, 1, true },     // blocks, 7 rings, span 3, positive segments only
    };
    int k = 0;
    for (auto& co : corners)
      {
        json c;
        c["scanner"] = small_scanner(co.ndet, co.rings, co.geom, co.tof_poss);
        c["pdi"] = { { "span", co.span },   { "max_delta", co.max_delta }, { "views", co.ndet / 2 / co.mash }, { "tang", co.tang },
                     { "arccorr", false }, { "tof_mash", co.tof_mash },   { "trim", json::object() } };
        if (co.trim)
          c["pdi"]["trim"] = { { "max_seg", co.max_seg }, { "min_seg", co.min_seg }, { "tang_cut", co.tang_cut } };
        v.push_back(c);
        // ... and reached through an object history
        PrngSrc ph(uint64_t(7001 + k++));
        const json h = vh::gen_history(ph, vg::make_scanner(c["scanner"]), c["pdi"]);
        if (!h.is_null())
          {
            c["hist"] = h;
            v.push_back(c);
          }
      }
  }
  return v;
}

// enumeration: every even number of detectors per ring (one ring, clauses 1-3), span 1, all mashing factors
bool
enumerate(uint64_t idx, int tier, json& c)
{
  const int max_ndet = tier == 1 ? 1000 : 160;
  const int ndet = 4 + 2 * int(idx);
  if (ndet > max_ndet)
    return false;
  c = json::object();
  json sc;
  sc["type"] = -1;
  sc["ndet"] = ndet;
  sc["rings"] = (ndet % 12 == 0 && ndet <= 200) ? 2 : 1;
  sc["tr_cryst_per_block"] = 1;
  sc["tr_blocks_per_bucket"] = 1;
  sc["ax_cryst_per_block"] = 1;
  sc["ax_blocks_per_bucket"] = 1;
  sc["singles_units"] = 0;
  sc["max_tang"] = ndet - 1;
  sc["radius"] = 300.;
  sc["doi"] = 0.;
  sc["ring_spacing"] = 4.;
  sc["bin_size"] = 2.;
  sc["tilt"] = 0.;
  sc["tof_poss"] = 0;
  sc["geometry"] = "Cylindrical";
  if (ndet % 10 == 0 && ndet <= 120)
    { // TOF sizes consistent with the FOV (Scanner::check_consistency)
      const double fov_d = 2. * vg::make_scanner(sc)->get_max_FOV_radius();
      sc["tof_poss"] = 5;
      sc["tof_size"] = fov_d / 0.149896229 / 5;
      sc["tof_res"] = fov_d / 0.149896229 / 4;
    }
  c["scanner"] = sc;
  const auto divs = vg::divisors(ndet / 2);
  const int mash = divs[(idx / 3) % divs.size()];
  const int tang = (idx % 3 == 0) ? ndet - 1 : (idx % 3 == 1 ? ndet - 2 : std::max(2, ndet / 2));
  c["pdi"] = { { "span", 1 },
               { "max_delta", sc["rings"].get<int>() - 1 },
               { "views", ndet / 2 / mash },
               { "tang", tang },
               { "arccorr", false },
               { "tof_mash", sc["tof_poss"].get<int>() > 0 ? (idx % 2 ? 1 : 5) : 0 },
               { "trim", json::object() } };
  // every other block of 16 enumerated configurations (blocks, so that the shards of the driver stay balanced) is reached through an
  // object history: the unmashed object is used (all lazy tables built), then view-mashed by SSRB(ProjDataInfo&, 1, mash)
  // (idx%4==1 or 2) or cloned and mashed with set_num_views (idx%4==3 or 0); without mashing it is a clone of a used object
  if ((idx / 16) % 2 == 1)
    {
      json src = c["pdi"];
      src["views"] = ndet / 2;
      json ops = json::array();
      ops.push_back({ { "op", "use" }, { "mask", 31 } });
      // ("keep": the original stays alive and is re-checked against a fresh twin of ITS settings after the copy was mashed and used
      // by all clauses: aliasing clause of c12_history.h)
      if (mash == 1)
        ops.push_back({ { "op", "clone" }, { "keep", "k0" } });
      else if (idx % 4 == 1 || idx % 4 == 2)
        ops.push_back({ { "op", "ssrb" }, { "nseg", 1 }, { "nviews", mash }, { "trim", 0 }, { "max_in_seg", -1 }, { "ntof", 1 }, { "keep", "k0" } });
      else
        {
          ops.push_back({ { "op", "shared_clone" }, { "keep", "k0" } });
          ops.push_back({ { "op", "set_num_views" }, { "views", ndet / 2 / mash } });
        }
      c["hist"] = { { "src", src }, { "ops", ops }, { "route", mash == 1 ? "clone" : ((idx % 4 == 1 || idx % 4 == 2) ? "ssrb" : "setters") }, { "alias", true } };
    }
  return true;
}

bool
nontrivial(const json& c)
{
  const json& p = c["pdi"];
  if (c["scanner"]["type"].get<int>() >= 0)
    return true;
  const int ndet = c["scanner"]["ndet"];
  return p["span"].get<int>() > 1 || p["views"].get<int>() != ndet / 2 || p["tof_mash"].get<int>() > 1 || p["trim"].contains("max_seg")
         || p["tang"].get<int>() < ndet - 1;
}

} // namespace

const Property&
the_property()
{
  static Property p;
  p.id = "C01";
  p.gen = gen;
  p.check = check;
  p.nontrivial = nontrivial;
  p.enumerate = enumerate;
  p.fixed_cases = fixed_cases;
  return p;
}
